"""Triage repro for F10 (C20.b/c): JP tax report year sheets are generated in first-seen order across the three tables and the opening balance
refers to '<asset>_<year - 1>'.  Buys in 2019 and 2021 with a sale in 2020: the 2021 sheet is generated before 2020 and refers to a sheet that
does not exist yet with the row offset of 2019's sheet; with a gap year the reference names a sheet that never exists.
Run by hand:  cd /repo && /venv/bin/python /verif/findings/repro/c20_year_chain.py"""
import re, sys, tempfile
from pathlib import Path
import ezodf
from prezzemolo.avl_tree import AVLTree
from rp2.accounting_engine import AccountingEngine
from rp2.configuration import Configuration
from rp2.in_transaction import InTransaction
from rp2.out_transaction import OutTransaction
from rp2.input_data import InputData
from rp2.plugin.accounting_method.fifo import AccountingMethod
from rp2.plugin.country.jp import JP
from rp2.plugin.report.jp.tax_report_jp import Generator
from rp2.rp2_decimal import RP2Decimal as D
from rp2.tax_engine import compute_tax
from rp2.transaction_set import TransactionSet


def report(ins, outs):
    cfg = Configuration("./config/test_data.ini", JP())
    i = TransactionSet(cfg, "IN", "B1"); o = TransactionSet(cfg, "OUT", "B1"); x = TransactionSet(cfg, "INTRA", "B1")
    for row, ts, amt in ins:
        i.add_entry(InTransaction(cfg, ts, "B1", "Coinbase", "Bob", "BUY", D("100"), D(amt), row=row))
    for row, ts, amt in outs:
        o.add_entry(OutTransaction(cfg, ts, "B1", "Coinbase", "Bob", "SELL", D("150"), D(amt), D("0"), row=row))
    m = AVLTree(); m.insert_node(1970, AccountingMethod())
    cd = compute_tax(cfg, AccountingEngine(m), InputData("B1", i, o, x))
    d = tempfile.mkdtemp()
    Generator().generate(JP(), {1970: "fifo"}, {"B1": cd}, d, "", cfg.from_date, cfg.to_date, "en")
    return ezodf.opendoc(str(Path(d) / "fifo_tax_report_jp.ods"))


def opening_refs(doc):
    out = {}
    names = list(doc.sheets.names())
    for s in doc.sheets:
        if not s.name.startswith("B1_"):
            continue
        refs = set()
        for r in range(s.nrows()):
            f = s[r, 4].formula
            if f and f.startswith("='"):
                refs.add(re.match(r"='([^']+)'", f).group(1))
        out[s.name] = sorted(refs)
    return names, out


status = 0
names, refs = opening_refs(report([(1, "2019-03-01 00:00:00 +0000", "2"), (2, "2021-03-01 00:00:00 +0000", "1")], [(3, "2020-06-01 00:00:00 +0000", "1")]))
order = [n for n in names if n.startswith("B1_")]
print("F10a: sheet order", order, "opening balance references", refs)
if order != sorted(order) or refs.get("B1_2020") != ["B1_2019"] or refs.get("B1_2021") != ["B1_2020"]:
    status = 1
names, refs = opening_refs(report([(1, "2019-03-01 00:00:00 +0000", "2"), (2, "2021-03-01 00:00:00 +0000", "1")], []))
print("F10b: gap year: sheets", [n for n in names if n.startswith("B1_")], "opening balance references", refs)
if refs.get("B1_2021") != ["B1_2019"]:
    status = 1
sys.exit(status)

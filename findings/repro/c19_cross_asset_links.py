"""Triage repro for F9 (C19.b / C17.c) and F5 (C16.b): full-report link tables.

F9: Generator.__in_out_sheet_transaction_2_row is a class-level dict keyed by transaction (eq/hash = row id only), never reset.
    With two assets whose sheets share row numbers and a from-date that hides asset B2's lot, B2's Tax sheet links the hidden lot to
    the row that asset B1's transaction with the same row number occupies (a link to an unrelated row instead of no link).
F5: __get_hyperlinked_summary_value does an unguarded (asset, year) lookup: a from-date later than an asset's last taxable event of
    a year that still has a yearly summary line -> KeyError.
Run by hand:  cd /repo && /venv/bin/python /verif/findings/repro/c19_cross_asset_links.py
"""
import re, sys, tempfile
from datetime import date
from pathlib import Path
import ezodf
from prezzemolo.avl_tree import AVLTree
from rp2.accounting_engine import AccountingEngine
from rp2.configuration import Configuration
from rp2.in_transaction import InTransaction
from rp2.out_transaction import OutTransaction
from rp2.input_data import InputData
from rp2.plugin.accounting_method.fifo import AccountingMethod
from rp2.plugin.country.us import US
from rp2.plugin.report.rp2_full_report import Generator
from rp2.rp2_decimal import RP2Decimal as D
from rp2.tax_engine import compute_tax
from rp2.transaction_set import TransactionSet


def run(from_date, histories):
    cfg = Configuration("./config/test_data.ini", US(), from_date=from_date)
    methods = AVLTree(); methods.insert_node(1970, AccountingMethod())
    out = {}
    for asset, (ins, outs) in histories.items():
        i = TransactionSet(cfg, "IN", asset); o = TransactionSet(cfg, "OUT", asset); x = TransactionSet(cfg, "INTRA", asset)
        for row, ts, amount in ins:
            i.add_entry(InTransaction(cfg, ts, asset, "Coinbase", "Bob", "BUY", D("100"), D(amount), row=row))
        for row, ts, amount in outs:
            o.add_entry(OutTransaction(cfg, ts, asset, "Coinbase", "Bob", "SELL", D("200"), D(amount), D("0"), row=row))
        out[asset] = compute_tax(cfg, AccountingEngine(methods), InputData(asset, i, o, x, cfg.from_date, cfg.to_date))
    d = tempfile.mkdtemp()
    Generator().generate(US(), {1970: "fifo"}, out, d, "", cfg.from_date, cfg.to_date, "en")
    return ezodf.opendoc(str(Path(d) / "fifo_rp2_full_report.ods"))


status = 0
# ---- F9: B1 row 5 is a 2021 sale; B2 row 5 is a 2019 buy (hidden by -f 2021-01-01) sold in 2021
h = {
    "B1": ([(3, "2019-01-01 00:00:00 +0000", "1")], [(5, "2021-03-01 00:00:00 +0000", "1")]),
    "B2": ([(5, "2019-02-01 00:00:00 +0000", "1")], [(7, "2021-04-01 00:00:00 +0000", "1")]),
}
doc = run(date(2021, 1, 1), h)
tax = doc.sheets["B2 Tax"]
links = set()
for r in range(tax.nrows()):
    for c in range(12, 20):
        f = tax[r, c].formula
        if f and "HYPERLINK" in f:
            links.add(re.search(r'#([^"]+)"', f).group(1))
print("F9: acquired-lot cells of 'B2 Tax' (lot hidden by the from-date) link to:", sorted(links) or "nothing (correct)")
if links:
    status = 1
# ---- F5: from-date after the asset's only 2021 event, same year
try:
    run(date(2021, 6, 1), {"B1": ([(3, "2019-01-01 00:00:00 +0000", "1")], [(5, "2021-03-01 00:00:00 +0000", "1")])})
    print("F5: mid-year from-date: report written (correct)")
except KeyError as exc:
    print("F5: mid-year from-date: KeyError", exc)
    status = 1
sys.exit(status)

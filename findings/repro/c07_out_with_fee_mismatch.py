"""Triage repro for finding F2 (C07.e): balances debit crypto_out_no_fee + crypto_fee, the lot matcher consumes crypto_out_with_fee.

An accepted input (only a warning is logged) supplies the optional crypto_out_with_fee column with a value that differs from
crypto_out_no_fee + crypto_fee.  The sum of final balances then differs from the amount left unconsumed in lots.
Run by hand:  cd /repo && /venv/bin/python /verif/findings/repro/c07_out_with_fee_mismatch.py
"""
import sys
from prezzemolo.avl_tree import AVLTree
from rp2.accounting_engine import AccountingEngine
from rp2.configuration import Configuration
from rp2.in_transaction import InTransaction
from rp2.out_transaction import OutTransaction
from rp2.input_data import InputData
from rp2.plugin.accounting_method.fifo import AccountingMethod
from rp2.plugin.country.us import US
from rp2.rp2_decimal import RP2Decimal
from rp2.tax_engine import compute_tax
from rp2.transaction_set import TransactionSet

cfg = Configuration("./config/test_data.ini", US())
ins = TransactionSet(cfg, "IN", "B1"); outs = TransactionSet(cfg, "OUT", "B1"); intras = TransactionSet(cfg, "INTRA", "B1")
ins.add_entry(InTransaction(cfg, "2020-01-01 00:00:00 +0000", "B1", "Coinbase", "Bob", "BUY", RP2Decimal("100"), RP2Decimal("10"), row=1))
# exchange-supplied total (3.5) != 3 + 0.1
outs.add_entry(OutTransaction(cfg, "2020-02-01 00:00:00 +0000", "B1", "Coinbase", "Bob", "SELL", RP2Decimal("200"), RP2Decimal("3"), RP2Decimal("0.1"), crypto_out_with_fee=RP2Decimal("3.5"), row=2))
data = InputData("B1", ins, outs, intras)
methods = AVLTree(); methods.insert_node(1970, AccountingMethod())
cd = compute_tax(cfg, AccountingEngine(methods), data)
consumed = sum((gl.crypto_amount for gl in cd.gain_loss_set if gl.acquired_lot), RP2Decimal("0"))
unconsumed = RP2Decimal("10") - consumed
final = sum((b.final_balance for b in cd.balance_set), RP2Decimal("0"))
print("sum of final balances:", final, " unconsumed in lots:", unconsumed)
sys.exit(0 if final == unconsumed else 1)

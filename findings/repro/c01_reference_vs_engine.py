import os, random, sys
os.chdir("/repo")
import logging; logging.disable(logging.CRITICAL)
from prezzemolo.avl_tree import AVLTree
from rp2.configuration import Configuration, MIN_DATE, MAX_DATE
from rp2.plugin.country.us import US
from rp2.in_transaction import InTransaction
from rp2.out_transaction import OutTransaction
from rp2.transaction_set import TransactionSet
from rp2.input_data import InputData
from rp2.accounting_engine import AccountingEngine
from rp2.tax_engine import compute_tax
from rp2.rp2_decimal import RP2Decimal as D, ZERO
import rp2.abstract_accounting_method as aam
from importlib import import_module
from datetime import datetime, timedelta, timezone
from decimal import Decimal
cfg = Configuration("./config/test_data.ini", US())

def patched_seek(self, lot_candidates, taxable_event_amount):
    selected_amount = ZERO; selected = None
    for lot in lot_candidates:
        if not lot_candidates.has_partial_amount(lot):
            amt = lot.crypto_in
        elif lot_candidates.get_partial_amount(lot) > ZERO:
            amt = lot_candidates.get_partial_amount(lot)
        else:
            continue
        selected_amount = amt; selected = lot; break
    if selected_amount > ZERO and selected:
        lot_candidates.clear_partial_amount(selected)
        self.add_selected_lot_to_heap(lot_candidates.acquired_lot_heap, selected)
        return aam.AcquiredLotAndAmount(acquired_lot=selected, amount=selected_amount)
    return None
orig = aam.AbstractFeatureBasedAccountingMethod.seek_non_exhausted_acquired_lot

def gen(rng, n):
    t0 = datetime(2020,1,1,tzinfo=timezone.utc)
    ins=[]; outs=[]; bal=Decimal(0); t=t0; row=1
    for k in range(n):
        t += timedelta(days=rng.randint(1,40))
        r = rng.random()
        if bal == 0 or r < 0.5:
            typ = "BUY" if rng.random()<0.6 else "INTEREST"
            amt = Decimal(rng.randint(1,5)); price = Decimal(rng.choice([10,20,30,40,50])) + Decimal(rng.randint(0,9))/10
            ins.append((row, t, typ, price, amt)); bal += amt
        else:
            amt = Decimal(rng.randint(1, int(bal)))
            outs.append((row, t, Decimal(rng.randint(10,60)), amt)); bal -= amt
        row+=1
    return ins, outs

def reference(method, ins, outs):
    rem = {r: a for (r,t,ty,p,a) in ins}
    info = {r:(t,p) for (r,t,ty,p,a) in ins}
    res=[]
    for (r,t,p,a) in sorted(outs, key=lambda x:x[1]):
        need=a
        while need>0:
            cands=[l for l in rem if rem[l]>0 and info[l][0]<=t]
            if not cands: return "EXHAUSTED"
            if method=="fifo": best=min(cands,key=lambda l:(info[l][0],l))
            elif method=="lifo": best=max(cands,key=lambda l:(info[l][0],l))
            elif method=="hifo": best=min(cands,key=lambda l:(-info[l][1],info[l][0],l))
            else: best=min(cands,key=lambda l:(info[l][1],info[l][0],l))
            take=min(need,rem[best]); rem[best]-=take; need-=take
            res.append((str(r),str(best),take))
    return res

def run(method, ins, outs):
    i = TransactionSet(cfg, "IN", "B1", MIN_DATE, MAX_DATE)
    o = TransactionSet(cfg, "OUT", "B1", MIN_DATE, MAX_DATE)
    x = TransactionSet(cfg, "INTRA", "B1", MIN_DATE, MAX_DATE)
    for (r,t,ty,p,a) in ins:
        i.add_entry(InTransaction(cfg, t.isoformat(), "B1", "Coinbase", "Bob", ty, D(str(p)), D(str(a)), row=r))
    for (r,t,p,a) in outs:
        o.add_entry(OutTransaction(cfg, t.isoformat(), "B1", "Coinbase", "Bob", "SELL", D(str(p)), D(str(a)), D("0"), row=r))
    tr = AVLTree(); tr.insert_node(1970, import_module(f"rp2.plugin.accounting_method.{method}").AccountingMethod())
    try:
        cd = compute_tax(cfg, AccountingEngine(tr), InputData("B1", i, o, x))
        return [(g.taxable_event.internal_id, g.acquired_lot.internal_id, Decimal(str(g.crypto_amount))) for g in cd.gain_loss_set if g.acquired_lot]
    except Exception as e:
        return "ERR "+repr(e)[:80]

rng = random.Random(7)
stats={}
for mode in ("orig","patched"):
    aam.AbstractFeatureBasedAccountingMethod.seek_non_exhausted_acquired_lot = orig if mode=="orig" else patched_seek
    rng = random.Random(7)
    for trial in range(400):
        ins,outs = gen(rng, rng.randint(3,12))
        if not outs: continue
        for m in ("fifo","lifo","hifo","lofo"):
            got = run(m, ins, outs); ref = reference(m, ins, outs)
            ok = (got==ref)
            k=(mode,m); s=stats.setdefault(k,[0,0,None]); s[0]+=1
            if not ok:
                s[1]+=1
                if s[2] is None: s[2]=(ins,outs,got,ref)
for k,v in sorted(stats.items()): print(k, "runs",v[0],"diverge",v[1])
for k,v in sorted(stats.items()):
    if k[0]=="patched" and v[2]:
        ins,outs,got,ref=v[2]
        print(k); print(" ins",[(r,str(t.date()),ty,str(p),str(a)) for r,t,ty,p,a in ins]); print(" outs",[(r,str(t.date()),str(a)) for r,t,p,a in outs]); print(" got",got); print(" ref",ref)

"""Triage repro for F11 (C19.c): the Summary line of a year must link to the FIRST gain/loss row of that year in the asset's Tax sheet.

The detail writer records (asset, year) -> row whenever the event's (local) year differs from the previous row's year, overwriting an
earlier record.  Rows are sorted by instant, years are local: with disposals on both sides of New Year in different UTC offsets the
years interleave (2021, 2020, 2021) and the record for 2021 is overwritten by a later row.
Run by hand:  cd /repo && /venv/bin/python /verif/findings/repro/c19_summary_first_row.py
"""
import re, sys, tempfile
from pathlib import Path
import ezodf
from prezzemolo.avl_tree import AVLTree
from rp2.accounting_engine import AccountingEngine
from rp2.configuration import Configuration
from rp2.in_transaction import InTransaction
from rp2.out_transaction import OutTransaction
from rp2.input_data import InputData
from rp2.plugin.accounting_method.fifo import AccountingMethod
from rp2.plugin.country.us import US
from rp2.plugin.report.rp2_full_report import Generator
from rp2.rp2_decimal import RP2Decimal as D
from rp2.tax_engine import compute_tax
from rp2.transaction_set import TransactionSet

cfg = Configuration("./config/test_data.ini", US())
methods = AVLTree(); methods.insert_node(1970, AccountingMethod())
i = TransactionSet(cfg, "IN", "B1"); o = TransactionSet(cfg, "OUT", "B1"); x = TransactionSet(cfg, "INTRA", "B1")
i.add_entry(InTransaction(cfg, "2019-01-01 00:00:00 +0000", "B1", "Coinbase", "Bob", "BUY", D("100"), D("10"), row=3))
# instants: A 2020-12-31 23:00Z (local year 2021), B 2021-01-01 01:00Z (local year 2020), C 2021-03-01 (2021)
o.add_entry(OutTransaction(cfg, "2021-01-01 08:00:00 +0900", "B1", "Coinbase", "Bob", "SELL", D("200"), D("1"), D("0"), row=5))
o.add_entry(OutTransaction(cfg, "2020-12-31 20:00:00 -0500", "B1", "Coinbase", "Bob", "SELL", D("200"), D("2"), D("0"), row=6))
o.add_entry(OutTransaction(cfg, "2021-03-01 00:00:00 +0000", "B1", "Coinbase", "Bob", "SELL", D("200"), D("3"), D("0"), row=7))
cd = {"B1": compute_tax(cfg, AccountingEngine(methods), InputData("B1", i, o, x))}
d = tempfile.mkdtemp()
Generator().generate(US(), {1970: "fifo"}, cd, d, "", cfg.from_date, cfg.to_date, "en")
doc = ezodf.opendoc(str(Path(d) / "fifo_rp2_full_report.ods"))
tax = doc.sheets["B1 Tax"]
# first detail row whose 'Taxable Event Timestamp' is in local year 2021: find rows of the Gain / Loss Detail table by the crypto amount column
detail_rows = {}
for r in range(tax.nrows()):
    v = tax[r, 0].value
    m = re.search(r'"(\d{4})-\d\d-\d\d \d\d:\d\d:\d\d[+-]', str(tax[r, 5].formula or tax[r, 5].value or ""))
    if isinstance(v, float) and m:
        detail_rows.setdefault(int(m.group(1)), r + 1)  # 1-based
summary = doc.sheets["Summary"]
status = 0
for r in range(summary.nrows()):
    f = summary[r, 0].formula or ""
    m = re.search(r'#B1 Tax\.a(\d+):z\d+"; (\d{4})', f)
    if m:
        row, year = int(m.group(1)), int(m.group(2))
        first = detail_rows.get(year)
        ok = row == first
        print(f"Summary line {year}: links to row {row}; first gain/loss row of {year} in 'B1 Tax' is row {first} -> {'ok' if ok else 'WRONG'}")
        status |= 0 if ok else 1
sys.exit(status)

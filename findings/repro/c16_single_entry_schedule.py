"""Triage repro for F6 (C16.b): a one-line [accounting_methods] section whose year is not 1970 makes every ODS generator raise KeyError: 1970.
Also F4: rp2_jp's default generation language 'ja' has no template; F7: JP tax report rejects -f together with -t; F8: configured 'generators' ignored.
Run by hand:  cd /repo && /venv/bin/python /verif/findings/repro/c16_single_entry_schedule.py"""
import sys, tempfile
from datetime import date
from prezzemolo.avl_tree import AVLTree
from rp2.accounting_engine import AccountingEngine
from rp2.configuration import Configuration
from rp2.in_transaction import InTransaction
from rp2.out_transaction import OutTransaction
from rp2.input_data import InputData
from rp2.plugin.accounting_method.hifo import AccountingMethod
from rp2.plugin.country.us import US
from rp2.plugin.country.jp import JP
from rp2.plugin.report.open_positions import Generator
from rp2.plugin.report.jp.tax_report_jp import Generator as JPGenerator
from rp2.rp2_decimal import RP2Decimal as D
from rp2.tax_engine import compute_tax
from rp2.transaction_set import TransactionSet
from rp2.rp2_error import RP2RuntimeError


def data(country, **kw):
    cfg = Configuration("./config/test_data.ini", country, **kw)
    i = TransactionSet(cfg, "IN", "B1"); o = TransactionSet(cfg, "OUT", "B1"); x = TransactionSet(cfg, "INTRA", "B1")
    i.add_entry(InTransaction(cfg, "2020-01-01 00:00:00 +0000", "B1", "Coinbase", "Bob", "BUY", D("100"), D("2"), row=1))
    o.add_entry(OutTransaction(cfg, "2020-06-01 00:00:00 +0000", "B1", "Coinbase", "Bob", "SELL", D("150"), D("1"), D("0"), row=2))
    m = AVLTree(); m.insert_node(2019, AccountingMethod())
    return cfg, {"B1": compute_tax(cfg, AccountingEngine(m), InputData("B1", i, o, x, cfg.from_date, cfg.to_date))}

status = 0
cfg, cd = data(US())
try:
    Generator().generate(US(), {2019: "hifo"}, cd, tempfile.mkdtemp(), "", cfg.from_date, cfg.to_date, "en")
    print("F6: [accounting_methods] 2019 = hifo: report written")
except KeyError as exc:
    print("F6: [accounting_methods] 2019 = hifo: KeyError", exc); status = 1
try:
    Generator()._get_template_path("open_positions", JP(), JP().get_default_generation_language())
    print("F4: rp2_jp default language: template found")
except RP2RuntimeError as exc:
    print("F4: rp2_jp default language:", str(exc)[:80]); status = 1
cfg, cd = data(JP(), from_date=date(2020, 1, 1), to_date=date(2020, 12, 31))
try:
    JPGenerator().generate(JP(), {1970: "fifo"}, cd, tempfile.mkdtemp(), "", cfg.from_date, cfg.to_date, "en")
    print("F7: JP tax report with -f and -t: written")
except RP2RuntimeError as exc:
    print("F7: JP tax report with -f and -t:", str(exc)[:80]); status = 1
import os
d = tempfile.mkdtemp(); p = os.path.join(d, "c.ini")
open(p, "w").write(open("./config/test_data.ini").read().replace("[general]", "[general]\ngenerators = rp2.plugin.report.open_positions"))
c2 = Configuration(p, US())
print("F8: configured generators =", sorted(c2.generators), "(expected only open_positions)")
if len(c2.generators) != 1: status = 1
sys.exit(status)

"""F12: the entry-set iterator stops at the first entry dated after the to-date, but entries are sorted by instant and the test uses each entry's own
(local) calendar date: with mixed UTC offsets a later-sorted entry can have an earlier local date and is silently dropped from the window.
Run:  cd /repo && PYTHONPATH=/repo/src /venv/bin/python /verif/findings/repro/f12_iterator_early_stop.py   (exit 1 = defect present)"""
import sys
from datetime import date
from pathlib import Path

from rp2.configuration import Configuration
from rp2.entry_types import EntrySetType
from rp2.in_transaction import InTransaction
from rp2.plugin.country.us import US
from rp2.rp2_decimal import RP2Decimal
from rp2.transaction_set import TransactionSet

cfg = Configuration("/repo/config/test_data.ini", US())
D = RP2Decimal
# A: 2022-01-01 00:20 +01:00 = 2021-12-31 23:20 UTC (own date 2022-01-01, outside the window); B: 2021-12-31 22:15 -08:00 = 2022-01-01 06:15 UTC (own date 2021-12-31, inside)
a = InTransaction(cfg, "2022-01-01T00:20:00+01:00", "B1", "Coinbase", "Bob", "Buy", D("100"), D("1"), row=10)
b = InTransaction(cfg, "2021-12-31T22:15:00-08:00", "B1", "Coinbase", "Bob", "Buy", D("100"), D("1"), row=11)
s = TransactionSet(cfg, "IN", "B1", to_date=date(2021, 12, 31))
s.add_entry(a)
s.add_entry(b)
shown = [t.internal_id for t in s]
print("entries with own date <= 2021-12-31 shown by the filtered set:", shown, "(expected ['11'])")

# the same early stop in the balance replay: the balance "up to 2021-12-31" misses the purchase dated 2021-12-31 22:15 -08:00
from rp2.balance import BalanceSet
from rp2.input_data import InputData

full = TransactionSet(cfg, "IN", "B1")
full.add_entry(a)
full.add_entry(b)
inp = InputData("B1", full, TransactionSet(cfg, "OUT", "B1", allow_empty=True) if "allow_empty" in TransactionSet.__init__.__code__.co_varnames else TransactionSet(cfg, "OUT", "B1"), TransactionSet(cfg, "INTRA", "B1"))
balances = [(x.exchange, x.holder, str(x.final_balance)) for x in BalanceSet(cfg, inp, date(2021, 12, 31))]
print("balances up to 2021-12-31:", balances, "(expected Coinbase/Bob 1)")
ok_bal = balances == [("Coinbase", "Bob", "1")] or [z[2].rstrip("0").rstrip(".") for z in balances] == ["1"]
sys.exit(0 if shown == ["11"] and ok_bal else 1)

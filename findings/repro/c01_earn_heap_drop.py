import os
os.chdir("/repo")
from prezzemolo.avl_tree import AVLTree
from rp2.configuration import Configuration, MIN_DATE, MAX_DATE
from rp2.plugin.country.us import US
from rp2.in_transaction import InTransaction
from rp2.out_transaction import OutTransaction
from rp2.transaction_set import TransactionSet
from rp2.input_data import InputData
from rp2.accounting_engine import AccountingEngine
from rp2.tax_engine import compute_tax
from rp2.rp2_decimal import RP2Decimal as D
from importlib import import_module
cfg = Configuration("./config/test_data.ini", US())
def run(method, ins, outs):
    i = TransactionSet(cfg, "IN", "B1", MIN_DATE, MAX_DATE)
    o = TransactionSet(cfg, "OUT", "B1", MIN_DATE, MAX_DATE)
    x = TransactionSet(cfg, "INTRA", "B1", MIN_DATE, MAX_DATE)
    r = 1
    for (ts, typ, price, amt) in ins:
        i.add_entry(InTransaction(cfg, ts, "B1", "Coinbase", "Bob", typ, D(price), D(amt), row=r)); r += 1
    for (ts, price, amt) in outs:
        o.add_entry(OutTransaction(cfg, ts, "B1", "Coinbase", "Bob", "SELL", D(price), D(amt), D("0"), row=r)); r += 1
    t = AVLTree(); t.insert_node(1970, import_module(f"rp2.plugin.accounting_method.{method}").AccountingMethod())
    try:
        cd = compute_tax(cfg, AccountingEngine(t), InputData("B1", i, o, x))
        return [(g.taxable_event.internal_id, g.acquired_lot.internal_id if g.acquired_lot else None, str(g.crypto_amount)) for g in cd.gain_loss_set]
    except Exception as e:
        return repr(e)
# lot1 price 100 amt 2 ; interest amt 10 at t2 ; sell 1 at t3; sell 1 at t4
ins = [("2020-01-01T00:00:00Z", "BUY", "100", "2"), ("2020-01-02T00:00:00Z", "INTEREST", "50", "10")]
outs = [("2020-01-03T00:00:00Z", "120", "1"), ("2020-01-04T00:00:00Z", "120", "1"), ("2020-01-05T00:00:00Z", "120", "5")]
for m in ("fifo", "lifo", "hifo", "lofo"):
    print(m, run(m, ins, outs))

"""Triage repro for F3 (C14.a / C16.b): the IE tax report has no sheet for LOST, a legal taxable out-transaction type.
Run by hand:  cd /repo && /venv/bin/python /verif/findings/repro/c14_ie_lost.py"""
import sys, tempfile
from prezzemolo.avl_tree import AVLTree
from rp2.accounting_engine import AccountingEngine
from rp2.configuration import Configuration
from rp2.in_transaction import InTransaction
from rp2.out_transaction import OutTransaction
from rp2.input_data import InputData
from rp2.plugin.accounting_method.fifo import AccountingMethod
from rp2.plugin.country.ie import IE
from rp2.plugin.report.ie.tax_report_ie import Generator
from rp2.rp2_decimal import RP2Decimal as D
from rp2.tax_engine import compute_tax
from rp2.transaction_set import TransactionSet

cfg = Configuration("./config/test_data.ini", IE())
i = TransactionSet(cfg, "IN", "B1"); o = TransactionSet(cfg, "OUT", "B1"); x = TransactionSet(cfg, "INTRA", "B1")
i.add_entry(InTransaction(cfg, "2020-01-01 00:00:00 +0000", "B1", "Coinbase", "Bob", "BUY", D("100"), D("2"), row=1))
o.add_entry(OutTransaction(cfg, "2020-06-01 00:00:00 +0000", "B1", "Coinbase", "Bob", "LOST", D("150"), D("1"), D("0"), row=2))
m = AVLTree(); m.insert_node(1970, AccountingMethod())
cd = compute_tax(cfg, AccountingEngine(m), InputData("B1", i, o, x))
try:
    Generator().generate(IE(), {1970: "fifo"}, {"B1": cd}, tempfile.mkdtemp(), "", cfg.from_date, cfg.to_date, "en_IE")
    print("F3: IE tax report written"); sys.exit(0)
except KeyError as exc:
    print("F3: IE tax report: KeyError", exc); sys.exit(1)

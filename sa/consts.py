"""Constant folder over source expressions (no execution of rp2 code).

Handles what this code base uses to spell its finite tables: literals,
displays, comprehensions over Enum classes, Enum members and ``.value``,
string repetition/concatenation, f-strings, ``Decimal("...")``,
``date(y, m, d)``, ``sys.maxsize``, references to module constants and class
attributes.
"""

from __future__ import annotations

import ast
import datetime
import sys
from dataclasses import dataclass
from decimal import Decimal
from typing import Any, Dict, List, Optional

from .symbols import ClassInfo, Program


class _Unknown:
    def __repr__(self) -> str:
        return "UNKNOWN"

    def __bool__(self) -> bool:
        return False


UNKNOWN = _Unknown()


@dataclass(frozen=True)
class EnumVal:
    cls: str  # fq of enum class
    member: str
    value: Any

    def __repr__(self) -> str:
        return f"{self.cls.split(':')[1]}.{self.member}"

    def __lt__(self, other: "EnumVal") -> bool:
        return (self.cls, self.member) < (other.cls, other.member)


@dataclass(frozen=True)
class EnumClass:
    cls: str


def enum_members(prog: Program, ci: ClassInfo) -> List[EnumVal]:
    out = []
    for stmt in ci.node.body:
        if isinstance(stmt, ast.Assign) and len(stmt.targets) == 1 and isinstance(stmt.targets[0], ast.Name):
            name = stmt.targets[0].id
            if name.startswith("_"):
                continue
            val = fold(prog, ci.module, stmt.value)
            out.append(EnumVal(ci.fq, name, val if val is not UNKNOWN else name))
    return out


class Folder:
    def __init__(self, prog: Program, module: str, env: Optional[Dict[str, Any]] = None, cls: Optional[ClassInfo] = None, depth: int = 0) -> None:
        self.prog = prog
        self.module = module
        self.env = dict(env or {})
        self.cls = cls
        self.depth = depth

    def sub(self, module: str, cls: Optional[ClassInfo] = None) -> "Folder":
        return Folder(self.prog, module, {}, cls, self.depth + 1)

    def fold(self, node: Optional[ast.AST]) -> Any:
        if node is None or self.depth > 12:
            return UNKNOWN
        meth = getattr(self, "f_" + type(node).__name__, None)
        if meth is None:
            return UNKNOWN
        try:
            return meth(node)
        except (TypeError, ValueError, KeyError, IndexError, ArithmeticError, AttributeError, RecursionError):
            return UNKNOWN

    # literals / displays
    def f_Constant(self, node: ast.Constant) -> Any:
        return node.value

    def _seq(self, elts: List[ast.expr]) -> Any:
        vals = []
        for e in elts:
            if isinstance(e, ast.Starred):
                v = self.fold(e.value)
                if v is UNKNOWN:
                    return UNKNOWN
                vals.extend(list(v))
                continue
            v = self.fold(e)
            if v is UNKNOWN:
                return UNKNOWN
            vals.append(v)
        return vals

    def f_Tuple(self, node: ast.Tuple) -> Any:
        v = self._seq(node.elts)
        return UNKNOWN if v is UNKNOWN else tuple(v)

    def f_List(self, node: ast.List) -> Any:
        return self._seq(node.elts)

    def f_Set(self, node: ast.Set) -> Any:
        v = self._seq(node.elts)
        return UNKNOWN if v is UNKNOWN else frozenset(v)

    def f_Dict(self, node: ast.Dict) -> Any:
        out: Dict[Any, Any] = {}
        for k, v in zip(node.keys, node.values):
            if k is None:
                sub = self.fold(v)
                if sub is UNKNOWN:
                    return UNKNOWN
                out.update(sub)
                continue
            kk, vv = self.fold(k), self.fold(v)
            if kk is UNKNOWN:
                return UNKNOWN
            out[kk] = vv
        return out

    def f_JoinedStr(self, node: ast.JoinedStr) -> Any:
        parts = []
        for v in node.values:
            if isinstance(v, ast.Constant):
                parts.append(str(v.value))
            elif isinstance(v, ast.FormattedValue):
                val = self.fold(v.value)
                if val is UNKNOWN:
                    return UNKNOWN
                spec = ""
                if v.format_spec is not None:
                    spec = self.fold(v.format_spec)
                    if spec is UNKNOWN:
                        return UNKNOWN
                parts.append(format(val, spec))
        return "".join(parts)

    # names
    def f_Name(self, node: ast.Name) -> Any:
        if node.id in self.env:
            return self.env[node.id]
        if node.id in ("True", "False", "None"):
            return {"True": True, "False": False, "None": None}[node.id]
        if self.cls is not None and node.id in self.cls.class_attrs:
            # class-body scope: a class attribute referenced by bare name
            stmt0 = self.cls.class_attrs[node.id]
            return Folder(self.prog, self.cls.module, {}, self.cls, self.depth + 1).fold(getattr(stmt0, "value", None))
        res = self.prog.resolve_name(self.module, node.id)
        if res is None:
            return UNKNOWN
        kind, val = res
        if kind == "const":
            mod, stmt = val
            value = stmt.value if isinstance(stmt, (ast.Assign, ast.AnnAssign)) else None
            return self.sub(mod.name).fold(value)
        if kind == "class" and val.is_enum():
            return EnumClass(val.fq)
        return UNKNOWN

    def f_Attribute(self, node: ast.Attribute) -> Any:
        # sys.maxsize
        if isinstance(node.value, ast.Name) and node.value.id == "sys" and node.attr == "maxsize":
            return sys.maxsize
        # self.X / cls.X class attribute
        if isinstance(node.value, ast.Name) and node.value.id in ("self", "cls") and self.cls is not None:
            res = self.prog.lookup_member(self.cls, node.attr)
            if res and res[0] == "classattr":
                owner, stmt = res[1]
                return Folder(self.prog, owner.module, {}, owner, self.depth + 1).fold(getattr(stmt, "value", None))
            return UNKNOWN
        res = self.prog.resolve_expr_name(self.module, node.value) if isinstance(node.value, (ast.Name, ast.Attribute)) else None
        if res and res[0] == "class":
            ci: ClassInfo = res[1]
            if ci.is_enum():
                for m in enum_members(self.prog, ci):
                    if m.member == node.attr:
                        return m
                return UNKNOWN
            mem = self.prog.lookup_member(ci, node.attr)
            if mem and mem[0] == "classattr":
                owner, stmt = mem[1]
                return Folder(self.prog, owner.module, {}, owner, self.depth + 1).fold(getattr(stmt, "value", None))
            return UNKNOWN
        base = self.fold(node.value)
        if base is UNKNOWN:
            return UNKNOWN
        if isinstance(base, EnumVal):
            if node.attr == "value":
                return base.value
            if node.attr == "name":
                return base.member
        if isinstance(base, datetime.date) and node.attr in ("year", "month", "day"):
            return getattr(base, node.attr)
        return UNKNOWN

    # operators
    def f_BinOp(self, node: ast.BinOp) -> Any:
        l, r = self.fold(node.left), self.fold(node.right)
        if l is UNKNOWN or r is UNKNOWN:
            return UNKNOWN
        op = type(node.op)
        if op is ast.Add:
            return l + r
        if op is ast.Sub:
            return l - r
        if op is ast.Mult:
            if isinstance(l, str) and isinstance(r, int) and r > 10000:
                return UNKNOWN
            return l * r
        if op is ast.Pow and isinstance(r, int) and abs(r) < 200:
            return l**r
        if op is ast.FloorDiv:
            return l // r
        if op is ast.Mod and not isinstance(l, str):
            return l % r
        return UNKNOWN

    def f_UnaryOp(self, node: ast.UnaryOp) -> Any:
        v = self.fold(node.operand)
        if v is UNKNOWN:
            return UNKNOWN
        if isinstance(node.op, ast.USub):
            return -v
        if isinstance(node.op, ast.Not):
            return not v
        if isinstance(node.op, ast.UAdd):
            return +v
        return UNKNOWN

    def f_Call(self, node: ast.Call) -> Any:
        fname = None
        if isinstance(node.func, ast.Name):
            fname = node.func.id
        elif isinstance(node.func, ast.Attribute):
            # "sep".join(...), x.upper(), x.lower(), x.format(...)
            base = self.fold(node.func.value)
            if base is not UNKNOWN and isinstance(base, str):
                args = [self.fold(a) for a in node.args]
                if any(a is UNKNOWN for a in args):
                    return UNKNOWN
                if node.func.attr in ("upper", "lower", "strip", "format", "join", "lstrip", "rstrip"):
                    return getattr(base, node.func.attr)(*args)
            if base is not UNKNOWN and isinstance(base, dict) and node.func.attr in ("items", "keys", "values"):
                return list(getattr(base, node.func.attr)())
            if base is not UNKNOWN and isinstance(base, (frozenset, list)) and node.func.attr == "copy":
                return base
            return UNKNOWN
        args = [self.fold(a) for a in node.args]
        if fname in ("Decimal", "RP2Decimal") and len(args) == 1 and args[0] is not UNKNOWN and not node.keywords:
            if isinstance(args[0], (str, int, Decimal)):
                return Decimal(args[0])
            return UNKNOWN
        if fname == "date" and len(args) == 3 and all(isinstance(a, int) for a in args):
            return datetime.date(*args)
        if any(a is UNKNOWN for a in args) or node.keywords:
            return UNKNOWN
        if fname == "int" and len(args) == 1:
            return int(args[0])
        if fname == "str" and len(args) == 1:
            return str(args[0])
        if fname == "len" and len(args) == 1:
            return len(args[0])
        if fname in ("set", "frozenset"):
            return frozenset(args[0]) if args else frozenset()
        if fname == "list":
            return list(args[0]) if args else []
        if fname == "tuple":
            return tuple(args[0]) if args else ()
        if fname == "sorted" and len(args) == 1:
            return sorted(args[0])
        if fname == "_" and len(args) == 1 and isinstance(args[0], str):
            return args[0]  # gettext identity for the untranslated (msgid) form
        return UNKNOWN

    # comprehensions
    def _iterate(self, generators: List[ast.comprehension], idx: int, body) -> Any:
        if idx == len(generators):
            return body()
        gen = generators[idx]
        it = self.fold(gen.iter)
        if it is UNKNOWN:
            return UNKNOWN
        if isinstance(it, EnumClass):
            it = enum_members(self.prog, self.prog.classes[it.cls])
        if isinstance(it, dict):
            it = list(it.keys())
        out = []
        saved = dict(self.env)
        try:
            for item in it:
                if not self._bind(gen.target, item):
                    return UNKNOWN
                ok = True
                for cond in gen.ifs:
                    c = self.fold(cond)
                    if c is UNKNOWN:
                        return UNKNOWN
                    if not c:
                        ok = False
                        break
                if not ok:
                    continue
                sub = self._iterate(generators, idx + 1, body)
                if sub is UNKNOWN:
                    return UNKNOWN
                out.extend(sub)
        finally:
            self.env = saved
        return out

    def _bind(self, target: ast.expr, value: Any) -> bool:
        if isinstance(target, ast.Name):
            self.env[target.id] = value
            return True
        if isinstance(target, (ast.Tuple, ast.List)):
            try:
                vals = list(value)
            except TypeError:
                return False
            if len(vals) != len(target.elts):
                return False
            return all(self._bind(t, v) for t, v in zip(target.elts, vals))
        return False

    def f_SetComp(self, node: ast.SetComp) -> Any:
        def body() -> Any:
            v = self.fold(node.elt)
            return UNKNOWN if v is UNKNOWN else [v]

        out = self._iterate(node.generators, 0, body)
        return UNKNOWN if out is UNKNOWN else frozenset(out)

    def f_ListComp(self, node: ast.ListComp) -> Any:
        def body() -> Any:
            v = self.fold(node.elt)
            return UNKNOWN if v is UNKNOWN else [v]

        return self._iterate(node.generators, 0, body)

    f_GeneratorExp = f_ListComp  # type: ignore[assignment]

    def f_DictComp(self, node: ast.DictComp) -> Any:
        def body() -> Any:
            k, v = self.fold(node.key), self.fold(node.value)
            return UNKNOWN if k is UNKNOWN else [(k, v)]

        out = self._iterate(node.generators, 0, body)
        return UNKNOWN if out is UNKNOWN else dict(out)

    def f_Subscript(self, node: ast.Subscript) -> Any:
        base = self.fold(node.value)
        if base is UNKNOWN:
            return UNKNOWN
        if isinstance(base, EnumClass):
            key = self.fold(node.slice)
            for m in enum_members(self.prog, self.prog.classes[base.cls]):
                if m.member == key:
                    return m
            return UNKNOWN
        key = self.fold(node.slice)
        if key is UNKNOWN:
            return UNKNOWN
        return base[key]

    def f_IfExp(self, node: ast.IfExp) -> Any:
        c = self.fold(node.test)
        if c is UNKNOWN:
            return UNKNOWN
        return self.fold(node.body if c else node.orelse)

    def f_Compare(self, node: ast.Compare) -> Any:
        if len(node.ops) != 1:
            return UNKNOWN
        l, r = self.fold(node.left), self.fold(node.comparators[0])
        if l is UNKNOWN or r is UNKNOWN:
            return UNKNOWN
        op = type(node.ops[0])
        table = {
            ast.Eq: lambda a, b: a == b,
            ast.NotEq: lambda a, b: a != b,
            ast.Lt: lambda a, b: a < b,
            ast.LtE: lambda a, b: a <= b,
            ast.Gt: lambda a, b: a > b,
            ast.GtE: lambda a, b: a >= b,
            ast.In: lambda a, b: a in b,
            ast.NotIn: lambda a, b: a not in b,
            ast.Is: lambda a, b: a is b,
            ast.IsNot: lambda a, b: a is not b,
        }
        return table[op](l, r) if op in table else UNKNOWN


def fold(prog: Program, module: str, node: Optional[ast.AST], env: Optional[Dict[str, Any]] = None, cls: Optional[ClassInfo] = None) -> Any:
    return Folder(prog, module, env, cls).fold(node)


def fold_module_const(prog: Program, module: str, name: str) -> Any:
    assigns = prog.module_assigns.get(module, {})
    if name not in assigns:
        return UNKNOWN
    return fold(prog, module, getattr(assigns[name], "value", None))


def fold_class_attr(prog: Program, ci: ClassInfo, name: str) -> Any:
    res = prog.lookup_member(ci, name)
    if res and res[0] == "classattr":
        owner, stmt = res[1]
        return fold(prog, owner.module, getattr(stmt, "value", None), cls=owner)
    return UNKNOWN

"""Repository-specific anchors shared by several property checks.

Everything here is *located* from the current source (classes found by base
class, fields found from constructor assignments, tables constant-folded) and
raises AnalysisError when an anchor cannot be found.
"""

from __future__ import annotations

import ast
from dataclasses import dataclass
from functools import lru_cache
from typing import Any, Dict, List, Optional, Tuple

from .consts import UNKNOWN, EnumVal, enum_members, fold_module_const
from .loader import AnalysisError, loc, short, unparse
from .norm import Ctx, Norm, Term, leaves, mk_and, mk_not, show, subterms, tkey
from .paths import path_condition
from .symbols import ClassInfo, FuncInfo, Program, program

TT_MOD = "rp2.entry_types"
TYPE_FIELD = "AbstractTransaction.__transaction_type"

EARN_SPEC = {"AIRDROP", "HARDFORK", "INCOME", "INTEREST", "MINING", "STAKING", "WAGES"}
IN_ALLOWED_SPEC = EARN_SPEC | {"BUY", "GIFT", "DONATE"}
OUT_ALLOWED_SPEC = {"SELL", "GIFT", "DONATE", "FEE", "LOST", "STAKING"}
ALL_TYPES_SPEC = {"AIRDROP", "BUY", "DONATE", "FEE", "GIFT", "HARDFORK", "INCOME", "INTEREST", "LOST", "MINING", "MOVE", "SELL", "STAKING", "WAGES"}


# validators that return a *conversion* of their argument (string -> enum member / datetime / str): reviewed, each has its own rule (C05.b, C12.b, C11.a)
REVIEWED_CONVERSIONS = {
    "rp2.configuration:Configuration.type_check_string_or_integer",
    "rp2.configuration:Configuration.type_check_timestamp_from_string",
    "rp2.entry_types:EntrySetType.type_check_from_string",
    "rp2.entry_types:TransactionType.type_check_from_string",
    "rp2.configuration:Configuration.type_check_parameter_name",
}
_VALUE_PARAMS = ("value", "instance", "transaction_type", "entry_set_type")


def _returns_its_argument(prog: Program, f, busy: set) -> bool:
    """Every return hands back the value parameter itself: directly, through a local bound once to it, or through another such validator."""
    import ast as _ast

    par = next((p for p in f.param_names if p in _VALUE_PARAMS), None)
    if par is None or f.fq in busy:
        return False
    busy = busy | {f.fq}
    same = {par}

    def passes(e) -> bool:
        if isinstance(e, _ast.Name):
            return e.id in same
        if isinstance(e, _ast.Call) and isinstance(e.func, _ast.Attribute) and isinstance(e.func.value, _ast.Name) and e.func.value.id in ("cls", "self") and f.cls is not None:
            callee = prog.lookup_method(f.cls, e.func.attr)
            args = list(e.args) + [k.value for k in e.keywords if k.arg in _VALUE_PARAMS]
            return callee is not None and any(isinstance(a, _ast.Name) and a.id in same for a in args) and _returns_its_argument(prog, callee, busy)
        return False

    for n in _ast.walk(f.node):
        if isinstance(n, (_ast.Assign, _ast.AnnAssign)) and getattr(n, "value", None) is not None:
            tgt = n.targets[0] if isinstance(n, _ast.Assign) and len(n.targets) == 1 else getattr(n, "target", None)
            if isinstance(tgt, _ast.Name):
                if passes(n.value):
                    same.add(tgt.id)
                elif tgt.id in same:
                    return False  # the value (or its alias) is overwritten with something else
    rets = [n for n in _ast.walk(f.node) if isinstance(n, _ast.Return)]
    return bool(rets) and all(r.value is not None and passes(r.value) for r in rets)


class Model:
    def __init__(self, prog: Optional[Program] = None) -> None:
        self.prog = prog or program()
        self.norm = Norm(self.prog)
        # validators stay visible as calls (C12 needs to see them); norm.strip_validators() removes them where only the value matters
        # A validator is something that returns the value it was given (or a reviewed conversion of it) unless it raises; a new `type_check*` helper that
        # can return anything else (a default, say) is interpreted like any other function.
        import sa.norm as _norm_mod

        validators = {fq for fq, f in self.prog.functions.items() if f.name.startswith("type_check") and (fq in REVIEWED_CONVERSIONS or _returns_its_argument(self.prog, f, set()))}
        self.norm.opaque_funcs |= validators
        _norm_mod.VALIDATORS.clear()
        _norm_mod.VALIDATORS.update(validators)

    # ------------------------------------------------------------- anchors
    @property
    def transaction_type(self) -> ClassInfo:
        return self.prog.cls(TT_MOD, "TransactionType")

    def tt_members(self) -> List[EnumVal]:
        members = enum_members(self.prog, self.transaction_type)
        if not members:
            raise AnalysisError("TransactionType has no members")
        return members

    @property
    def abstract_transaction(self) -> ClassInfo:
        return self.prog.cls("rp2.abstract_transaction", "AbstractTransaction")

    def transaction_classes(self) -> Dict[str, ClassInfo]:
        """Concrete transaction classes keyed by table kind, found as the leaf subclasses of AbstractTransaction."""
        subs = [c for c in self.prog.subclasses(self.abstract_transaction, strict=True)]
        out: Dict[str, ClassInfo] = {}
        for c in subs:
            for kind, name in (("in", "InTransaction"), ("out", "OutTransaction"), ("intra", "IntraTransaction")):
                if c.name == name:
                    out[kind] = c
        extra = [c.name for c in subs if c not in out.values()]
        if len(out) != 3:
            raise AnalysisError(f"expected In/Out/IntraTransaction subclasses of AbstractTransaction, found {[c.name for c in subs]}")
        self.extra_transaction_classes = extra
        return out

    def earn_set(self) -> frozenset:
        v = fold_module_const(self.prog, TT_MOD, "_transaction_type_earn_values")
        if v is UNKNOWN:
            # locate through is_earn_type instead of by name
            fi = self.prog.func(TT_MOD, "TransactionType.is_earn_type")
            t = self.norm.inline(fi, ("sym", "t"), {}, Ctx(fi.module, fi.cls))
            if t[0] == "cmp" and t[1] == "in" and t[3][0] == "const":
                v = t[3][1]
        if v is UNKNOWN or not isinstance(v, frozenset):
            raise AnalysisError("cannot constant-fold the earn-type set used by TransactionType.is_earn_type")
        return v

    # ------------------------------------------------- constructor analysis
    def init_of(self, ci: ClassInfo) -> FuncInfo:
        fi = ci.methods.get("__init__")
        if fi is None:
            raise AnalysisError(f"{ci.name} has no __init__")
        return fi

    def guard_term(self, stmt: ast.AST, ctx: Ctx, stop: Optional[ast.AST] = None, early_exits: bool = True) -> Term:
        parts = []
        for test, pol in path_condition(stmt, stop, early_exits):
            c = self.norm.cond(test, ctx)
            parts.append(c if pol else mk_not(c))
        return mk_and(parts)

    def field_defs(self, ci: ClassInfo, method: str = "__init__", early_exits: bool = False) -> Dict[str, List[Tuple[Term, Term, ast.AST]]]:
        """field -> [(guard, value, stmt)] for every ``self.<field> = value`` in the constructor."""
        fi = ci.methods.get(method)
        if fi is None:
            return {}
        ctx = self.norm.ctx_for(fi, subst_locals=False)
        out: Dict[str, List[Tuple[Term, Term, ast.AST]]] = {}
        nodes = sorted((n for n in ast.walk(fi.node) if isinstance(n, (ast.Assign, ast.AnnAssign))), key=lambda n: (n.lineno, n.col_offset))
        for node in nodes:
            tgt = None
            if isinstance(node, ast.Assign) and len(node.targets) == 1:
                tgt = node.targets[0]
            elif isinstance(node, ast.AnnAssign) and node.value is not None:
                tgt = node.target
            if isinstance(tgt, ast.Attribute) and isinstance(tgt.value, ast.Name) and tgt.value.id == "self":
                value = self.norm.term(node.value, ctx)
                guard = self.guard_term(node, ctx, None, early_exits)
                out.setdefault(f"{ci.name}.{tgt.attr}", []).append((guard, value, node))
        return out

    def raises_in(self, fi: FuncInfo, early_exits: bool = True) -> List[Tuple[Term, ast.Raise]]:
        ctx = self.norm.ctx_for(fi, subst_locals=False)
        out = []
        for node in ast.walk(fi.node):
            if isinstance(node, ast.Raise):
                out.append((self.guard_term(node, ctx, None, early_exits), node))
        return out

    # --------------------------------------------------------------- enumdom
    def eval3(self, t: Term, env: Dict[str, Any]) -> Any:
        """Three-valued evaluation of a boolean term: True / False / None (unknown).

        ``env`` maps backing-field names (e.g. 'AbstractTransaction.__transaction_type') or symbols to constants.
        """
        k = t[0]
        if k == "const":
            return t[1]
        if k == "fld" and t[2] in env:
            return env[t[2]]
        if k == "sym" and t[1] in env:
            return env[t[1]]
        if k == "not":
            v = self.eval3(t[1], env)
            return None if v is None else (not v)
        if k == "and":
            vals = [self.eval3(x, env) for x in t[1]]
            if any(v is False for v in vals):
                return False
            return None if any(v is None for v in vals) else True
        if k == "or":
            vals = [self.eval3(x, env) for x in t[1]]
            if any(v is True for v in vals):
                return True
            return None if any(v is None for v in vals) else False
        if k == "cmp":
            a, b = self.eval3(t[2], env), self.eval3(t[3], env)
            if a is None or b is None:
                return None
            try:
                return {
                    "==": lambda: a == b,
                    "!=": lambda: a != b,
                    "in": lambda: a in b,
                    "not in": lambda: a not in b,
                    "is": lambda: a is b or a == b,
                    "is not": lambda: not (a is b or a == b),
                    "<": lambda: a < b,
                    "<=": lambda: a <= b,
                    ">": lambda: a > b,
                    ">=": lambda: a >= b,
                }[t[1]]()
            except TypeError:
                return None
        if k == "ite":
            c = self.eval3(t[1], env)
            if c is None:
                a, b = self.eval3(t[2], env), self.eval3(t[3], env)
                return a if a == b else None
            return self.eval3(t[2] if c else t[3], env)
        if k == "tuple":
            vals = [self.eval3(x, env) for x in t[1]]
            return None if any(v is None for v in vals) else tuple(vals)
        return None

    def forced_type(self, ci: ClassInfo) -> Optional[str]:
        """Member name when the class passes a constant transaction type to the base constructor (IntraTransaction: 'MOVE')."""
        fi = self.init_of(ci)
        base_init = self.prog.lookup_method(self.abstract_transaction, "__init__")
        if base_init is None:
            raise AnalysisError("AbstractTransaction.__init__ not found")
        ctx = self.norm.ctx_for(fi, subst_locals=False)
        for node in ast.walk(fi.node):
            if isinstance(node, ast.Call) and isinstance(node.func, ast.Attribute) and node.func.attr == "__init__" and unparse(node.func.value).startswith("super("):
                params = base_init.param_names[1:]
                bound: Dict[str, ast.expr] = {}
                for i, a in enumerate(node.args):
                    if i < len(params):
                        bound[params[i]] = a
                for kw in node.keywords:
                    if kw.arg:
                        bound[kw.arg] = kw.value
                arg = bound.get("transaction_type")
                if arg is None:
                    raise AnalysisError(f"{ci.name}.__init__: super().__init__ call passes no transaction_type")
                t = self.norm.term(arg, ctx)
                if t[0] == "const" and isinstance(t[1], str):
                    return t[1].upper()
                return None
        raise AnalysisError(f"{ci.name}.__init__ does not call super().__init__")

    def allowed_types(self, ci: ClassInfo) -> Tuple[set, List[str]]:
        """Members for which no constructor raise whose guard depends only on the type is taken."""
        members = self.tt_members()
        forced = self.forced_type(ci)
        fi = self.init_of(ci)
        type_raises = []
        mentions_type = False
        for guard, node in self.raises_in(fi, early_exits=False):
            lvs = list(leaves(guard))
            mentions_type = mentions_type or any(s[0] == "fld" and s[2] == TYPE_FIELD for s in lvs) or TYPE_FIELD in show(guard)
            if lvs and all(s[0] == "fld" and s[2] == TYPE_FIELD for s in lvs):
                type_raises.append((guard, node))
        if forced is None and not type_raises and not mentions_type:
            # In/Out constructors restrict their types with a raise whose guard reads only the type; when none is visible here the restriction lives
            # somewhere this reading does not reach (a base-class helper fed with a table, say): unknown, not "every type is allowed"
            raise AnalysisError(f"{ci.name}.__init__: no raise that depends only on the transaction type is visible: the set of types the class accepts cannot be read from this shape")
        allowed = set()
        for m in members:
            if forced is not None and m.member != forced:
                continue
            env = {TYPE_FIELD: m}
            if any(self.eval3(g, env) is True for g, _ in type_raises):
                continue
            allowed.add(m.member)
        return allowed, [short(n) for _, n in type_raises]

    def predicate_members(self, ci: ClassInfo, method: str) -> Tuple[Dict[str, Any], Term]:
        """Three-valued value of ``ci.method()`` for each TransactionType member."""
        fi = self.prog.lookup_method(ci, method)
        if fi is None:
            raise AnalysisError(f"{ci.name}.{method} not found")
        t = self.norm.inline(fi, ("sym", "t"), {}, Ctx(fi.module, fi.cls))
        out = {}
        for m in self.tt_members():
            out[m.member] = self.eval3(t, {TYPE_FIELD: m})
        return out, t


@lru_cache(maxsize=4)
def model() -> Model:
    return Model()


# ---------------------------------------------------------------------------
# case analysis over "optional parameter given / not given"

GIVEN = ("given",)  # abstract value: a supplied, non-None, non-zero argument


def simplify(m: "Model", t: Term, env: Dict[str, Any]) -> Term:
    """Partial evaluation of a term under ``env`` (symbol -> None | GIVEN | constant): resolves is-None tests and truthiness."""
    from .norm import mk_ite, mk_or, mk_add, mk_mul, mk_neg

    k = t[0]
    if k in ("const",):
        return t
    if k == "sym":
        if t[1] in env and env[t[1]] is None:
            return ("const", None)
        return t
    if k == "cmp":
        a, b = simplify(m, t[2], env), simplify(m, t[3], env)
        if t[1] in ("is", "is not", "==", "!="):
            for x, y in ((a, b), (b, a)):
                if y == ("const", None) and x[0] == "sym" and x[1] in env:
                    isnone = env[x[1]] is None
                    return ("const", isnone if t[1] in ("is", "==") else not isnone)
            if a == ("const", None) and b == ("const", None):
                return ("const", t[1] in ("is", "=="))
        return ("cmp", t[1], a, b)
    if k == "truthy":
        a = simplify(m, t[1], env)
        if a == ("const", None):
            return ("const", False)
        # a supplied cell is not None, but it may still be falsy (a decimal zero, an empty string): its truthiness stays open
        if a[0] == "const":
            return ("const", bool(a[1]))
        return ("truthy", a)
    if k == "not":
        return mk_not(simplify(m, t[1], env))
    if k == "and":
        return mk_and([simplify(m, x, env) for x in t[1]]) if not any(simplify(m, x, env) == ("const", False) for x in t[1]) else ("const", False)
    if k == "or":
        parts = [simplify(m, x, env) for x in t[1]]
        if any(p == ("const", True) for p in parts):
            return ("const", True)
        return mk_or(parts)
    if k == "ite":
        c = simplify(m, t[1], env)
        if c == ("const", True):
            return simplify(m, t[2], env)
        if c == ("const", False):
            return simplify(m, t[3], env)
        return mk_ite(c, simplify(m, t[2], env), simplify(m, t[3], env))
    if k == "add":
        return mk_add([simplify(m, x, env) for x in t[1]])
    if k == "mul":
        return mk_mul([simplify(m, x, env) for x in t[1]])
    if k == "neg":
        return mk_neg(simplify(m, t[1], env))
    if k == "div":
        return ("div", simplify(m, t[1], env), simplify(m, t[2], env))
    if k == "call":
        return ("call", t[1], tuple((p, simplify(m, v, env)) for p, v in t[2]))
    return t


def effective_field_value(m: "Model", defs: List[Tuple[Term, Term, ast.AST]], env: Dict[str, Any]) -> Optional[Term]:
    """Value a field holds at the end of the constructor under ``env``: the last definition whose guard holds.

    Returns None when no definition is known to apply, ('unk', ...) when a guard stays undetermined."""
    value: Optional[Term] = None
    for guard, val, _ in defs:  # source order == execution order for straight-line constructors
        g = simplify(m, guard, env)
        if g == ("const", True):
            value = simplify(m, val, env)
        elif g == ("const", False):
            continue
        else:
            from .norm import mk_ite

            value = mk_ite(g, simplify(m, val, env), value if value is not None else ("unk", "undefined"))
    return value

"""Typed layer: mypy (the repository's own dev dependency, used as a library) builds the type map of src/rp2.

Only *queried*: ``expr_types(module)`` gives {(line, col, end_line, end_col): type string} for every expression
mypy typed.  The build runs in-process once per check process (about 3 s).  If mypy is unavailable the callers
fall back to the annotation-driven inference of ``norm`` and say so in a note.
"""

from __future__ import annotations

import os
import sys
from typing import Any, Dict, Optional, Tuple

from .loader import AnalysisError, load_package

_RESULT: Dict[str, Any] = {}


def available() -> bool:
    try:
        import mypy.build  # noqa: F401

        return True
    except Exception:
        return False


def build() -> Any:
    pkg = load_package()
    key = str(pkg.root)
    if key in _RESULT:
        return _RESULT[key]
    from mypy import build as mbuild
    from mypy.find_sources import create_source_list
    from mypy.options import Options

    opts = Options()
    opts.preserve_asts = True
    opts.export_types = True
    opts.incremental = False
    opts.cache_dir = os.devnull
    opts.mypy_path = [str(pkg.src_dir)]
    opts.ignore_missing_imports = True
    opts.follow_imports = "silent"
    opts.check_untyped_defs = True
    opts.python_version = (3, 12)
    cwd = os.getcwd()
    try:
        os.chdir(pkg.root)
        sources = create_source_list([str(pkg.src_dir / "rp2")], opts)
        result = mbuild.build(sources, opts)
    finally:
        os.chdir(cwd)
    _RESULT[key] = result
    return result


def _walk(node: Any, seen: set, out: list) -> None:
    from mypy.nodes import Node

    if id(node) in seen:
        return
    seen.add(id(node))
    out.append(node)
    for name in dir(type(node)):
        if name.startswith("_") or name in ("node", "info", "fullname", "name", "original_def", "type", "unanalyzed_type", "partial_fallback"):
            continue  # symbol references lead out of the syntax tree (into other modules)
        try:
            val = getattr(node, name)
        except Exception:
            continue
        if isinstance(val, Node):
            _walk(val, seen, out)
        elif isinstance(val, (list, tuple)):
            for x in val:
                if isinstance(x, Node):
                    _walk(x, seen, out)
                elif isinstance(x, (list, tuple)):
                    for y in x:
                        if isinstance(y, Node):
                            _walk(y, seen, out)


_EXPR_CACHE: Dict[Tuple[str, str], Dict[Tuple[int, int, int, int], str]] = {}


def expr_types(module: str) -> Dict[Tuple[int, int, int, int], str]:
    """{(line, col, end_line, end_col): str(type)} for every typed expression of ``module`` (mypy columns are 0-based like ast)."""
    pkg = load_package()
    key = (str(pkg.root), module)
    if key in _EXPR_CACHE:
        return _EXPR_CACHE[key]
    result = build()
    tree = result.files.get(module)
    if tree is None:
        raise AnalysisError(f"mypy did not build module {module}")
    nodes: list = []
    _walk(tree, set(), nodes)
    out: Dict[Tuple[int, int, int, int], str] = {}
    types = result.types
    for n in nodes:
        t = types.get(n)
        if t is None:
            continue
        line, col = getattr(n, "line", -1), getattr(n, "column", -1)
        el, ec = getattr(n, "end_line", None), getattr(n, "end_column", None)
        if line is None or line < 0 or el is None or ec is None:
            continue
        out[(line, col, el, ec)] = str(t)
    _EXPR_CACHE[key] = out
    return out


def type_of(module: str, node: Any) -> Optional[str]:
    """mypy's type of an ``ast`` expression node, or None when mypy has no entry for that span."""
    types = expr_types(module)
    key = (node.lineno, node.col_offset, node.end_lineno, node.end_col_offset)
    return types.get(key)


def errors() -> list:
    return list(build().errors)

"""Soundness guards: Python features the resolver / normaliser does not model.

The rules of every check interpret function bodies as written (getter inlining, MRO lookup, path enumeration).  That
interpretation is only faithful when nothing rewires the functions it looked at.  After a check ran, these guards look
at every function whose body was interpreted (``Norm.touched`` plus the functions the check registered) and raise
AnalysisError (exit 2: "cannot decide", never a silent pass and never a guessed VIOLATION) when

  G1  such a function, or its class, carries a decorator outside the known transparent set;
  G2  a class in its MRO defines a dynamic attribute hook (__getattr__, __getattribute__, __setattr__, __init_subclass__) or a metaclass;
  G3  some statement in the package re-binds it from outside (Class.name = ..., setattr(Class, "name", ...), module.name = ...);
  G4  its name is defined twice in the same scope, or under a module-level if/try (which definition runs is not decided);
  G5  its module uses a star import (name resolution is not decided).

Blast radius is deliberately limited to interpreted functions: an unrelated helper with an unusual decorator elsewhere in
the package does not disturb a check that never looked at it.
"""

from __future__ import annotations

import ast
from typing import Iterable, List, Set

from .loader import AnalysisError, loc, short, unparse
from .symbols import Program

TRANSPARENT_DECORATORS = {"property", "classmethod", "staticmethod", "abstractmethod", "abc.abstractmethod", "overload", "typing.overload", "dataclass", "dataclasses.dataclass", "lru_cache", "functools.lru_cache", "cache", "functools.cache", "unique", "enum.unique", "final", "typing.final"}
HOOKS = {"__getattr__", "__getattribute__", "__setattr__", "__delattr__", "__init_subclass__", "__class_getitem__", "__set_name__", "__get__", "__set__"}


def _deco_name(d: ast.AST) -> str:
    if isinstance(d, ast.Call):
        d = d.func
    return unparse(d)


def check(prog: Program, interpreted: Iterable[str]) -> None:
    problems: List[str] = []
    fqs: Set[str] = set(interpreted)
    funcs = [prog.functions[fq] for fq in sorted(fqs) if fq in prog.functions]
    names_by_module = {}
    for fi in funcs:
        names_by_module.setdefault(fi.module, set()).add(fi.name)
        # G1
        for d in fi.node.decorator_list:
            n = _deco_name(d)
            if n in TRANSPARENT_DECORATORS or n.endswith((".setter", ".getter", ".deleter")):
                continue
            problems.append(f"G1 {loc(fi.node)}: {fi.qualname} is decorated with @{short(d, 60)}: what runs is the decorator's result, not the body the rules interpreted")
        if fi.cls is not None:
            for c in prog.mro(fi.cls):
                for d in c.node.decorator_list:
                    n = _deco_name(d)
                    if n not in TRANSPARENT_DECORATORS:
                        problems.append(f"G1 {loc(c.node)}: class {c.name} is decorated with @{short(d, 60)}")
                # G2
                for h in HOOKS & set(c.methods):
                    problems.append(f"G2 {loc(c.methods[h].node)}: class {c.name} defines {h}: attribute access on its instances is not what the resolver models")
                for kw in c.node.keywords:
                    if kw.arg == "metaclass" and unparse(kw.value) not in ("ABCMeta", "abc.ABCMeta", "EnumMeta"):
                        problems.append(f"G2 {loc(c.node)}: class {c.name} has metaclass {unparse(kw.value)}")
    touched_names = {fi.name for fi in funcs}
    touched_classes = {fi.cls.name for fi in funcs if fi.cls is not None}
    for mod in prog.package.modules.values():
        star = [n for n in mod.tree.body if isinstance(n, ast.ImportFrom) and any(a.name == "*" for a in n.names)]
        if star and mod.name in names_by_module:
            problems.append(f"G5 {loc(star[0])}: {mod.name} uses a star import: names used by the interpreted functions may resolve elsewhere")
        for n in ast.walk(mod.tree):
            # G3 monkeypatching from outside
            if isinstance(n, (ast.Assign, ast.AugAssign, ast.AnnAssign)):
                tgts = n.targets if isinstance(n, ast.Assign) else [n.target]
                for t in tgts:
                    if isinstance(t, ast.Attribute) and isinstance(t.value, ast.Name) and t.value.id not in ("self", "cls") and t.attr in touched_names:
                        res = prog.resolve_name(mod.name, t.value.id)
                        if res is not None and res[0] in ("class", "module"):
                            problems.append(f"G3 {loc(n)}: {short(n, 80)} re-binds {t.value.id}.{t.attr} from outside its definition")
            if isinstance(n, ast.Call) and isinstance(n.func, ast.Name) and n.func.id in ("setattr", "delattr") and len(n.args) >= 2:
                a0, a1 = n.args[0], n.args[1]
                name = a1.value if isinstance(a1, ast.Constant) and isinstance(a1.value, str) else None
                tgt = unparse(a0)
                if (name is None or name in touched_names) and (tgt in touched_classes or tgt.split(".")[-1] in touched_classes or name is None and tgt not in ("self",)):
                    if tgt != "self":
                        problems.append(f"G3 {loc(n)}: {short(n, 80)} re-binds an attribute dynamically")
        # G4 duplicate / conditional definitions of an interpreted function
        scopes = [mod.tree] + [c for c in ast.walk(mod.tree) if isinstance(c, ast.ClassDef)]
        for sc in scopes:
            seen = {}
            for st in sc.body:
                if isinstance(st, (ast.FunctionDef, ast.AsyncFunctionDef)):
                    decos = {_deco_name(d) for d in st.decorator_list}
                    if any(d.endswith((".setter", ".getter", ".deleter")) or d in ("overload", "typing.overload") for d in decos):
                        continue
                    if st.name in seen and st.name in touched_names and mod.name in names_by_module:
                        problems.append(f"G4 {loc(st)}: {st.name} is defined twice in the same scope (the later definition wins at run time)")
                    seen[st.name] = st
                elif isinstance(st, (ast.If, ast.Try)) and sc is mod.tree:
                    for inner in ast.walk(st):
                        if isinstance(inner, (ast.FunctionDef, ast.ClassDef)) and inner.name in (touched_names | touched_classes) and mod.name in names_by_module:
                            problems.append(f"G4 {loc(inner)}: {inner.name} is defined under a module-level {type(st).__name__.lower()}: which definition runs is not decided")
    if problems:
        uniq = sorted(set(problems))
        raise AnalysisError("the interpreted functions use Python features the analyser does not model (verdict withheld):\n    " + "\n    ".join(uniq[:12]))

"""Thorough tier: rule-sensitivity audit of one property's checker against the tree under analysis.

Every single-edit variant kept for the property in selftest/mutants/*.py (the realistic slips of DESIGN.md section 6: each
locates its anchor by source text that must occur exactly once) is applied to a scratch copy of the *current* tree under
$TMPDIR and the property's quick check is run on the copy (static analysis of the variant: rp2 is never executed).  A 'fire'
variant must be reported, a 'silent' twin (behaviour-preserving edit) must not, an 'error' variant (a construct the analyser
does not model) must not pass silently.  This is the "positive example that must match on every run" for every rule,
including those whose expected count on a clean tree is zero.  Variants whose anchor text no longer occurs in the tree are
skipped and counted.  The scratch copies are removed as soon as each variant has been analysed.
"""

from __future__ import annotations

import importlib.util
import os
from concurrent.futures import ThreadPoolExecutor
from pathlib import Path
from typing import Any, Dict, List

from .loader import repo_root

VERIF = Path(__file__).resolve().parent.parent


def audit(pid: str, jobs: int = 16) -> Dict[str, Any]:
    spec = importlib.util.spec_from_file_location("verif_selftest_run", VERIF / "selftest" / "run.py")
    if spec is None or spec.loader is None:
        return {"available": False}
    run = importlib.util.module_from_spec(spec)
    spec.loader.exec_module(run)
    run.REPO = repo_root()
    muts = [m for m in run.load_mutants() if pid in (m["property"] if isinstance(m["property"], list) else [m["property"]])]
    # only this property's verdict is audited here
    for m in muts:
        m["property"] = pid
    with ThreadPoolExecutor(max_workers=max(1, min(jobs, os.cpu_count() or 1))) as ex:
        results: List[Dict[str, Any]] = list(ex.map(lambda m: run.one(m, False), muts))
    out: Dict[str, Any] = {"available": True, "variants": len(results), "fire_expected": 0, "fired": 0, "twins": 0, "twins_silent": 0, "unmodelled": 0, "unmodelled_withheld": 0, "skipped_anchor_absent": 0, "problems": []}
    for m, r in zip(muts, results):
        if r["status"] == "BROKEN-MUTANT":
            out["skipped_anchor_absent"] += 1
            continue
        kind = m.get("expect", "fire")
        if kind == "fire":
            out["fire_expected"] += 1
            out["fired"] += r["status"] in ("ok", "WRONG-RULE")
        elif kind == "silent":
            out["twins"] += 1
            out["twins_silent"] += r["status"] == "ok"
        else:
            out["unmodelled"] += 1
            out["unmodelled_withheld"] += r["status"] == "ok"
        if r["status"] not in ("ok", "WRONG-RULE"):
            out["problems"].append(f"{r['id']}: {r['status']} {r.get('detail', '')[:160]}")
    out.update(_seeded(pid, jobs))
    out.update(_benign(pid, jobs))
    return out


def _benign(pid: str, jobs: int) -> Dict[str, Any]:
    """The behaviour-preserving refactorings kept for this property (benign/<ID>_r*/, written by fresh sub-agents who verified identical report contents):
    each is applied to a scratch copy of the current tree; the property's check must not report a violation (exit 0, or exit 2 = not decided for this shape)."""
    import shutil
    import subprocess
    import tempfile

    base = repo_root()
    dirs = sorted(d for d in (VERIF / "benign").glob(f"{pid}_r*") if (d / "patch.diff").exists())

    def one(d: Path) -> str:
        root = Path(tempfile.mkdtemp(prefix="rp2-verif-benign-"))
        try:
            shutil.copytree(base / "src", root / "src")
            if (base / "setup.cfg").exists():
                shutil.copy(base / "setup.cfg", root / "setup.cfg")
            if subprocess.run(["patch", "-p1", "-s", "-i", str(d / "patch.diff")], cwd=root, capture_output=True).returncode != 0:
                return "skipped"
            env = dict(os.environ, VERIF_REPO=str(root), VERIF_EVIDENCE_DIR=str(root / "evidence"))
            rc = subprocess.run([str(VERIF / "check"), pid, "--tier", "quick"], capture_output=True, text=True, env=env, timeout=600).returncode
            return {0: "silent", 2: "not-decided"}.get(rc, "ALARM")
        finally:
            shutil.rmtree(root, ignore_errors=True)

    with ThreadPoolExecutor(max_workers=max(1, min(jobs, os.cpu_count() or 1))) as ex:
        res = list(ex.map(one, dirs))
    return {
        "benign_refactorings": len(dirs),
        "benign_silent": res.count("silent"),
        "benign_not_decided": res.count("not-decided"),
        "benign_skipped": res.count("skipped"),
        "benign_alarms": [d.name for d, r in zip(dirs, res) if r == "ALARM"],
    }


def _seeded(pid: str, jobs: int) -> Dict[str, Any]:
    """The confirmed sub-agent changes kept for this property (seeded/<ID>_<variant>/): each is applied to a scratch copy of the current
    tree and must be reported by the property's rules (changes that no longer break the property on the current tree are skipped)."""
    import json
    import shutil
    import subprocess
    import tempfile

    base = repo_root()
    dirs = sorted(d for d in (VERIF / "seeded").glob(f"{pid}_*") if (d / "meta.json").exists())

    def one(d: Path) -> str:
        meta = json.loads((d / "meta.json").read_text())
        if not meta.get("on_current_repo", {}).get("still_breaks", True):
            return "skipped"
        root = Path(tempfile.mkdtemp(prefix="rp2-verif-seed-"))
        try:
            shutil.copytree(base / "src", root / "src")
            if (base / "setup.cfg").exists():
                shutil.copy(base / "setup.cfg", root / "setup.cfg")
            applied = False
            for name in ("patch.diff", "patch_rebased.diff"):
                if not (d / name).exists():
                    continue
                if subprocess.run(["patch", "-p1", "-s", "--dry-run", "-i", str(d / name)], cwd=root, capture_output=True).returncode == 0:
                    subprocess.run(["patch", "-p1", "-s", "-i", str(d / name)], cwd=root, capture_output=True)
                    applied = True
                    break
            if not applied:
                return "skipped"
            env = dict(os.environ, VERIF_REPO=str(root), VERIF_EVIDENCE_DIR=str(root / "evidence"))
            rc = subprocess.run([str(VERIF / "check"), pid, "--tier", "quick"], capture_output=True, text=True, env=env, timeout=600).returncode
            return "reported" if rc == 1 else ("withheld" if rc == 2 else "missed")
        finally:
            shutil.rmtree(root, ignore_errors=True)

    with ThreadPoolExecutor(max_workers=max(1, min(jobs, os.cpu_count() or 1))) as ex:
        res = list(ex.map(one, dirs))
    out = {"seeded_changes": len(dirs), "seeded_reported": res.count("reported"), "seeded_skipped": res.count("skipped"), "seeded_problems": [f"{d.name}: {r}" for d, r in zip(dirs, res) if r in ("missed", "withheld")]}
    return out

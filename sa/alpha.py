"""Alpha-normalisation of function-local names against a reference table.

Many rules identify the *roles* of locals in a handful of anchor functions by the spelling they have in the reference tree
(``row_index``, ``taxable_event_amount``, ``year`` ...).  A maintainer who merely renames a local must not cause an alarm, so
before any rule runs the loader renames, **in memory**, the locals of every function back to the spelling recorded for the
reference tree whenever that is provably a pure renaming:

* strict: the function is alpha-equivalent to its reference version (identical AST once every local is replaced by its index in
  first-binding order) -> positional mapping of all locals;
* partial (the function also changed elsewhere): a current local that does not occur in the reference is mapped to a reference
  local that does not occur in the current function when their binding statements are identical up to local names and that match
  is unique both ways (k new and k vanished locals of one shape are paired in first-binding order).

The same table also undoes pure *re-orientations*: when a function equals its reference version up to local names AND up to the
order of the operands of comparisons (a < b  vs  b > a, a == b vs b == a) and of multiplications, every such node is flipped back,
in place, to the orientation it has in the reference tree (rules that read 'amount > limit' need not know every spelling).

Parameters, globals/nonlocals, attribute names and keyword-argument names are never touched; a mapping that would capture an
existing name is dropped.  Positions (line/column) are unchanged, so reports and the mypy type map still line up.  The table is
``sa/refnames.json`` (``python -m sa.alpha --write`` regenerates it from the tree under analysis; it is regenerated after every
``fix:`` commit).  If a function is not in the table, or nothing matches, names stay as they are and the rules behave as before
(a differently spelled role is then an unknown idiom or a mismatch, as without this pass).
"""

from __future__ import annotations

import ast
import hashlib
import json
import sys
from pathlib import Path
from typing import Dict, List, Optional, Set, Tuple

TABLE = Path(__file__).resolve().parent / "refnames.json"


def _functions(tree: ast.AST):
    """(qualname, node) for every function, methods as Class.name, nested functions as outer.<locals>.inner."""

    def walk(node: ast.AST, prefix: str):
        for child in ast.iter_child_nodes(node):
            if isinstance(child, ast.ClassDef):
                yield from walk(child, f"{prefix}{child.name}.")
            elif isinstance(child, (ast.FunctionDef, ast.AsyncFunctionDef)):
                yield f"{prefix}{child.name}", child
                yield from walk(child, f"{prefix}{child.name}.<locals>.")
            else:
                yield from walk(child, prefix)

    yield from walk(tree, "")


def _params(fn: ast.AST) -> Set[str]:
    a = fn.args
    out = {x.arg for x in a.args + a.kwonlyargs + a.posonlyargs}
    if a.vararg:
        out.add(a.vararg.arg)
    if a.kwarg:
        out.add(a.kwarg.arg)
    return out


def locals_in_order(fn: ast.AST) -> List[str]:
    """Function-local names (stores that are not parameters / global / nonlocal) in order of their first binding position."""
    params = _params(fn)
    skip: Set[str] = set()
    first: Dict[str, Tuple[int, int]] = {}
    nested_params: Set[str] = set()
    for n in ast.walk(fn):
        if n is not fn and isinstance(n, (ast.FunctionDef, ast.AsyncFunctionDef, ast.Lambda)):
            nested_params |= _params(n)
        if isinstance(n, (ast.Global, ast.Nonlocal)):
            skip |= set(n.names)
        name, pos = None, None
        if isinstance(n, ast.Name) and isinstance(n.ctx, (ast.Store, ast.Del)):
            name, pos = n.id, (n.lineno, n.col_offset)
        elif isinstance(n, ast.ExceptHandler) and n.name:
            name, pos = n.name, (n.lineno, n.col_offset)
        if name is not None and (name not in first or pos < first[name]):
            first[name] = pos
    names = [n for n in first if n not in params and n not in skip and n not in nested_params and n != "_"]
    return sorted(names, key=lambda n: first[n])


class _Canon(ast.NodeTransformer):
    def __init__(self, mapping: Dict[str, str]) -> None:
        self.mapping = mapping

    def visit_Name(self, node: ast.Name) -> ast.AST:
        if node.id in self.mapping:
            return ast.copy_location(ast.Name(id=self.mapping[node.id], ctx=node.ctx), node)
        return node

    def visit_ExceptHandler(self, node: ast.ExceptHandler) -> ast.AST:
        self.generic_visit(node)
        if node.name and node.name in self.mapping:
            node.name = self.mapping[node.name]
        return node


def _canon_dump(node: ast.AST, names: List[str]) -> str:
    import copy

    mapping = {n: f"L{i}" for i, n in enumerate(names)}
    return ast.dump(_Canon(mapping).visit(copy.deepcopy(node)), annotate_fields=False, include_attributes=False)


def _binder_targets(n: ast.AST) -> List[ast.AST]:
    if isinstance(n, ast.Assign):
        return list(n.targets)
    if isinstance(n, (ast.AnnAssign, ast.AugAssign, ast.NamedExpr, ast.For, ast.AsyncFor, ast.comprehension)):
        return [n.target]
    if isinstance(n, (ast.With, ast.AsyncWith)):
        return [i.optional_vars for i in n.items if i.optional_vars is not None]
    return []


def _binding_stmt(fn: ast.AST, name: str) -> Optional[ast.AST]:
    """The first (by position) statement / clause that binds ``name`` in the function."""
    best: Optional[ast.AST] = None
    for n in ast.walk(fn):
        hit = False
        if isinstance(n, ast.ExceptHandler):
            hit = n.name == name
        else:
            hit = any(isinstance(x, ast.Name) and x.id == name and isinstance(x.ctx, ast.Store) for t in _binder_targets(n) for x in ast.walk(t))
        if not hit:
            continue
        pos = (getattr(n, "lineno", None), getattr(n, "col_offset", None))
        if pos[0] is None:  # ast.comprehension has no position: use its target's
            t0 = _binder_targets(n)[0]
            pos = (t0.lineno, t0.col_offset)
        if best is None or pos < best[0]:  # type: ignore[index]
            best = (pos, n)  # type: ignore[assignment]
    return best[1] if best is not None else None  # type: ignore[index]


def _shape_of_binding(fn: ast.AST, name: str, all_locals: List[str]) -> Optional[str]:
    st = _binding_stmt(fn, name)
    if st is None:
        return None
    # for compound binders only the header decides (target, iterable / context expression / annotation and value)
    if isinstance(st, (ast.For, ast.AsyncFor, ast.comprehension)):
        node: ast.AST = ast.Tuple(elts=[st.target, st.iter], ctx=ast.Load())
    elif isinstance(st, (ast.With, ast.AsyncWith)):
        node = ast.Tuple(elts=[i.context_expr for i in st.items] + [i.optional_vars for i in st.items if i.optional_vars is not None], ctx=ast.Load())
    elif isinstance(st, ast.ExceptHandler):
        node = st.type if st.type is not None else ast.Constant(value=None)
    else:
        node = st
    others = [n for n in all_locals]
    mapping_names = [name] + [n for n in others if n != name]
    import copy

    mapping = {n: ("SELF" if n == name else "L") for n in mapping_names}
    return type(st).__name__ + ":" + ast.dump(_Canon(mapping).visit(copy.deepcopy(node)), annotate_fields=False, include_attributes=False)


_FLIP = {ast.Lt: ast.Gt, ast.Gt: ast.Lt, ast.LtE: ast.GtE, ast.GtE: ast.LtE, ast.Eq: ast.Eq, ast.NotEq: ast.NotEq}


_AUG_OPS = (ast.Add, ast.Sub, ast.Mult)
_NEG_OP = {ast.Eq: ast.NotEq, ast.NotEq: ast.Eq, ast.Is: ast.IsNot, ast.IsNot: ast.Is, ast.In: ast.NotIn, ast.NotIn: ast.In}


def _kind(n: ast.AST) -> Optional[str]:
    """Which benign re-spelling a node admits: operand order (cmp / mul), branch order of a plain if/else, 'x op= e' vs 'x = x op e'."""
    if isinstance(n, ast.Compare):
        return "cmp" if len(n.ops) == 1 and type(n.ops[0]) in _FLIP else None
    if isinstance(n, ast.BinOp):
        return "mul" if isinstance(n.op, ast.Mult) else None
    if isinstance(n, ast.If):
        return "if" if n.orelse and not (len(n.orelse) == 1 and isinstance(n.orelse[0], ast.If)) else None
    if isinstance(n, ast.AugAssign):
        return "aug" if isinstance(n.target, ast.Name) and isinstance(n.op, _AUG_OPS) else None
    if isinstance(n, ast.Assign):
        if len(n.targets) == 1 and isinstance(n.targets[0], ast.Name) and isinstance(n.value, ast.BinOp) and isinstance(n.value.op, _AUG_OPS) and isinstance(n.value.left, ast.Name) and n.value.left.id == n.targets[0].id:
            return "aug"
    return None


def _flippable(n: ast.AST) -> bool:
    return _kind(n) is not None


def _replace_stmt(fn: ast.AST, old: ast.AST, new: ast.AST) -> bool:
    for holder in ast.walk(fn):
        for field in ("body", "orelse", "finalbody"):
            lst = getattr(holder, field, None)
            if isinstance(lst, list):
                for k, st in enumerate(lst):
                    if st is old:
                        lst[k] = new
                        new._parent = holder  # type: ignore[attr-defined]
                        for ch in ast.iter_child_nodes(new):
                            ch._parent = new  # type: ignore[attr-defined]
                        return True
    return False


def _flip_in_place(n: ast.AST, fn: Optional[ast.AST] = None) -> Optional[ast.AST]:
    """Re-spell the node the other way round (behaviour unchanged); returns the node that now stands in its place."""
    k = _kind(n)
    if k == "cmp":
        n.left, n.comparators[0] = n.comparators[0], n.left
        n.ops = [_FLIP[type(n.ops[0])]()]
    elif k == "mul":
        n.left, n.right = n.right, n.left
    elif k == "if":
        if isinstance(n.test, ast.UnaryOp) and isinstance(n.test.op, ast.Not):
            n.test = n.test.operand
        elif isinstance(n.test, ast.Compare) and len(n.test.ops) == 1 and type(n.test.ops[0]) in _NEG_OP:
            n.test.ops = [_NEG_OP[type(n.test.ops[0])]()]  # the loader's canonical spelling of a negated single comparison (sa/canon.py)
        else:
            neg = ast.copy_location(ast.UnaryOp(op=ast.Not(), operand=n.test), n.test)
            neg._parent = n  # type: ignore[attr-defined]
            n.test._parent = neg  # type: ignore[attr-defined]
            n.test = neg
        n.body, n.orelse = n.orelse, n.body
    elif k == "aug":
        if isinstance(n, ast.AugAssign):
            left = ast.copy_location(ast.Name(id=n.target.id, ctx=ast.Load()), n.target)
            val = ast.copy_location(ast.BinOp(left=left, op=n.op, right=n.value), n.value)
            new: ast.AST = ast.copy_location(ast.Assign(targets=[n.target], value=val), n)
            new.lineno, new.col_offset, new.end_lineno, new.end_col_offset = n.lineno, n.col_offset, n.end_lineno, n.end_col_offset  # type: ignore[attr-defined]
            left._parent, n.value._parent = val, val  # type: ignore[attr-defined]
        else:
            new = ast.copy_location(ast.AugAssign(target=n.targets[0], op=n.value.op, value=n.value.right), n)
        if hasattr(n, "_fid"):
            new._fid = n._fid  # type: ignore[attr-defined]
        if fn is not None:
            _replace_stmt(fn, n, new)
        return new
    return n


class _Orient(ast.NodeTransformer):
    """Bottom-up canonical spelling on a copy: sorted operands, un-negated if-tests, augmented assignments expanded."""

    def __init__(self) -> None:
        self.bits: Dict[int, int] = {}

    @staticmethod
    def key(x: ast.AST) -> str:
        return ast.dump(x, annotate_fields=False, include_attributes=False)

    def generic_visit(self, node: ast.AST) -> ast.AST:
        super().generic_visit(node)
        fid = getattr(node, "_fid", None)
        k = _kind(node)
        if fid is None or k is None:
            return node
        if k in ("cmp", "mul"):
            a, b = (node.left, node.comparators[0]) if k == "cmp" else (node.left, node.right)
            flip = self.key(a) > self.key(b)
        elif k == "if":
            depth = 0
            t = node.test
            while isinstance(t, ast.UnaryOp) and isinstance(t.op, ast.Not):
                depth, t = depth + 1, t.operand
            if isinstance(t, ast.Compare) and len(t.ops) == 1 and isinstance(t.ops[0], (ast.NotEq, ast.IsNot, ast.NotIn)):
                # a negative comparison counts as one negation: 'if a != b: A else: B' and 'if a == b: B else: A' share one canonical form
                t.ops = [_NEG_OP[type(t.ops[0])]()]
                node.test = t if depth % 2 == 0 else ast.UnaryOp(op=ast.Not(), operand=t)
                node.body, node.orelse = node.orelse, node.body
                self.bits[fid] = int(depth % 2 == 0)
                if depth % 2 == 1:
                    node.test = t
                    node.body, node.orelse = node.orelse, node.body
                return node
            if depth >= 2:  # 'not not c': drop the pairs first (the copy only)
                node.test = t if depth % 2 == 0 else ast.UnaryOp(op=ast.Not(), operand=t)
            flip = depth % 2 == 1
        else:
            flip = isinstance(node, ast.AugAssign)
        self.bits[fid] = int(flip)
        if flip:
            out = _flip_in_place(node)
            return out if out is not None else node
        return node


def oriented(fn: ast.AST, names: List[str]) -> Tuple[str, List[int], List[ast.AST]]:
    """(hash of the canonical form, flip bits in canonical order, re-spellable source nodes in the same order).

    Canonical form: locals replaced by their first-binding index and, bottom-up, operands of single-operator comparisons and of
    multiplications sorted by the dump of their (already canonical) subtrees, plain if/else written with an un-negated test,
    'x op= e' written as 'x = x op e'.  Bit i says whether the i-th such node (breadth-first order of the canonical tree) is
    spelled the other way in the source."""
    import copy

    originals = [n for n in ast.walk(fn) if _flippable(n)]
    for i, n in enumerate(originals):
        n._fid = i  # type: ignore[attr-defined]
    dup = copy.deepcopy(fn)
    for n in originals:
        del n._fid  # type: ignore[attr-defined]
    dup = _Canon({n: f"L{i}" for i, n in enumerate(names)}).visit(dup)
    orient = _Orient()
    dup = orient.visit(dup)
    order = [n._fid for n in ast.walk(dup) if getattr(n, "_fid", None) is not None]  # type: ignore[attr-defined]
    for n in ast.walk(dup):
        if hasattr(n, "_fid"):
            del n._fid  # type: ignore[attr-defined]
    h = hashlib.sha256(_Orient.key(dup).encode()).hexdigest()[:20]
    return h, [orient.bits.get(i, 0) for i in order], [originals[i] for i in order]


def _raw_hash(fn: ast.AST) -> str:
    return hashlib.sha256(ast.dump(fn, annotate_fields=False, include_attributes=False).encode()).hexdigest()[:20]


def describe(tree: ast.AST) -> Dict[str, Dict[str, object]]:
    out: Dict[str, Dict[str, object]] = {}
    for qual, fn in _functions(tree):
        names = locals_in_order(fn)
        oh, bits, _ = oriented(fn, names)
        if not names and not bits:
            continue
        out[qual] = {
            "locals": names,
            "hash": hashlib.sha256(_canon_dump(fn, names).encode()).hexdigest()[:20],
            "shapes": {n: hashlib.sha256((_shape_of_binding(fn, n, names) or "").encode()).hexdigest()[:16] for n in names},
            "ohash": oh,
            "oflips": "".join(str(b) for b in bits),
            "raw": _raw_hash(fn),
        }
    return out


_TABLE_CACHE: Optional[Dict[str, Dict[str, Dict[str, object]]]] = None


def table() -> Dict[str, Dict[str, Dict[str, object]]]:
    global _TABLE_CACHE
    if _TABLE_CACHE is None:
        _TABLE_CACHE = json.loads(TABLE.read_text()) if TABLE.exists() else {}
    return _TABLE_CACHE


def mapping_for(fn: ast.AST, ref: Dict[str, object]) -> Dict[str, str]:
    cur = locals_in_order(fn)
    ref_names: List[str] = list(ref["locals"])  # type: ignore[arg-type]
    if cur == ref_names:
        return {}
    mapping: Dict[str, str] = {}
    if len(cur) == len(ref_names) and hashlib.sha256(_canon_dump(fn, cur).encode()).hexdigest()[:20] == ref["hash"]:
        mapping = {c: r for c, r in zip(cur, ref_names) if c != r}
    else:
        ref_shapes: Dict[str, str] = dict(ref["shapes"])  # type: ignore[arg-type]
        missing_ref = [r for r in ref_names if r not in cur]
        new_cur = [c for c in cur if c not in ref_names]
        cur_shapes = {c: hashlib.sha256((_shape_of_binding(fn, c, cur) or "").encode()).hexdigest()[:16] for c in new_cur}
        for c in new_cur:
            cands = [r for r in missing_ref if ref_shapes.get(r) == cur_shapes[c]]
            back = [c2 for c2 in new_cur if cur_shapes[c2] == cur_shapes[c]]
            if len(cands) == 1 and len(back) == 1:
                mapping[c] = cands[0]
            elif len(cands) >= 1 and c in back[: len(cands)]:
                # new locals and vanished ones that share one binding shape ('x: RP2Decimal = ZERO'): paired in first-binding order (surplus new ones keep their names). Any injection
                # between names that exist on one side only is a pure renaming; a wrong pairing can only make a rule miss its roles, never find them
                mapping[c] = cands[back.index(c)]
    if not mapping:
        return {}
    # no capture: a target spelling must not already be used in the function by something that is not being renamed away
    used = {n.id for n in ast.walk(fn) if isinstance(n, ast.Name)} | _params(fn)
    safe = {c: r for c, r in mapping.items() if r not in used or r in mapping}
    if len(set(safe.values())) != len(safe):
        return {}
    return safe


def normalise(module: str, tree: ast.AST) -> int:
    """Rename locals / restore operand order of the module's functions in place according to the reference table; returns the number of changes."""
    ref_mod = table().get(module)
    if not ref_mod:
        return 0
    n = 0
    for qual, fn in _functions(tree):
        ref = ref_mod.get(qual)
        if not ref:
            continue
        if ref.get("raw") == _raw_hash(fn):
            continue  # unchanged function: nothing to undo
        cur_names = locals_in_order(fn)
        ref_names = list(ref["locals"])  # type: ignore[arg-type]
        mp: Dict[str, str] = {}
        if "ohash" in ref and len(cur_names) == len(ref_names):
            oh, bits, nodes = oriented(fn, cur_names)
            ref_bits = [int(c) for c in str(ref.get("oflips", ""))]
            if oh == ref["ohash"] and len(bits) == len(ref_bits):
                # equal up to local names and operand order: restore the reference's operand order, then its names
                for b, rb, node in zip(bits, ref_bits, nodes):
                    if b != rb:
                        _flip_in_place(node, fn)
                        n += 1
                mp = {c: r for c, r in zip(cur_names, ref_names) if c != r}
                used = {x.id for x in ast.walk(fn) if isinstance(x, ast.Name)} | _params(fn)
                if any(r in used and r not in mp for r in mp.values()) or len(set(mp.values())) != len(mp):
                    mp = {}
            else:
                mp = mapping_for(fn, ref)
        else:
            mp = mapping_for(fn, ref)
        if not mp:
            continue
        for node in ast.walk(fn):
            if isinstance(node, ast.Name) and node.id in mp:
                node.id = mp[node.id]
            elif isinstance(node, ast.ExceptHandler) and node.name in mp:
                node.name = mp[node.name]
        n += len(mp)
    return n


def main() -> None:
    from .loader import load_package

    if "--write" in sys.argv:
        import os

        os.environ["VERIF_NO_ALPHA"] = "1"
        pkg = load_package()
        out = {name: describe(mod.tree) for name, mod in sorted(pkg.modules.items())}
        out = {k: v for k, v in out.items() if v}
        TABLE.write_text(json.dumps(out, indent=0, sort_keys=True) + "\n")
        print(f"{TABLE}: {sum(len(v) for v in out.values())} functions with locals in {len(out)} modules")
        from . import delegation

        print(f"{delegation.TABLE}: call sets of {delegation.write(pkg)} functions")


if __name__ == "__main__":
    main()

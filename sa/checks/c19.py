"""C19 — hyperlinks in the full report lead to the row of the same transaction."""

from __future__ import annotations

import ast
from typing import Any, Dict, List, Optional, Tuple

from ..loader import AnalysisError, loc, short, unparse
from ..norm import Ctx, mk_add, show, subterms, tkey
from ..report import Report
from ..rp2model import model
from ..symexec import SPath, SymExec
from . import c13

META = {
    "title": "Hyperlinks in the full report lead to the row of the same transaction",
    "technique": "store/lookup agreement between the three table writers and the link readers (effect summaries: key = the row's own transaction, value = its 1-based row, "
    "stored before the row advances), normal form of the two formula builders (sheet of the transaction's own asset, looked-up row on both ends, raw value), "
    "state-lifetime rule (lifetime of each link table x the fields its key's equality depends on), first-row-of-year rule on the detail writer, keyword-forwarding rule on "
    "every hyperlinked cell (event cells link the event, lot cells the lot), id-uniqueness rule on artificial transactions",
    "explanation": "each of the in/out/intra writers records <this row's transaction> -> row_index + 1 in the same iteration that writes the transaction's cells at row_index; "
    "the transaction link formula targets '#<In-Out sheet of transaction.asset>.a<row>:z<row>' with the looked-up row and the unformatted value, and returns the bare value "
    "when the transaction has no recorded row (hidden by the filter); the transaction->row table does not outlive one asset's generation (transactions compare by row id only, "
    "rows of different sheets collide) and ids are unique inside an asset (sheet rows plus strictly negative artificial ids); (asset, year) -> row_index + 1 is recorded "
    "exactly when the event's year differs from the previous row's year, and the summary formula targets the Tax sheet of the same asset with that row, or carries no link "
    "when the year has no visible row; every taxable-event cell links gl.taxable_event and every lot cell gl.acquired_lot.",
    "not_decided": "that the rendered formula resolves in LibreOffice; ezodf's serialisation.",
    "assumptions": ["ODS cell addresses are 1-based; sheet names are those produced by get_in_out_sheet_name / get_tax_sheet_name"],
}

FR = c13.FR
T2R = "Generator.__in_out_sheet_transaction_2_row"
Y2R = "Generator.__tax_sheet_year_2_row"


def _container_lifetime(m, attr: str) -> Tuple[str, List[str]]:
    """'asset' / 'run' / 'process' from where the container is (re)bound to a fresh object."""
    gen = m.prog.cls(FR, "Generator")
    rebinds = []
    for fi in gen.methods.values():
        for n in ast.walk(fi.node):
            if isinstance(n, (ast.Assign, ast.AnnAssign)):
                for t in n.targets if isinstance(n, ast.Assign) else [n.target]:
                    if isinstance(t, ast.Attribute) and t.attr == attr and isinstance(t.value, ast.Name) and t.value.id == "self" and isinstance(n.value, (ast.Dict, ast.Call)) and unparse(n.value) in ("{}", "dict()"):
                        # unconditional, at the top level of the method?
                        if n in fi.node.body:
                            rebinds.append(fi.name)
            if isinstance(n, ast.Call) and isinstance(n.func, ast.Attribute) and n.func.attr == "clear" and isinstance(n.func.value, ast.Attribute) and n.func.value.attr == attr and isinstance(parent_stmt(n), ast.Expr) and parent_stmt(n) in fi.node.body:
                rebinds.append(fi.name)
    if "__generate_asset" in rebinds:
        return "asset", rebinds
    if "generate" in rebinds or "__init__" in rebinds:
        return "run", rebinds
    return "process", rebinds


def parent_stmt(node: ast.AST) -> Optional[ast.AST]:
    from ..loader import parent

    cur = node
    while cur is not None and not isinstance(cur, ast.stmt):
        cur = parent(cur)
    return cur


def run(rep: Report, tier: str) -> None:
    fr = c13.FullReport()
    m, prog, norm = fr.m, fr.prog, fr.norm
    gen = fr.gen
    # the two link tables are anchors: the rules find their writers, readers and resets by the fields' names. A renamed table is not a wrong one
    used = {n.attr for n in ast.walk(gen.node) if isinstance(n, ast.Attribute)} | {t.id for st in gen.node.body if isinstance(st, (ast.Assign, ast.AnnAssign)) for t in (st.targets if isinstance(st, ast.Assign) else [st.target]) if isinstance(t, ast.Name)}
    for fld in (T2R, Y2R):
        if fld.split(".")[1] not in used:
            raise AnalysisError(f"anchor vanished: the full report's Generator has no field {fld.split('.')[1]} any more (renamed or replaced link table): link rules not decided for this shape")

    rb0 = rep.rule("C19.b", "key identifies the transaction within the table's lifetime: lifetime x fields of the key's equality; ids unique inside an asset", floor=4)
    from ..engine import check_private_shadowing

    check_private_shadowing(rep, rb0, [gen])  # a per-asset reset must bind the attribute the lookups read (private names are mangled per class)
    # ---------------------------------------------------------------- C19.a
    ra = rep.rule("C19.a", "store/lookup agreement: each writer records its row's transaction -> row_index + 1; readers build '#<sheet of own asset>.a<row>:z<row>' or no link", floor=9, follows_calls=True)
    for name in ("__generate_in_table", "__generate_out_table", "__generate_intra_table"):
        fi, loop = fr.writer(name)
        rep.analysed(fi)
        var = c13.SPECS[name]["var"]
        for p in fr.run_loop(fi, loop, var):
            if p.exit != "fall":
                continue
            stores = [e for e in p.stores() if e[1][0] == "fld" and e[1][2] == T2R]
            ok = len(stores) == 1 and stores[0][2] == ("sym", var[0]) and tkey(stores[0][3]) == tkey(mk_add([("sym", "row_index"), ("const", 1)]))
            if not stores:
                via = [e for e in p.calls() if not show(e[1]).split("(")[0].endswith("_fill_cell") and ("sym", var[0]) in subterms(e[1]) and ("sym", "row_index") in subterms(e[1])]
                if via:
                    rep.defer_error(f"{loc(via[0][-1])}: {name} records the row through {show(via[0][1])[:80]}, a helper this rule does not follow: the store/lookup agreement is not decided for this shape")
                    continue
            rep.check(ok, ra, fi.module, fi.qualname, f"{name}: link table[this transaction] = row_index + 1 (before the advance)", f"{name} records {[(show(e[2])[:40], show(e[3])[:40]) for e in stores]} in the transaction->row table; expected exactly one entry: this row's transaction -> row_index + 1 (1-based address of the row just written)", loc(loop))
    for name in ("__generate_gain_loss_detail",):
        pass
    # readers
    saved = set(norm.opaque_funcs)
    norm.opaque_funcs -= {c13.HYPER_T, c13.HYPER_S}
    try:
        rd_row = prog.func(FR, "Generator.__get_in_out_sheet_row")
        tr = ("sym", "tx")
        ctx = Ctx(FR, gen)
        got = norm.inline(rd_row, ("sym", "self"), {"transaction": (tr, ("cls", "rp2.abstract_transaction:AbstractTransaction"))}, ctx)
        table = ("fld", ("sym", "self"), T2R)
        want = ("ite", ("cmp", "in", tr, table), ("sub", table, tr), ("const", None))
        alt = ("ite", ("cmp", "in", tr, table), ("sub", table, tr), ("const", None))
        is_get = got[0] == "xcall" and got[1] == "get" and got[2] == table and got[3][:1] == (tr,)
        rep.check(tkey(got) in (tkey(want), tkey(alt)) or is_get, ra, FR, rd_row.qualname, "row lookup: recorded row of this transaction, None when absent", f"__get_in_out_sheet_row normalises to {show(got)[:200]}; expected table[transaction] when present else None", loc(rd_row.node))
        ht = prog.func(FR, "Generator.__get_hyperlinked_transaction_value")
        rep.analysed(ht)
        _check_formula_builder(rep, ra, fr, ht, "transaction")
        hs = prog.func(FR, "Generator.__get_hyperlinked_summary_value")
        rep.analysed(hs)
        _check_formula_builder(rep, ra, fr, hs, "summary")
    finally:
        norm.opaque_funcs.clear()
        norm.opaque_funcs |= saved | {c13.HYPER_T, c13.HYPER_S}
    for fn, fmt in (("get_in_out_sheet_name", "{} In-Out"), ("get_tax_sheet_name", "{} Tax")):
        f = prog.func(FR, f"Generator.{fn}")
        t = norm.inline(f, None, {"asset": (("sym", "asset"), ("prim", "str"))}, Ctx(FR, gen))
        ok = t[0] == "xcall" and t[1] == "format" and t[2] == ("const", fmt) and t[3] == (("sym", "asset"),)
        rep.check(ok, ra, FR, f.qualname, f"{fn}(asset) = '{fmt}'.format(asset)", f"{fn} normalises to {show(t)[:120]}", loc(f.node))
    ga = prog.func(FR, "Generator.__generate_asset")
    txt = unparse(ga.node)
    ok = "transaction_sheet_name: str = self.get_in_out_sheet_name(asset)" in txt and "output_sheet_name: str = self.get_tax_sheet_name(asset)" in txt and "ezodf.Table(transaction_sheet_name)" in txt and "ezodf.Table(output_sheet_name)" in txt
    rep.check(ok, ra, FR, ga.qualname, "sheets are created under the names the links use", "__generate_asset no longer creates the In-Out / Tax sheets under get_in_out_sheet_name(asset) / get_tax_sheet_name(asset): links would point at non-existent sheets", loc(ga.node))

    # ---------------------------------------------------------------- C19.b
    rb = rep.rule("C19.b", "key identifies the transaction within the table's lifetime: lifetime x fields of the key's equality; ids unique inside an asset", floor=4)
    at = m.abstract_transaction
    eq = prog.lookup_method(at, "__eq__")
    hs_ = prog.lookup_method(at, "__hash__")
    eq_t = norm.inline(eq, ("sym", "a"), {"other": (("sym", "b"), ("cls", at.fq))}, Ctx(eq.module, eq.cls)) if eq else ("unk", "")
    eq_fields = sorted({s[2] for s in subterms(eq_t) if s[0] == "fld"})
    includes_asset = any(f.endswith("__asset") for f in eq_fields)
    life, where_rebound = _container_lifetime(m, "__in_out_sheet_transaction_2_row")
    ok = life == "asset" or includes_asset
    rep.check(
        ok,
        rb,
        FR,
        "Generator.__in_out_sheet_transaction_2_row",
        "transaction->row table does not outlive one asset (or its key's equality includes the asset)",
        f"the transaction->row link table lives for the whole {life} (fresh object bound in: {where_rebound or 'class body only'}) while AbstractTransaction equality/hash depend only on {eq_fields}: "
        "rows of different assets' sheets share numbers, so a transaction hidden by the date filter is linked to the row of another asset's transaction with the same id instead of carrying no link",
        loc(gen.node),
    )
    life2, where2 = _container_lifetime(m, "__tax_sheet_year_2_row")
    # the year->row table: either it does not outlive one asset, or every key written to it and looked up in it includes the asset
    key_nodes = [n for n in ast.walk(gen.node) if isinstance(n, ast.Subscript) and isinstance(n.value, ast.Attribute) and n.value.attr == "__tax_sheet_year_2_row"]
    key_nodes += [n.args[0] for n in ast.walk(gen.node) if isinstance(n, ast.Call) and isinstance(n.func, ast.Attribute) and n.func.attr in ("get", "setdefault", "pop") and isinstance(n.func.value, ast.Attribute) and n.func.value.attr == "__tax_sheet_year_2_row" and n.args]
    keys_txt = [unparse(n.slice) if isinstance(n, ast.Subscript) else unparse(n) for n in key_nodes]
    if not keys_txt:
        raise AnalysisError("no access to Generator.__tax_sheet_year_2_row found")
    with_asset = [any(isinstance(x, ast.Name) and x.id == "asset" for x in ast.walk(n.slice if isinstance(n, ast.Subscript) else n)) for n in key_nodes]
    rep.check(
        life2 == "asset" or all(with_asset),
        rb,
        FR,
        "Generator.__tax_sheet_year_2_row",
        "year->row table does not outlive one asset, or its keys include the asset",
        f"the year->row table of the Summary links lives for the whole {life2} (fresh object bound in: {where2 or 'class body only'}) and is accessed with keys {sorted(set(keys_txt))}: "
        "a year that has no visible row for one asset picks up the row another asset recorded for that year (a link to an unrelated row instead of no link)",
        loc(gen.node),
    )
    from . import c11

    c11.check_split(rep, rb)

    # ---------------------------------------------------------------- C19.c
    rc = rep.rule("C19.c", "summary links: (asset, year) -> row_index + 1 recorded exactly at the first visible row of that year in the asset's detail table", floor=3)
    fi, loop = fr.writer("__generate_gain_loss_detail")
    var = c13.SPECS["__generate_gain_loss_detail"]["var"]
    paths = [p for p in fr.run_loop(fi, loop, var) if p.exit == "fall"]
    ev_year = fr.expected("gl.taxable_event.timestamp.year", var)
    n_store = 0
    prev = None
    for p in paths:
        conds = [c for c in p.conds()]
        # a record is a plain store (overwrites) or table.setdefault(key, row) / a store under 'key not in table' (first row wins)
        records = []
        for e in p.stores():
            if e[1][0] == "fld" and e[1][2] == Y2R:
                guarded = any(c[0] == "cmp" and c[1] == "not in" and tkey(c[2]) == tkey(e[2]) and c[3][0] == "fld" and c[3][2] == Y2R for c in conds)
                records.append((e[2], e[3], "first-wins" if guarded else "overwrite", e[5]))
        for e in p.events:
            if e[0] == "setdefault" and e[1][0] == "fld" and e[1][2] == Y2R:
                records.append((e[2], e[3], "first-wins", e[4]))
        stores = records
        differs = any(c[0] == "cmp" and c[1] == "!=" and {tkey(c[2]), tkey(c[3])} == {tkey(ev_year), tkey(("sym", "year"))} for c in conds)
        same = any(c[0] == "cmp" and c[1] == "==" and {tkey(c[2]), tkey(c[3])} == {tkey(ev_year), tkey(("sym", "year"))} for c in conds)
        if stores:
            n_store += 1
            k = stores[0][0]
            ok = len(stores) == 1 and differs and k[0] == "new" and dict(k[2]).get("asset") == ("sym", "asset") and tkey(dict(k[2]).get("year", ("unk", ""))) == tkey(ev_year) and tkey(stores[0][1]) == tkey(mk_add([("sym", "row_index"), ("const", 1)]))
            rep.check(ok, rc, fi.module, fi.qualname, "first row of a year: table[(asset, event year)] <- row_index + 1", f"the (asset, year) table is written as {[(show(e[0])[:80], show(e[1])[:40]) for e in stores]} under {[show(c)[:70] for c in conds if 'year' in show(c)][:3]}; expected (asset, taxable event's year) -> row_index + 1 exactly when the event's year differs from the previous row's year", loc(loop))
            rep.check(
                all(e[2] == "first-wins" for e in stores),
                rc,
                fi.module,
                fi.qualname,
                "the first row recorded for a year is kept (setdefault / 'not in' guard), never overwritten",
                f"{short(stores[0][3], 100)} overwrites an existing (asset, year) entry: rows are sorted by instant but the year is the event's local year, so with disposals around New Year in different UTC offsets "
                "the years interleave (2021, 2020, 2021) and the Summary line of 2021 links to a later row instead of the first gain / loss row of that year",
                loc(stores[0][3]),
            )
        else:
            rep.check(same or not differs, rc, fi.module, fi.qualname, "rows of the same year as the previous row do not overwrite the entry", "a path where the event's year differs from the previous row's year records nothing", loc(loop))
        # the loop-carried 'year' must be this row's event year after the iteration
        fin = p.vars.get("year", (None,))[0]
        rep.check(fin is not None and _is_current_year(m, fr, fin, ev_year), rc, fi.module, fi.qualname, "the loop-carried year becomes this row's event year", f"after an iteration the carried 'year' is {show(fin)[:160] if fin else None}; expected this row's taxable-event year (the next row is compared against it)", loc(loop))
    if n_store == 0:
        rep.violation(rc, fi.module, fi.qualname, "(asset, year) table is filled", "no path of the detail writer records the first row of a year", loc(loop))
    # the store condition is exactly 'year differs' (no other condition such as lot presence)
    ifs = [n for n in ast.walk(loop) if isinstance(n, ast.If) and "__tax_sheet_year_2_row" in unparse(n.body[0] if n.body else n)]
    ok = len(ifs) == 1
    if ok:
        c = norm.cond(ifs[0].test, c13._iter_ctx(fr, fi))
        # evaluated without the loop variable binding: compare structure
        ok = c[0] == "cmp" and c[1] == "!=" and "year" in show(c)
    if ok is False and len(ifs) == 1:
        c = norm.cond(ifs[0].test, c13._iter_ctx(fr, fi))
        atoms = list(c[1]) if c[0] == "and" else [c]
        ok = sum(1 for a in atoms if a[0] == "cmp" and a[1] == "!=" and "year" in show(a)) == 1 and all((a[0] == "cmp" and a[1] == "!=" and "year" in show(a)) or (a[0] == "cmp" and a[1] == "not in" and Y2R in show(a)) for a in atoms)
    rep.check(ok, rc, fi.module, fi.qualname, "the first-row test is exactly 'event year != previous row's year'", f"the (asset, year) table is written under '{short(ifs[0].test, 100) if ifs else None}'; expected exactly the comparison of the event's year with the previous row's year (rows without a lot, e.g. income, must be treated like any other row)", loc(ifs[0]) if ifs else loc(loop))
    init_year = [n for n in fi.node.body if isinstance(n, (ast.Assign, ast.AnnAssign)) and unparse(n.targets[0] if isinstance(n, ast.Assign) else n.target) == "year"]
    rep.check(len(init_year) == 1 and unparse(init_year[0].value) == "0", rc, fi.module, fi.qualname, "the carried year starts at 0 (no year)", "the loop-carried year no longer starts at 0", loc(fi.node))

    # ---------------------------------------------------------------- C19.d
    rdd = rep.rule("C19.d", "every hyperlinked taxable-event cell links gl.taxable_event, every lot cell gl.acquired_lot, every summary cell (asset, line's year)", floor=20)
    c13.check_writer(rep, fr, "__generate_gain_loss_detail", rdd, rdd)
    c13.check_writer(rep, fr, "__generate_yearly_gain_loss_summary", rdd, rdd)
    from ..engine import check_cell_sink

    check_cell_sink(rep, rdd)  # a hyperlink formula reaches the sheet only if the sink writes the string it is given


def _mentions_year_store_guard(c, ev_year) -> Optional[bool]:
    return None


def _is_current_year(m, fr, fin, ev_year) -> bool:
    """fin == event year, directly or through __get_border_style(current_year=<event year>, year).year (which always returns current_year)."""
    if tkey(fin) == tkey(ev_year):
        return True
    if fin[0] == "ite":
        # every leaf of the conditional is the event year, or equal to it by the conditions on the way to the leaf
        from ..norm import mk_not

        def leaves(t, conds):
            if t[0] == "ite":
                yield from leaves(t[2], conds + [t[1]])
                yield from leaves(t[3], conds + [mk_not(t[1])])
            else:
                yield t, conds

        for leaf, conds in leaves(fin, []):
            if tkey(leaf) == tkey(ev_year):
                continue
            if any(c[0] == "cmp" and c[1] == "==" and {tkey(c[2]), tkey(c[3])} == {tkey(leaf), tkey(ev_year)} for c in conds):
                continue
            return False
        return True
    if fin[0] == "fld" and fin[2] == "_BorderStyle.year" and fin[1][0] == "call" and fin[1][1].endswith("Generator.__get_border_style"):
        kw = dict(fin[1][2])
        if tkey(kw.get("current_year", ("unk", ""))) != tkey(ev_year):
            return False
        return _border_style_returns_current_year(m)
    return False


def _border_style_returns_current_year(m) -> bool:
    f = m.prog.func(FR, "Generator.__get_border_style")
    se = SymExec(m.norm, m.norm.ctx_for(f, subst_locals=False), inline_helpers=False)
    paths = se.run(f.body)
    ok = bool(paths)
    for p in paths:
        if p.exit != "return" or p.ret is None or p.ret[0] != "new":
            return False
        y = dict(p.ret[2]).get("year")
        if y == ("sym", "current_year"):
            continue
        # year == current_year on this path by the path condition
        conds = p.conds()
        eq = any(c[0] == "cmp" and c[1] == "==" and {tkey(c[2]), tkey(c[3])} == {tkey(("sym", "current_year")), tkey(y)} for c in conds)
        if not eq:
            ok = False
    return ok


def _flatten_fstr(parts) -> list:
    out: list = []
    for x in parts:
        if isinstance(x, tuple) and x and x[0] == "fstr":
            for y in _flatten_fstr(x[1]):
                if isinstance(y, str) and out and isinstance(out[-1], str):
                    out[-1] += y
                else:
                    out.append(y)
        elif isinstance(x, str) and out and isinstance(out[-1], str):
            out[-1] += x
        else:
            out.append(x)
    return out


class _Case:
    """One case of a returning path whose value is a conditional: the path's conditions plus the case's own."""

    def __init__(self, path, ret, extra) -> None:
        self.path, self.ret, self.extra, self.vars, self.exit = path, ret, extra, path.vars, path.exit

    def conds(self):
        return list(self.path.conds()) + list(self.extra)


def _split_conditional_return(p, ret=None, extra=()):
    from ..norm import mk_not

    ret = p.ret if ret is None else ret
    if ret is not None and ret[0] == "fstr":
        parts = _flatten_fstr(ret[1])
        k = next((i for i, x in enumerate(parts) if isinstance(x, tuple) and x and x[0] == "ite" and "isinstance(value" in show(x[1])), None)
        if k is not None:  # '...; {v if numeric else quoted(v)})': one formula per case
            c, a, b = parts[k][1], parts[k][2], parts[k][3]
            yield from _split_conditional_return(p, ("fstr", tuple(parts[:k] + [a] + parts[k + 1:])), tuple(extra) + (c,))
            yield from _split_conditional_return(p, ("fstr", tuple(parts[:k] + [b] + parts[k + 1:])), tuple(extra) + (mk_not(c),))
            return
    if ret is not None and ret[0] == "ite":
        yield from _split_conditional_return(p, ret[2], tuple(extra) + (ret[1],))
        yield from _split_conditional_return(p, ret[3], tuple(extra) + (mk_not(ret[1]),))
    elif extra:
        yield _Case(p, ret, extra)
    else:
        yield p


def _check_formula_builder(rep: Report, rule: str, fr, fi, kind: str) -> None:
    m, norm = fr.m, fr.norm
    se = SymExec(norm, norm.ctx_for(fi, subst_locals=False), inline_helpers=False)
    paths = se.run(fi.body)
    rets = []
    for p in paths:
        if p.exit == "return":
            rets.extend(_split_conditional_return(p))  # a formula built by a shared helper comes back as `<numeric formula> if isinstance(value, ...) else <text formula>`
    formulas = [p for p in rets if p.ret is not None and p.ret[0] == "fstr"]
    bare = [p for p in rets if p.ret == ("sym", "value")]
    others = [p for p in rets if p not in formulas and p not in bare]
    rep.check(not others and len(formulas) >= 2, rule, fi.module, fi.qualname, f"{kind} link builder returns a formula or the bare value", f"{fi.qualname} has returning paths with {[show(p.ret)[:80] for p in others]}", loc(fi.node))
    if kind == "transaction":
        asset_t = norm.term(ast.parse("transaction.asset", mode="eval").body, norm.ctx_for(fi))
        sheet = ("xcall", "format", ("const", "{} In-Out"), (asset_t,), ())
        row_of = lambda p: p.vars.get("row", (None,))[0]  # noqa: E731
        rep.check(len(bare) == 1 and any("is None" in show(c) or "not " in show(c) or "bool(" in show(c) for c in bare[0].conds()), rule, fi.module, fi.qualname, "no recorded row => bare value (no link)", "the transaction link builder no longer returns the bare value when the transaction has no recorded row (hidden by the filter)", loc(fi.node))
    else:
        sheet = ("xcall", "format", ("const", "{} Tax"), (("sym", "asset"),), ())
        row_of = lambda p: p.vars.get("row", (None,))[0]  # noqa: E731
        rep.check(len(bare) == 1, rule, fi.module, fi.qualname, "no recorded first row for (asset, year) => bare value (no link, no KeyError)", "the summary link builder has no path that returns the bare value when (asset, year) has no recorded row: with a from-date later than the asset's last event of that year the lookup fails", loc(fi.node))
    for p in formulas:
        parts = _flatten_fstr(p.ret[1])  # a formula assembled from an inner f-string (the link target built first) is the same text
        row = row_of(p)
        numeric = any("isinstance(value" in show(c) and not show(c).startswith("not ") for c in p.conds())
        lits = [x for x in parts if isinstance(x, str)]
        terms = [x for x in parts if not isinstance(x, str)]
        if row is None and len(terms) == 4:
            row = terms[1]  # no local named `row` (the lookup is passed straight to a helper): the row is whatever stands after '.a', and must stand after ':z' too
        want_lits = ['=HYPERLINK("#', ".a", ":z", '"; ', ")"] if numeric else ['=HYPERLINK("#', ".a", ":z", '"; "', '")']
        ok_l = lits == want_lits
        ok_t = len(terms) == 4 and tkey(terms[0]) == tkey(sheet) and row is not None and tkey(terms[1]) == tkey(row) and tkey(terms[2]) == tkey(row) and terms[3] == ("sym", "value")
        table_ok = row is not None and any(s[0] in ("old", "sub") or (s[0] == "xcall" and s[1] == "get") or (s[0] == "call" and "__get_in_out_sheet_row" in s[1]) for s in _tuples(row) if s)
        rep.check(
            ok_l and ok_t and table_ok,
            rule,
            fi.module,
            fi.qualname,
            f"{kind} link formula ({'numeric' if numeric else 'text'}): '#<sheet of own asset>.a<row>:z<row>'; <raw value>",
            f"the {kind} link formula is {show(p.ret)[:300]}; expected =HYPERLINK(\"#<{show(sheet)[:40]}>.a<row>:z<row>\"; <value>) with the looked-up row on both ends and the value itself (unformatted: reformatting truncates small numbers in the cell)",
            loc(fi.node),
        )


def _tuples(t: Any):
    if isinstance(t, tuple):
        yield t
        for x in t:
            if isinstance(x, tuple):
                yield from _tuples(x)

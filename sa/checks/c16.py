"""C16 — every supported option combination runs to completion on every valid input."""

from __future__ import annotations

import ast
from typing import Any, Dict, List, Optional, Tuple

from .. import lookups, typed
from ..artefacts import languages_shipped, locale_available, ods_sheets, template_path
from ..consts import UNKNOWN, Folder, fold_module_const
from ..loader import AnalysisError, ancestors, enclosing_class, enclosing_function, loc, package_source_dir, parent, repo_root, short, unparse
from ..norm import Ctx, show, subterms
from ..paths import path_condition, terminates
from ..report import Report
from ..rp2model import model
from . import c10, c12, c14

META = {
    "title": "Every supported option combination runs to completion on every valid input",
    "technique": "matrix check over the shipped artefacts (country x report generator x language -> template / link, locale catalogue, legend anchor cell), plugin table "
    "agreement (default method in accepted methods in plugin modules; console scripts resolve), R-LOOKUP classification of every subscript read on a dict-typed value "
    "(mypy type map): guarded / just stored / own iteration key / total enum table / constant key, else a reviewed site with its reason or a violation, division rule "
    "(every decimal division has a reviewed non-zero divisor), option-only rejection rule, guard/use container-mismatch rule, agreement of the window predicates that "
    "make the fraction-number tables total for the rows the reports iterate",
    "explanation": "for every country plugin, each of its report generators and every language it ships templates for (plus its default language) a template or link resolves, "
    "the gettext catalogue exists and the legend sheet carries the 'Accounting Method' anchor; every listed generator and accounting method is a plugin module with the "
    "expected class and every console script resolves; every dictionary subscript read in src/rp2 is provably present (membership guard, stored just before, key from the "
    "dictionary's own iteration, total table over an Enum, constant key of a constant table) or is one of the reviewed sites whose key domain is argued to be inside the "
    "writer's domain; every decimal division has a divisor that a validator or guard keeps non-zero; no raise/exit depends only on option values except the documented "
    "conflicts; no membership test guards a read from a different container; the iterator and the fraction-numbering loop apply the same to-date predicate.",
    "restated": 'a valid input is not rejected: exact, time-ordered overdraft test (C08.a, b, d), no lot lost or hidden from the matcher (heap typestate, schedule traversal, time-ordered input); every transaction type a taxable event can carry is routed to a sheet the shipped template contains (C14.a, b)',
    "not_decided": "absence of every exception for every input (ezodf, extreme values, recursion); 'assets fully sold / income only' as such.",
    "assumptions": ["mypy's dict typing of receivers is sound", "reviewed-site reasons hold as long as the obligations they cite (C07.e, C10.a, C14.a/b) hold"],
}

# reviewed unguarded lookups: (module, qualname, subscript text) -> reason the key is always present
REVIEWED: Dict[Tuple[str, str, str], str] = {
    ("rp2.abstract_accounting_method", "AbstractAcquiredLotCandidates.get_partial_amount", "self.__acquired_lot_2_partial_amount[acquired_lot]"): "preceded by 'if not self.has_partial_amount(acquired_lot): raise' (membership guard through a helper)",
    ("rp2.abstract_entry_set", "AbstractEntrySet.get_parent", "self._entry_to_parent[entry]"): "_validate_entry(entry) raises unless entry is in the set; _sort_entries assigns a parent to every entry of the list",
    ("rp2.computed_data", "ComputedData.get_crypto_in_running_sum", "self.__crypto_in_running_sum[in_transaction]"): "filled for every entry of the unfiltered in-set; readers pass entries of the filtered view (subset)",
    ("rp2.computed_data", "ComputedData.get_crypto_in_fee_running_sum", "self.__crypto_in_fee_running_sum[in_transaction]"): "filled for every entry of the unfiltered in-set",
    ("rp2.computed_data", "ComputedData.get_crypto_out_running_sum", "self.__crypto_out_running_sum[out_transaction]"): "filled for every entry of the unfiltered out-set",
    ("rp2.computed_data", "ComputedData.get_crypto_out_fee_running_sum", "self.__crypto_out_fee_running_sum[out_transaction]"): "filled for every entry of the unfiltered out-set",
    ("rp2.computed_data", "ComputedData.get_crypto_intra_fee_running_sum", "self.__crypto_intra_fee_running_sum[intra_transaction]"): "filled for every entry of the unfiltered intra-set",
    ("rp2.computed_data", "ComputedData.get_crypto_gain_loss_running_sum", "self.__crypto_gain_loss_running_sum[gain_loss]"): "filled for every entry of the unfiltered gain/loss set",
    ("rp2.configuration", "Configuration._validate_header_section", "_HEADER_COLUMNS[normalized_section_name]"): "called only from the three branches that compared normalized_section_name with the three header keywords, which are the table's keys",
    ("rp2.configuration", "Configuration.__init__", "ini_configuration[section_name]"): "section_name iterates ini_configuration.sections() (configparser strips section names itself)",
    ("rp2.gain_loss_set", "GainLossSet.get_taxable_event_fraction", "self.__taxable_events_to_fraction[entry]"): "_sort_entries numbers every entry dated <= to_date; readers iterate the set through EntrySetIterator, which yields only entries dated <= to_date (same predicate: obligation C16.f)",
    ("rp2.gain_loss_set", "GainLossSet.get_acquired_lot_fraction", "self.__acquired_lots_to_fraction[entry]"): "as get_taxable_event_fraction, for entries with a lot (readers guard on gain_loss.acquired_lot)",
    ("rp2.ods_parser", "_create_and_process_transaction", "unfiltered_transaction_sets[EntrySetType.IN]"): "parse_ods stores IN, OUT and INTRA into the dictionary before the row loop",
    ("rp2.ods_parser", "_create_and_process_transaction", "unfiltered_transaction_sets[current_table_type]"): "current_table_type is set only when _is_table_begin() held, i.e. to IN, OUT or INTRA",
    ("rp2.ods_parser", "parse_ods", "unfiltered_transaction_sets[current_table_type]"): "inside the _is_table_begin() branch: IN, OUT or INTRA",
    ("rp2.plugin.report.jp.tax_report_jp", "Generator.__generate_asset", "self.__year_row_offset[year]"): "__generate_asset_year(year=year) ran just before in the same iteration and does self.__year_row_offset.setdefault(year, 7)",
    ("rp2.plugin.report.open_positions", "Generator.generate", "asset_crypto_balance_holder[asset]"): "first loop: inserted by the preceding 'if asset not in' block; second loop: assets with unsold cost have a positive total balance (C07.e) and hence an entry",
    ("rp2.plugin.report.open_positions", "Generator.generate", "asset_crypto_balance_holder_exchange[asset]"): "inserted together with asset_crypto_balance_holder[asset] in the same 'if asset not in' block",
    ("rp2.plugin.report.open_positions", "Generator.generate", "asset_crypto_balance_holder_exchange[asset][balance_set.holder]"): "inserted together with asset_crypto_balance_holder[asset][holder] in the same 'if holder not in' block",
}
for _cc, _mod in c14.GENS.items():
    REVIEWED[(_mod, "Generator.__generate", "_SHEET_TO_TYPES[sheet.name]")] = "every kept template sheet other than the legend is a key (obligation C14.b, re-checked here)"
    REVIEWED[(_mod, "Generator.__generate", "row_indexes[sheet.name]")] = "row_indexes has a key for every SheetNames value and every mapped sheet is one (C14.b)"
    REVIEWED[(_mod, "Generator.__generate", "_TYPE_TO_SHEET[sheet_type]")] = "every type a taxable event can carry is a key (obligation C14.a, re-checked here)"
    REVIEWED[(_mod, "Generator.generate", "row_indexes[sheet_name]")] = "guarded by sheet_name != 'Legend'; every other kept sheet is a SheetNames value (C14.b)"

# reviewed decimal divisions: (module, qualname, divisor text) -> reason the divisor is non-zero
DIVISIONS: Dict[Tuple[str, str, str], str] = {
    ("rp2.gain_loss", "GainLoss.taxable_event_fiat_amount_with_fee_fraction", "self.taxable_event.crypto_balance_change"): "GainLoss.__init__ demands 0 < crypto_amount <= event.crypto_balance_change",
    ("rp2.gain_loss", "GainLoss.taxable_event_fraction_percentage", "self.taxable_event.crypto_balance_change"): "as above",
    ("rp2.gain_loss", "GainLoss.acquired_lot_fiat_amount_with_fee_fraction", "self.acquired_lot.crypto_balance_change"): "GainLoss.__init__ demands 0 < crypto_amount <= lot.crypto_in; guarded by 'if not self.acquired_lot'",
    ("rp2.gain_loss", "GainLoss.acquired_lot_fraction_percentage", "self.acquired_lot.crypto_balance_change"): "as above",
    ("rp2.gain_loss", "GainLoss.fiat_cost_basis", "self.acquired_lot.crypto_balance_change"): "as above",
    ("rp2.computed_data", "ComputedData._compute_price_per_unit", "crypto_in_running_sum"): "GUARDED: the sum stays the initial ZERO when the to-date precedes the first acquisition (the loop breaks at once), so the quotient must be under a test of the divisor itself; otherwise crypto_in is validated positive (non-zero) except for STAKING",
    ("rp2.plugin.report.open_positions", "Generator.generate", "total_crypto_balance"): "sum of the strictly positive balances collected for the asset (at least one: see asset_crypto_balance_holder[asset])",
    ("rp2.plugin.report.open_positions", "Generator.generate", "total_cost_basis"): "reached only inside the loop over asset_cost_bases, which is non-empty only after a strictly positive cost basis was added to total_cost_basis",
}


def _qual(node: ast.AST) -> str:
    f, c = enclosing_function(node), enclosing_class(node)
    return f"{c.name + '.' if c else ''}{f.name if f else '<module>'}"


def run(rep: Report, tier: str) -> None:
    m = model()
    prog, norm = m.prog, m.norm
    _check_matrix(rep, m)
    _check_lookups(rep, m)
    _check_divisions(rep, m)
    _check_option_rejections(rep, m)
    _check_container_mismatch(rep, m)
    # the window predicates that make the fraction tables total for the rows the reports iterate
    rf = rep.rule("C16.f", "iterator and fraction numbering apply the same to-date predicate (own calendar date, strict >): numbered rows are a superset of iterated rows", floor=2)
    for mod, qual in (("rp2.abstract_entry_set", "EntrySetIterator.__next__"), ("rp2.gain_loss_set", "GainLossSet._sort_entries")):
        fi = prog.func(mod, qual)
        comps = [c for c in c10._window_comparisons(m, fi) if c[2] == "to"]
        if not comps:
            c10.missing_bound(rep, rf, m, fi, "to", f"{qual}: to-date applied on the entry's calendar date", "the report generators iterate rows that were never numbered (KeyError in get_taxable_event_fraction) or the reverse")
        for c in comps:
            c10._judge(rep, rf, m, fi, c)
    rh = rep.rule("C16.h", "a valid input is not rejected: overdraft test exact and in time order (C08.a,b,d), no lot lost or hidden from the matcher (heap typestate, schedule traversal, time-ordered input)", floor=12)
    from . import c08
    from .. import engine

    sub8 = Report("C08", tier)
    c08.run(sub8, tier)
    rep.absorb(sub8, rh, ("C08.a", "C08.b", "C08.d"), "overdraft test")
    from . import c07

    sub7 = Report("C07", tier)
    c07.run(sub7, tier)
    rep.absorb(sub7, rh, ("C07.d",), "balances cut on the entry's own date like every other filter (an asset with lots but no balance makes open_positions fail)")
    # every sheet a taxable event can be routed to exists in the shipped template (a missing one is a KeyError in the tax report): C14.a/b restated
    rj = rep.rule("C16.j", "tax-report routing: every transaction type a taxable event can carry has a sheet that the template contains (C14.a, C14.b restated)", floor=20)
    sub14 = Report("C14", tier)
    c14.run(sub14, tier)
    rep.absorb(sub14, rj, ("C14.a", "C14.b"), "tax report routing tables")
    engine.check_heap_typestate(rep, rh)
    engine.check_schedule_traversal(rep, rh)
    engine.check_chronological_input(rep, rh)
    engine.check_key_builder(rep, rh)  # a lot whose index key sorts after the disposal's is hidden: 'Total in-transaction crypto value < total taxable crypto value' on a valid input
    ri = rep.rule("C16.i", "report sheets are large enough: the per-type counter the tax reports size their sheets with counts every fraction of the window once", floor=2)
    engine.check_type_counter(rep, ri)
    rg = rep.rule("C16.g", "default options are accepted: -m defaults to 'not given'; conflict check unchanged", floor=2)
    _check_m_default(rep, rg, m)


def _check_m_default(rep: Report, rule: str, m) -> None:
    prog = m.prog
    setup = prog.func("rp2.rp2_main", "_setup_argument_parser")
    opt = None
    for c in ast.walk(setup.node):
        if isinstance(c, ast.Call) and isinstance(c.func, ast.Attribute) and c.func.attr == "add_argument" and any(isinstance(a, ast.Constant) and a.value == "-m" for a in c.args):
            opt = c
    if opt is None:
        raise AnalysisError("-m option not found")
    d = {k.arg: k.value for k in opt.keywords}.get("default")
    rep.check(isinstance(d, ast.Constant) and d.value in ("", None), rule, setup.module, setup.qualname, "-m defaults to a falsy constant", f"-m has default={unparse(d) if d is not None else None}: with a non-empty default every configuration that has an [accounting_methods] section aborts with 'cannot be defined both' although no -m was given", loc(opt))
    main = prog.func("rp2.rp2_main", "_rp2_main_internal")
    from ..engine import method_conflict_exit

    rep.check(len(method_conflict_exit(model())) == 1, rule, main.module, main.qualname, "the only method-related rejection is '-m together with [accounting_methods]'", "the method conflict check changed: valid option combinations may now be rejected", loc(main.node))


def _check_matrix(rep: Report, m) -> None:
    prog, norm = m.prog, m.norm
    ra = rep.rule("C16.a", "template / locale / plugin matrix: country x generator x language resolves; legend anchor present; plugin tables agree; console scripts resolve", floor=40)
    base = prog.cls("rp2.abstract_country", "AbstractCountry")
    method_mods = {mod.name.rsplit(".", 1)[1] for mod in prog.modules_under("rp2.plugin.accounting_method") if f"{mod.name}:AccountingMethod" in prog.classes}
    countries = prog.subclasses(base, strict=True)
    if len(countries) < 5:
        raise AnalysisError(f"found {len(countries)} country plugins; expected >= 5")
    for ci in countries:
        def fold(meth: str) -> Any:
            f = prog.lookup_method(ci, meth)
            t = norm.inline(f, ("sym", "c"), {}, Ctx(f.module, f.cls))
            return t[1] if t[0] == "const" else UNKNOWN

        iso_call = [n for n in ast.walk(m.init_of(ci).node) if isinstance(n, ast.Call) and unparse(n.func) == "super().__init__"]
        iso = iso_call[0].args[0].value if iso_call and iso_call[0].args and isinstance(iso_call[0].args[0], ast.Constant) else None
        gens, lang, dflt, methods = fold("get_report_generators"), fold("get_default_generation_language"), fold("get_default_accounting_method"), fold("get_accounting_methods")
        if UNKNOWN in (gens, lang, dflt, methods) or iso is None:
            raise AnalysisError(f"country plugin {ci.name}: generators / language / methods / iso code are not constant-foldable")
        where = loc(ci.node)
        rep.check(dflt in methods, ra, ci.module, ci.name, f"{iso}: default accounting method is accepted", f"{ci.name}: default method '{dflt}' is not in get_accounting_methods() {sorted(methods)}: the default run is rejected by the -m choices / engine", where)
        for meth in sorted(methods):
            rep.check(meth in method_mods, ra, ci.module, ci.name, f"{iso}: accounting method '{meth}' is a plugin module", f"{ci.name} accepts method '{meth}' but plugin/accounting_method/{meth}.py with an AccountingMethod class does not exist", where)
        langs = sorted(set(languages_shipped(iso)) | {lang})
        for g in sorted(gens):
            gmod = f"rp2.plugin.report.{g}"
            gci = prog.classes.get(f"{gmod}:Generator")
            ok = gci is not None and prog.lookup_method(gci, "generate") is not None
            rep.check(ok, ra, ci.module, ci.name, f"{iso}: generator '{g}' is a plugin module with Generator.generate", f"{ci.name} lists report generator '{g}' but {gmod} has no Generator class with generate(): the run exits 1 ('plugins not found')", where)
            if not ok:
                continue
            tname = _template_name(gci)
            rep.check(tname == g.split(".")[-1], ra, gmod, "Generator.generate", f"{g}: template name literal equals the module name", f"{gmod} asks for template '{tname}'; templates are shipped as template_{g.split('.')[-1]}_<lang>", loc(gci.node))
            for lg in langs:
                p, how = template_path(tname or g.split(".")[-1], iso, lg)
                dfl = " (the country's DEFAULT language)" if lg == lang else ""
                rep.check(p is not None, ra, ci.module, ci.name, f"{iso} x {g} x {lg}: template resolves", f"{ci.name} x {g} x language '{lg}'{dfl}: {how}: the run dies with 'Language {lg} not supported for country {iso}'", where, detail=how)
                if p is not None:
                    legend = f"__Legend_{g.split('.')[-1]}"
                    sheets = ods_sheets(str(p))
                    if legend not in sheets:
                        rep.violation(ra, gmod, "template", f"{iso} x {g} x {lg}: legend sheet", f"template {p.name} has no sheet {legend}", where)
                    elif _legend_from_template(gci):
                        anchor = any(r and r[0] == "Accounting Method" for r in sheets[legend][:100])
                        rep.check(anchor or lg not in ("en", "en_IE", "ja"), ra, gmod, "template", f"{iso} x {g} x {lg}: legend has the 'Accounting Method' anchor in column 0", f"template {p.name}: no 'Accounting Method' cell in column 0 of {legend}: _initialize_output_file raises an internal error", where)
        for lg in langs:
            rep.check(locale_available(lg), ra, ci.module, ci.name, f"{iso}: gettext catalogue for '{lg}' is shipped", f"{ci.name}: locales/{lg}/LC_MESSAGES/messages.mo does not exist: set_generation_language('{lg}') raises", where)
    # console scripts
    import configparser

    cp = configparser.ConfigParser()
    cp.read(repo_root() / "setup.cfg")
    scripts = [l.strip() for l in cp.get("options.entry_points", "console_scripts", fallback="").splitlines() if l.strip()]
    if len(scripts) < 5:
        raise AnalysisError("console_scripts not found in setup.cfg")
    for s in scripts:
        name, target = [x.strip() for x in s.split("=", 1)]
        modname, func = target.split(":")
        rep.check(prog.maybe_func(modname, func) is not None, ra, "setup.cfg", "console_scripts", f"console script {name} resolves to {target}", f"console script {name} points to {target}, which does not exist", "")


def _template_name(gci) -> Optional[str]:
    for n in ast.walk(gci.node):
        if isinstance(n, ast.Call) and isinstance(n.func, ast.Attribute) and n.func.attr == "_get_template_path" and n.args and isinstance(n.args[0], ast.Constant):
            return n.args[0].value
    return None


def _legend_from_template(gci) -> bool:
    """True when the generator passes legend_data=[] (the legend text comes from the template itself)."""
    for n in ast.walk(gci.node):
        if isinstance(n, ast.Call) and isinstance(n.func, ast.Attribute) and n.func.attr == "_initialize_output_file":
            for k in n.keywords:
                if k.arg == "legend_data":
                    return unparse(k.value) == "[]"
    return False


def _check_lookups(rep: Report, m) -> None:
    prog = m.prog
    rb = rep.rule("C16.b", "dictionary lookups: every subscript read on a dict-typed value is provably present or a reviewed site", floor=90)
    if not typed.available():
        raise AnalysisError("mypy is not importable: the R-LOOKUP rule needs the type map")
    seen = set()
    for mod, node, ty in lookups.dict_loads(prog):
        reason = lookups.classify(prog, mod, node)
        key = lookups.site_key(mod, node)
        if reason:
            rep.ok(rb, f"{key[0]}:{key[1]}: {key[2][:70]}", reason)
            continue
        if key in REVIEWED:
            seen.add(key)
            rep.ok(rb, f"{key[0]}:{key[1]}: {key[2][:70]} (reviewed)", REVIEWED[key])
            continue
        rep.violation(rb, key[0], key[1], key[2], f"{key[2]} reads a dictionary without a membership guard, a preceding store, or a key drawn from the dictionary itself, and the site is not in the reviewed table: for inputs/options whose key falls outside what the writer stored this is a KeyError (internal error, no report)", loc(node))
    # the reviewed reasons that cite C14 obligations are re-checked here (so that a routing table that loses a type is a C16 violation too)
    types = c14.taxable_types(m)
    for cc, modname in c14.GENS.items():
        t2s = fold_module_const(prog, modname, "_TYPE_TO_SHEET")
        if t2s is UNKNOWN:
            raise AnalysisError(f"{modname}._TYPE_TO_SHEET not foldable")
        missing = sorted(types - {k.member for k in t2s})
        rep.check(not missing, rb, modname, "_TYPE_TO_SHEET", f"{cc}: type->sheet table is total over the types a taxable event can carry", f"{cc.upper()} tax report: no sheet for {missing}: KeyError for any input containing such a row", loc(prog.module_assigns[modname]["_SHEET_TO_TYPES"]))


def _governing_tests(node: ast.AST):
    """[(test, polarity)] of the if statements / conditional expressions that decide whether ``node`` is evaluated (inside its function)."""
    from ..loader import parent

    out = []
    prev, cur = node, parent(node)
    while cur is not None and not isinstance(cur, (ast.FunctionDef, ast.AsyncFunctionDef)):
        if isinstance(cur, ast.IfExp) and prev is not cur.test:
            out.append((cur.test, prev is cur.body))
        elif isinstance(cur, ast.If) and prev is not cur.test:
            out.append((cur.test, prev in cur.body))
        prev, cur = cur, parent(cur)
    return out


def _tests_divisor(test: ast.AST, divisor: str, polarity: bool) -> bool:
    """The test establishes 'divisor is non-zero' on the side the division is on: divisor != / > / is not ZERO (true side), == / is ZERO (false side), bare truthiness."""
    zero = ("ZERO", "_ZERO", "0", "RP2Decimal('0')", "Decimal('0')")
    if isinstance(test, ast.BoolOp) and isinstance(test.op, ast.And) and polarity:
        return any(_tests_divisor(v, divisor, True) for v in test.values)
    if isinstance(test, ast.UnaryOp) and isinstance(test.op, ast.Not):
        return _tests_divisor(test.operand, divisor, not polarity)
    if isinstance(test, ast.Name):
        return polarity and test.id == divisor
    if isinstance(test, ast.Compare) and len(test.ops) == 1:
        a, b, op = unparse(test.left), unparse(test.comparators[0]), test.ops[0]
        if b == divisor and a in zero:
            a, b = b, a
            op = {ast.Gt: ast.Lt(), ast.Lt: ast.Gt(), ast.GtE: ast.LtE(), ast.LtE: ast.GtE()}.get(type(op), op)
        if a != divisor or b not in zero:
            return False
        if polarity:
            return isinstance(op, (ast.NotEq, ast.IsNot, ast.Gt))
        return isinstance(op, (ast.Eq, ast.Is, ast.LtE))
    return False


def _check_divisions(rep: Report, m) -> None:
    prog = m.prog
    rc = rep.rule("C16.c", "divisions: every division with a decimal operand has a reviewed non-zero divisor; identity tests on decimals are not guards", floor=8)
    for mod in prog.package.modules.values():
        for node in ast.walk(mod.tree):
            if isinstance(node, ast.BinOp) and isinstance(node.op, (ast.Div, ast.FloorDiv, ast.Mod)):
                tl, tr = typed.type_of(mod.name, node.left) or "", typed.type_of(mod.name, node.right) or ""
                if "Decimal" not in tl and "Decimal" not in tr:
                    if "Path" in tl or "Path" in tr or "str" in tl:
                        continue
                    if isinstance(node.op, ast.Mod):
                        continue
                    if not tl and not tr:
                        continue
                    if "int" in tl and "int" in tr or "float" in tl or "float" in tr:
                        rep.note(f"{mod.name}:{_qual(node)}: non-decimal division {short(node, 60)} not judged")
                    continue
                key = (mod.name, _qual(node), unparse(node.right))
                if key in DIVISIONS:
                    if DIVISIONS[key].startswith("GUARDED"):
                        tests = _governing_tests(node)
                        dv = unparse(node.right)
                        guards = [t for t, pol in tests if _tests_divisor(t, dv, pol)]
                        rep.check(
                            bool(guards),
                            rc,
                            key[0],
                            key[1],
                            f"{key[0]}:{key[1]}: / {key[2][:50]} is under a non-zero test of the divisor",
                            f"{short(node, 100)} is governed by {[short(t, 60) for t, _ in tests] or 'no condition'}, none of which tests the divisor '{dv}' against zero: for the inputs/options named in the reviewed reason "
                            f"({DIVISIONS[key][9:120]}...) the divisor is zero and the run dies with decimal.InvalidOperation / ZeroDivisionError instead of writing its reports",
                            loc(node),
                        )
                        continue
                    rep.ok(rc, f"{key[0]}:{key[1]}: / {key[2][:50]}", DIVISIONS[key])
                else:
                    rep.violation(rc, key[0], key[1], f"/ {key[2]}", f"{short(node, 100)} divides by {key[2]}, which is not in the reviewed table of non-zero divisors: a zero here is an internal ZeroDivision error instead of a report", loc(node))


def _check_option_rejections(rep: Report, m) -> None:
    """raise / exit whose guard mentions only option-derived values (from_date, to_date, language, method) outside the documented conflicts."""
    prog, norm = m.prog, m.norm
    rd = rep.rule("C16.d", "no rejection depends only on (valid) option values, except the documented conflicts", floor=1)
    documented = {
        ("rp2.configuration", "Configuration.__init__"): "from_date > to_date",
        ("rp2.rp2_main", "_rp2_main_internal"): "-m together with [accounting_methods]; deprecated -l",
    }
    OPTS = {"from_date", "to_date", "generation_language", "MIN_DATE", "MAX_DATE"}
    n = 0
    for fi in prog.iter_functions():
        if not fi.module.startswith("rp2.plugin.report") and (fi.module, fi.qualname) not in documented:
            continue
        for node in ast.walk(fi.node):
            if not isinstance(node, ast.Raise):
                continue
            conds = path_condition(node, None, early_exits=False)
            if not conds:
                continue
            names = set()
            for t, _ in conds:
                names |= {x.id for x in ast.walk(t) if isinstance(x, ast.Name)} | {x.attr for x in ast.walk(t) if isinstance(x, ast.Attribute) and isinstance(x.value, ast.Name) and x.value.id in ("self", "cls", "configuration")}
            names -= {"self", "cls"}
            if names and names <= OPTS and any(o in names for o in ("from_date", "to_date", "generation_language")):
                n += 1
                key = (fi.module, fi.qualname)
                if key in documented:
                    rep.ok(rd, f"{fi.module}:{fi.qualname}: {documented[key]}", "documented conflict")
                else:
                    rep.violation(rd, fi.module, fi.qualname, f"raise under {' and '.join(unparse(t) for t, _ in conds)}", f"{fi.qualname} raises when {' and '.join(unparse(t) for t, _ in conds)}: a rejection that depends only on otherwise valid option values; every valid from/to-date combination must run to completion and write every configured report", loc(node))
    if n == 0:
        rep.ok(rd, "no option-only rejection in the report generators")


def _check_container_mismatch(rep: Report, m) -> None:
    """'K in A' governing a read of K from a container B != A (contradiction rule)."""
    prog = m.prog
    re_ = rep.rule("C16.e", "guard/use agreement: a membership test on one container does not govern a read of the same key from another", floor=1)
    n = 0
    for fi in prog.iter_functions():
        for node in ast.walk(fi.node):
            if not isinstance(node, ast.If):
                continue
            t = node.test
            if not (isinstance(t, ast.Compare) and len(t.ops) == 1 and isinstance(t.ops[0], ast.In)):
                continue
            key_txt, cont_txt = unparse(t.left), unparse(t.comparators[0])
            if not (isinstance(t.left, (ast.Attribute, ast.Constant, ast.Name))):
                continue
            for stmt in node.body:
                for c in ast.walk(stmt):
                    # K passed together with another container to a reader: f(K, B[...]) / B[K]
                    if isinstance(c, ast.Subscript) and unparse(c.slice) == key_txt and unparse(c.value) != cont_txt and isinstance(c.ctx, ast.Load):
                        n += 1
                        rep.violation(re_, fi.module, fi.qualname, f"'{key_txt} in {cont_txt}' guards {unparse(c)}", f"the test '{key_txt} in {cont_txt}' governs the read {unparse(c)} from a different container", loc(c))
                    if isinstance(c, ast.Call) and c.args and unparse(c.args[0]) == key_txt:
                        others = [unparse(a) for a in c.args[1:] if isinstance(a, ast.Subscript) and unparse(a.value) == cont_txt]
                        if others:
                            n += 1
                            rep.violation(
                                re_,
                                fi.module,
                                fi.qualname,
                                f"'{key_txt} in {cont_txt}' guards a read of the same key from {others[0]}",
                                f"the test '{key_txt} in {cont_txt}' asks whether the key is among the entries of {cont_txt}, but the guarded call reads that key from {others[0]} (an element of it): the test is about a different container than the read — the configured value is never honoured (or the read fails)",
                                loc(c),
                            )
    if n == 0:
        rep.ok(re_, "no membership test governs a read from a different container")

"""C04 — proceeds, cost basis and gain of every fraction are arithmetically exact."""

from __future__ import annotations

import ast
import itertools
from decimal import Decimal

from ..consts import UNKNOWN, Folder
from ..loader import AnalysisError, enclosing_function, loc, parent, short, unparse
from ..norm import Ctx, mk_add, mk_mul, mk_neg, show, strip_validators, subterms, tkey
from ..report import Report
from ..rp2model import GIVEN, TYPE_FIELD, effective_field_value, model, simplify
from .. import typed

META = {
    "title": "Proceeds, cost basis and gain of every fraction are arithmetically exact",
    "technique": "normal-form comparison of the three closed-form figures and of every per-class fiat derivation (finite case analysis over which optional "
    "columns are supplied); float-taint rule over mypy's type map (no float operand meets a decimal, every decimal construction takes str/int/Decimal); "
    "structural check of the decimal context and operator guards",
    "explanation": "cost basis = (lot.fiat_in_with_fee * amount) / lot.crypto_in with the division outermost and 0 without a lot; proceeds = "
    "(event.fiat_taxable_amount * amount) / event.crypto_balance_change with the division outermost; gain = proceeds - cost basis; per class and per "
    "combination of supplied/absent optional columns the fiat fields are the exchange-supplied value when given and amount x spot price otherwise "
    "(taxable value: out = sale value excluding fee, fee value for fee-typed; intra = fee value; in = value including fee for earn types); no float-typed "
    "operand reaches decimal arithmetic or a decimal constructor anywhere in src/rp2, floats leave only at output sinks; the decimal context traps float "
    "mixing and has >= 28 digits; every RP2Decimal operator type-checks its operand and re-wraps the exact Decimal result.",
    "not_decided": "the numeric bound (1e-15 relative) and exact re-assembly of parts for run-time values: these bound rounding of run-time quantities; "
    "the structural facts above are the necessary conditions (one correctly rounded product followed by one correctly rounded quotient in a 31-digit context).",
    "assumptions": ["decimal.Decimal arithmetic is correctly rounded to context precision", "mypy's inferred expression types are sound for the annotated code base"],
}


def run(rep: Report, tier: str) -> None:
    m = model()
    prog, norm = m.prog, m.norm
    gl = prog.cls("rp2.gain_loss", "GainLoss")
    g = ("sym", "gl")
    ctx = Ctx(gl.module, gl)
    amount = ("fld", g, "GainLoss.__crypto_amount")
    lot = ("fld", g, "GainLoss.__acquired_lot")
    ev = ("fld", g, "GainLoss.__taxable_event")

    # ---------------------------------------------------------------- C04.a
    r = rep.rule("C04.a", "closed-form figures: cost basis, proceeds (multiply first, divide last), gain", floor=6, follows_calls=True)  # norm.inline enters every property / helper the three figures read
    cb_fi = prog.func(gl.module, "GainLoss.fiat_cost_basis")
    pr_fi = prog.func(gl.module, "GainLoss.taxable_event_fiat_amount_with_fee_fraction")
    gn_fi = prog.func(gl.module, "GainLoss.fiat_gain")
    rep.analysed(cb_fi, pr_fi, gn_fi)
    cb = norm.inline(cb_fi, g, {}, ctx)
    pr = norm.inline(pr_fi, g, {}, ctx)
    gn = norm.inline(gn_fi, g, {}, ctx)
    cb_with = ("div", mk_mul([("fld", lot, "InTransaction.__fiat_in_with_fee"), amount]), ("fld", lot, "InTransaction.__crypto_in"))
    cb_expected = ("ite", ("cmp", "is", lot, ("const", None)), ("const", Decimal(0)), cb_with)
    shape = cb
    if shape[0] == "ite" and shape[1] == ("cmp", "is not", lot, ("const", None)):
        shape = ("ite", ("cmp", "is", lot, ("const", None)), shape[3], shape[2])
    rep.check(shape[0] == "ite" and shape[1] == cb_expected[1] and _is_zero(shape[2]), r, cb_fi.module, cb_fi.qualname, "cost basis is 0 without a lot", f"fiat_cost_basis normalises to {show(cb)[:300]}; expected 0 when there is no acquired lot (income)", loc(cb_fi.node))
    with_lot = shape[3] if shape[0] == "ite" else shape
    while with_lot[0] == "ite" and with_lot[1] in (cb_expected[1], ("cmp", "is not", lot, ("const", None))):
        # the same 'no lot' guard repeated inside the branch that already has a lot (cost basis delegating to a guarded property): the guarded value
        with_lot = with_lot[3] if with_lot[1] == cb_expected[1] else with_lot[2]
    rep.check(with_lot[0] == "div", r, cb_fi.module, cb_fi.qualname, "cost basis: division is the outermost operation", f"cost basis with a lot is {show(with_lot)[:300]}: the quotient must be taken last (multiplying by a rounded quotient loses digits on tiny fractions of huge lots)", loc(cb_fi.node), detail=show(with_lot))
    rep.check(
        tkey(with_lot) == tkey(cb_with),
        r,
        cb_fi.module,
        cb_fi.qualname,
        "cost basis = (lot.fiat_in_with_fee * amount) / lot.crypto_in",
        f"cost basis with a lot normalises to {show(with_lot)[:400]}; expected {show(cb_with)} (the lot's fiat cost including acquisition fee, pro-rated by fraction amount over lot amount)",
        loc(cb_fi.node),
    )
    abstract = m.abstract_transaction
    fta = norm._call_internal(norm._impls(abstract, "fiat_taxable_amount"), ev, {}, ctx, "fiat_taxable_amount")
    cbc = norm._call_internal(norm._impls(abstract, "crypto_balance_change"), ev, {}, ctx, "crypto_balance_change")
    pr_expected = ("div", mk_mul([fta, amount]), cbc)
    rep.check(pr[0] == "div", r, pr_fi.module, pr_fi.qualname, "proceeds: division is the outermost operation", f"proceeds normalise to {show(pr)[:300]}: the quotient must be taken last", loc(pr_fi.node))
    rep.check(
        tkey(pr) == tkey(pr_expected),
        r,
        pr_fi.module,
        pr_fi.qualname,
        "proceeds = (event.fiat_taxable_amount * amount) / event.crypto_balance_change",
        f"proceeds normalise to {_brief(pr)}; expected (event.fiat_taxable_amount * amount) / event.crypto_balance_change (taxable fiat value pro-rated by fraction amount over the event's total outgoing amount)",
        loc(pr_fi.node),
    )
    rep.check(tkey(gn) == tkey(mk_add([pr, mk_neg(cb)])), r, gn_fi.module, gn_fi.qualname, "gain = proceeds - cost basis", f"fiat_gain normalises to {_brief(gn)}; expected proceeds - cost basis of the same fraction", loc(gn_fi.node))

    # ---------------------------------------------------------------- C04.b
    r = rep.rule("C04.b", "per-class fiat derivations by cases over supplied / absent optional columns", floor=20, follows_calls=True)
    classes = m.transaction_classes()
    _check_in(rep, r, m, classes["in"])
    _check_out(rep, r, m, classes["out"])
    _check_intra(rep, r, m, classes["intra"])
    for ci in classes.values():
        _check_read_order(rep, r, m, ci)

    # ---------------------------------------------------------------- C04.c
    _check_float_taint(rep, m, tier)
    _check_decimal_class(rep, m)

    # ---------------------------------------------------------------- C04.e
    from . import c11

    c11.check_split(rep, rep.rule("C04.e", "exchange-supplied fiat values survive the crypto-fee split of the parser (every field forwarded)", floor=20))

    # ---------------------------------------------------------------- C04.d
    r = rep.rule("C04.d", "one definition: consumers read the three figures from GainLoss (no percentage-based recomputation inside them)", floor=3)
    for fi, t in ((cb_fi, cb), (pr_fi, pr), (gn_fi, gn)):
        divs = [s for s in subterms(t) if s[0] == "div"]
        nested = [d for d in divs if any(x[0] == "div" for x in subterms(d[1])) or any(x[0] == "div" for x in subterms(d[2]))]
        rep.check(not nested, r, fi.module, fi.qualname, f"{fi.name}: no quotient inside a quotient/product", f"{fi.name} contains a quotient used as an operand ({show(nested[0])[:200] if nested else ''}): a rounded percentage enters the figure", loc(fi.node))


def _brief(t) -> str:
    s = show(t)
    return s if len(s) < 420 else s[:420] + "..."


def _is_zero(t) -> bool:
    return t[0] == "const" and not isinstance(t[1], bool) and isinstance(t[1], (int, Decimal)) and t[1] == 0


def _S(name: str):
    return ("sym", name)


def _cases(names):
    for combo in itertools.product([None, GIVEN], repeat=len(names)):
        yield dict(zip(names, combo))


def _eff(m, defs, field, env):
    d = defs.get(field)
    if not d:
        raise AnalysisError(f"field {field} has no definition in the constructor")
    v = effective_field_value(m, d, env)
    return _collapse_zero_default(strip_validators(v)) if v is not None else None


def _collapse_zero_default(t):
    """`x if x else ZERO` is x for a decimal x (a decimal is falsy exactly when it is zero); the same with a validator around x was stripped before."""
    if not isinstance(t, tuple) or not t:
        return t
    t = tuple(_collapse_zero_default(x) if isinstance(x, tuple) else x for x in t)
    if t[0] == "ite" and t[1][0] == "truthy" and t[2] == t[1][1] and _is_zero(t[3]):
        return t[2]
    return t


def _fld(cls: str, name: str):
    return ("fld", ("sym", "self"), f"{cls}.__{name}")


SPOT = ("fld", ("sym", "self"), "AbstractTransaction.__spot_price")


def _cmp(rep, r, ci, field, env, got, want, why):
    env_s = ", ".join(f"{k}={'given' if v is GIVEN else 'absent'}" for k, v in env.items())
    rep.check(
        got is not None and tkey(got) == tkey(want),
        r,
        ci.module,
        f"{ci.name}.__init__",
        f"{field} [{env_s}]",
        f"with {env_s}: {field} ends up as {show(got) if got else None}; expected {show(want)} — {why}",
        loc(ci.node),
        detail=show(want),
    )


def _check_read_order(rep, r, m, ci) -> None:
    """The case analysis above evaluates each field from its definitions; that is only the value *used* by a later definition when
    no field is (re)defined after a statement that already read it (constructors are straight-line: source order = execution order)."""
    defs = m.field_defs(ci)
    init = m.init_of(ci)
    last_def: Dict[str, ast.AST] = {}
    for fld, ds in defs.items():
        for _, _, node in ds:
            if fld not in last_def or (node.lineno, node.col_offset) > (last_def[fld].lineno, last_def[fld].col_offset):
                last_def[fld] = node
    n = 0
    for fld, ds in defs.items():
        for _, val, node in ds:
            for s2 in subterms(val):
                if s2[0] == "fld" and s2[1] == ("sym", "self") and s2[2] in last_def and s2[2] != fld:
                    later = last_def[s2[2]]
                    n += 1
                    ok = (later.lineno, later.col_offset) < (node.lineno, node.col_offset)
                    rep.check(
                        ok,
                        r,
                        ci.module,
                        init.qualname,
                        f"{fld.split('.__')[-1]} reads {s2[2].split('.__')[-1]} after its last definition",
                        f"{short(node, 90)} reads {s2[2]} but that field is (re)defined later in the constructor by {short(later, 90)}: the value read is the provisional one "
                        "(e.g. a fee still ZERO before the crypto fee is converted), so the derived figure and every cost basis computed from it are wrong",
                        loc(node),
                    )
    if n == 0:
        rep.ok(r, f"{ci.name}: no constructor definition reads another field", "")
    for c in m.prog.mro(ci):
        if "__init__" in c.methods and c.module.startswith("rp2."):
            _check_params_unchanged(rep, r, m, c)


# parameter rebindings confirmed by reading: (class, parameter, assigned value) -> why the stored value is still the supplied one
REVIEWED_REBINDINGS = {
    ("IntraTransaction", "spot_price", "ZERO"): "only when spot_price is None or already == ZERO and the fee is zero (guard decided by C12.b): a supplied non-zero price is never replaced",
}


def _check_params_unchanged(rep, r, m, ci) -> None:
    """The case analysis treats each parameter as the supplied cell (or None when the column is absent). That is the value a field definition reads only
    when the constructor does not rebind the parameter first: a rebinding reachable with a supplied value replaces the exchange's figure."""
    from ..loader import ancestors

    init = ci.methods["__init__"]
    params = {a.arg for a in init.node.args.args + init.node.args.kwonlyargs} - {"self"}
    found = 0
    for n in ast.walk(init.node):
        if not (isinstance(n, ast.Name) and isinstance(n.ctx, (ast.Store, ast.Del)) and n.id in params):
            continue
        found += 1
        stmt = next((a for a in [n] + list(ancestors(n)) if isinstance(a, ast.stmt)), None)
        value = unparse(getattr(stmt, "value", None)) if stmt is not None else "?"
        if (ci.name, n.id, value) in REVIEWED_REBINDINGS:
            rep.ok(r, f"{ci.name}.__init__: {n.id} = {value} (reviewed)", REVIEWED_REBINDINGS[(ci.name, n.id, value)])
            continue
        # a rebinding that can only happen when the parameter is None is a default fill the case analysis cannot see: unknown idiom, not a located violation
        only_absent = False
        cur = stmt
        for a in ancestors(stmt):
            if isinstance(a, ast.If) and cur in a.body and unparse(a.test) in (f"{n.id} is None", f"not {n.id}"):
                only_absent = True
            cur = a
            if a is init.node:
                break
        if only_absent:
            rep.defer_error(f"{loc(stmt)}: {ci.name}.__init__ fills parameter '{n.id}' in place when it is absent ({short(stmt, 80)}): the case analysis of the defaults reads parameters as supplied and does not know this idiom")
            continue
        rep.violation(
            r,
            ci.module,
            init.qualname,
            f"parameter {n.id} rebound before it is stored",
            f"{short(stmt, 110)} replaces the constructor parameter '{n.id}' on a path that a supplied value can take: the field stored afterwards is no longer the exchange-supplied "
            f"{n.id} for every input (the value is dropped or altered for some of them), so the transaction RP2 computes on is not the spreadsheet row",
            loc(stmt),
        )
    if not found:
        rep.ok(r, f"{ci.name}.__init__: no parameter is rebound before it is stored", "")


def _check_in(rep, r, m, ci):
    defs = m.field_defs(ci)
    rep.analysed(m.init_of(ci))
    C = ci.name
    for env in _cases(["crypto_fee", "fiat_fee", "fiat_in_no_fee", "fiat_in_with_fee"]):
        if env["crypto_fee"] is GIVEN and env["fiat_fee"] is GIVEN:
            if env["fiat_in_no_fee"] is None and env["fiat_in_with_fee"] is None:
                rejected = any(simplify(m, g, env) == ("const", True) for g, _ in m.raises_in(m.init_of(ci), early_exits=False))
                rep.check(rejected, r, ci.module, f"{C}.__init__", "both crypto_fee and fiat_fee supplied => rejected", "with both crypto_fee and fiat_fee supplied no raise is reached: one of the two fee figures would silently override the other in the cost basis", loc(ci.node))
            continue
        cf = _eff(m, defs, f"{C}.__crypto_fee", env)
        _cmp(rep, r, ci, "crypto_fee", {k: env[k] for k in ("crypto_fee",)}, cf, _S("crypto_fee") if env["crypto_fee"] is GIVEN else ("const", Decimal(0)), "the crypto fee is the supplied one, else 0")
        ff = _eff(m, defs, f"{C}.__fiat_fee", env)
        if env["fiat_fee"] is GIVEN:
            want = _S("fiat_fee")
        elif env["crypto_fee"] is GIVEN:
            want = mk_mul([_fld(C, "crypto_fee"), SPOT])
        else:
            want = ("const", Decimal(0))
        _cmp(rep, r, ci, "fiat_fee", {k: env[k] for k in ("crypto_fee", "fiat_fee")}, ff, want, "exchange-supplied fiat fee when given, crypto fee x spot price when only the crypto fee is given, else 0")
        nf = _eff(m, defs, f"{C}.__fiat_in_no_fee", env)
        want = _S("fiat_in_no_fee") if env["fiat_in_no_fee"] is GIVEN else mk_mul([_fld(C, "crypto_in"), SPOT])
        _cmp(rep, r, ci, "fiat_in_no_fee", {"fiat_in_no_fee": env["fiat_in_no_fee"]}, nf, want, "exchange-supplied value when given, else crypto_in x spot price")
        wf = _eff(m, defs, f"{C}.__fiat_in_with_fee", env)
        want = _S("fiat_in_with_fee") if env["fiat_in_with_fee"] is GIVEN else mk_add([_fld(C, "fiat_in_no_fee"), _fld(C, "fiat_fee")])
        _cmp(rep, r, ci, "fiat_in_with_fee", {"fiat_in_with_fee": env["fiat_in_with_fee"]}, wf, want, "exchange-supplied value when given, else fiat_in_no_fee + fiat_fee (cost including acquisition fee)")
    f = m.prog.lookup_method(ci, "fiat_taxable_amount")
    t = m.norm.inline(f, ("sym", "self"), {}, Ctx(f.module, f.cls))
    earn = m.earn_set()
    want = ("ite", ("cmp", "in", ("fld", ("sym", "self"), TYPE_FIELD), ("const", earn)), _fld(C, "fiat_in_with_fee"), ("const", Decimal(0)))
    rep.check(tkey(t) == tkey(want), r, ci.module, f"{C}.fiat_taxable_amount", "IN taxable value = fiat_in_with_fee for earn types, else 0", f"{C}.fiat_taxable_amount normalises to {show(t)[:300]}; expected fiat_in_with_fee when earn-typed else 0", loc(f.node))


def _check_out(rep, r, m, ci):
    defs = m.field_defs(ci)
    rep.analysed(m.init_of(ci))
    C = ci.name
    for env in _cases(["crypto_out_with_fee", "fiat_out_no_fee", "fiat_fee"]):
        v = _eff(m, defs, f"{C}.__crypto_out_with_fee", env)
        want = _S("crypto_out_with_fee") if env["crypto_out_with_fee"] is GIVEN else mk_add([_fld(C, "crypto_out_no_fee"), _fld(C, "crypto_fee")])
        _cmp(rep, r, ci, "crypto_out_with_fee", {"crypto_out_with_fee": env["crypto_out_with_fee"]}, v, want, "exchange-supplied total when given, else crypto_out_no_fee + crypto_fee (the full amount leaving the holder)")
        v = _eff(m, defs, f"{C}.__fiat_out_no_fee", env)
        want = _S("fiat_out_no_fee") if env["fiat_out_no_fee"] is GIVEN else mk_mul([_fld(C, "crypto_out_no_fee"), SPOT])
        _cmp(rep, r, ci, "fiat_out_no_fee", {"fiat_out_no_fee": env["fiat_out_no_fee"]}, v, want, "exchange-supplied sale value when given, else crypto_out_no_fee x spot price")
        v = _eff(m, defs, f"{C}.__fiat_fee", env)
        want = _S("fiat_fee") if env["fiat_fee"] is GIVEN else mk_mul([_fld(C, "crypto_fee"), SPOT])
        _cmp(rep, r, ci, "fiat_fee", {"fiat_fee": env["fiat_fee"]}, v, want, "exchange-supplied fee value when given, else crypto_fee x spot price")
    # amounts are the validated parameters in both type branches
    for fld, par in (("crypto_out_no_fee", "crypto_out_no_fee"), ("crypto_fee", "crypto_fee")):
        d = defs.get(f"{C}.__{fld}", [])
        vals = {tkey(strip_validators(v)) for _, v, _ in d}
        rep.check(bool(d) and vals == {tkey(_S(par))}, r, ci.module, f"{C}.__init__", f"{fld} = validated parameter", f"{C}.__{fld} is defined as {[show(strip_validators(v)) for _, v, _ in d]}; expected the validated '{par}' parameter in every branch", loc(ci.node))
    f = m.prog.lookup_method(ci, "fiat_taxable_amount")
    t = m.norm.inline(f, ("sym", "self"), {}, Ctx(f.module, f.cls))
    fee = [x for x in m.tt_members() if x.member == "FEE"][0]
    want = ("ite", ("cmp", "==", ("fld", ("sym", "self"), TYPE_FIELD), ("const", fee)), _fld(C, "fiat_fee"), _fld(C, "fiat_out_no_fee"))
    alt = ("ite", ("cmp", "!=", ("fld", ("sym", "self"), TYPE_FIELD), ("const", fee)), _fld(C, "fiat_out_no_fee"), _fld(C, "fiat_fee"))
    rep.check(tkey(t) in (tkey(want), tkey(alt)), r, ci.module, f"{C}.fiat_taxable_amount", "OUT taxable value = fee value for fee-typed, else sale value excluding fee", f"{C}.fiat_taxable_amount normalises to {show(t)[:300]}; expected fiat_fee when type is FEE else fiat_out_no_fee", loc(f.node))


def _check_intra(rep, r, m, ci):
    defs = m.field_defs(ci)
    rep.analysed(m.init_of(ci))
    C = ci.name
    cf = defs.get(f"{C}.__crypto_fee", [])
    want_cf = mk_add([_fld(C, "crypto_sent"), mk_neg(_fld(C, "crypto_received"))])
    rep.check(len(cf) == 1 and tkey(cf[0][1]) == tkey(want_cf), r, ci.module, f"{C}.__init__", "INTRA crypto_fee = sent - received", f"{C}.__crypto_fee is {[show(v) for _, v, _ in cf]}; expected crypto_sent - crypto_received", loc(ci.node))
    ff = defs.get(f"{C}.__fiat_fee", [])
    want_ff = mk_mul([_fld(C, "crypto_fee"), SPOT])
    rep.check(len(ff) == 1 and tkey(ff[0][1]) == tkey(want_ff), r, ci.module, f"{C}.__init__", "INTRA fiat_fee = crypto_fee x spot price", f"{C}.__fiat_fee is {[show(v) for _, v, _ in ff]}; expected crypto_fee * spot_price", loc(ci.node))
    for fld, par in (("crypto_sent", "crypto_sent"), ("crypto_received", "crypto_received")):
        d = defs.get(f"{C}.__{fld}", [])
        rep.check(len(d) == 1 and tkey(strip_validators(d[0][1])) == tkey(_S(par)), r, ci.module, f"{C}.__init__", f"{fld} = validated parameter", f"{C}.__{fld} is {[show(v) for _, v, _ in d]}; expected the validated '{par}' parameter", loc(ci.node))
    f = m.prog.lookup_method(ci, "fiat_taxable_amount")
    t = m.norm.inline(f, ("sym", "self"), {}, Ctx(f.module, f.cls))
    rep.check(tkey(t) == tkey(_fld(C, "fiat_fee")), r, ci.module, f"{C}.fiat_taxable_amount", "INTRA taxable value = fee value", f"{C}.fiat_taxable_amount normalises to {show(t)}; expected the fiat fee", loc(f.node))
    # spot price of the base class is the validated parameter
    ab = m.abstract_transaction
    d = m.field_defs(ab).get("AbstractTransaction.__spot_price", [])
    rep.check(len(d) == 1 and tkey(strip_validators(d[0][1])) == tkey(_S("spot_price")), r, ab.module, "AbstractTransaction.__init__", "spot_price = validated parameter", f"AbstractTransaction.__spot_price is {[show(v) for _, v, _ in d]}; expected the validated 'spot_price' parameter", loc(ab.node))
    inn = m.transaction_classes()["in"]
    d = m.field_defs(inn).get("InTransaction.__crypto_in", [])
    vals = {tkey(strip_validators(v)) for _, v, _ in d}
    rep.check(bool(d) and vals == {tkey(_S("crypto_in"))}, r, inn.module, "InTransaction.__init__", "crypto_in = validated parameter", f"InTransaction.__crypto_in is {[show(strip_validators(v)) for _, v, _ in d]}; expected the validated 'crypto_in' parameter", loc(inn.node))


# ------------------------------------------------------------------ C04.c
FLOAT_SINKS = {
    # function -> reason a float() conversion is legitimate there
    "rp2.plugin.report.abstract_ods_generator:AbstractODSGenerator._fill_cell": "single output sink: ezodf cells take floats",
}


def _base(ty: str) -> str:
    """Last dotted component of a mypy type string without Optional/None decoration."""
    ty = ty.replace(" | None", "").replace("Optional[", "").rstrip("]").rstrip("?")
    return ty.split(".")[-1]


def _is_decimalish(ty: str) -> bool:
    return "Decimal" in ty


def _check_float_taint(rep: Report, m, tier: str) -> None:
    prog = m.prog
    r = rep.rule("C04.c", "no binary floating point enters decimal arithmetic or a decimal constructor; floats leave only at output sinks", floor=40)
    have_mypy = typed.available()
    if not have_mypy:
        rep.note("mypy not importable in this environment: C04.c falls back to annotation-driven inference (weaker)")
    n_ctor = n_ops = 0
    for mod in prog.package.modules.values():
        for node in ast.walk(mod.tree):
            fn = enclosing_function(node)
            qual = _qual(node)
            # decimal constructions
            if isinstance(node, ast.Call) and unparse(node.func).split(".")[-1] in ("RP2Decimal", "Decimal") and node.args:
                n_ctor += 1
                arg = node.args[0]
                ty = typed.type_of(mod.name, arg) if have_mypy else None
                bad = None
                if isinstance(arg, ast.Constant) and isinstance(arg.value, float):
                    bad = "a float literal"
                elif ty is not None and _base(ty) == "float":
                    bad = f"an expression of type {ty}"
                elif isinstance(arg, ast.Call) and unparse(arg.func) == "float":
                    bad = "a float() conversion"
                elif ty is not None and not (_is_decimalish(ty) or _base(ty) in ("str", "int") or ty.startswith("Literal[")):
                    if "Any" in ty and isinstance(arg, ast.JoinedStr):
                        bad = None
                    elif "Any" in ty:
                        bad = f"an untyped value ({ty})"
                    else:
                        bad = f"an expression of type {ty}"
                rep.check(bad is None, r, mod.name, qual, f"decimal built from str/int/Decimal: {short(node, 70)}", f"{short(node)} constructs a decimal from {bad}: binary floating point enters the computation", loc(node))
            # float() conversions
            if isinstance(node, ast.Call) and unparse(node.func) == "float":
                fq = _fq(prog, mod, node)
                in_fstring = any(isinstance(a, ast.FormattedValue) for a in _ancestors(node))
                ok = fq in FLOAT_SINKS or in_fstring
                rep.check(ok, r, mod.name, qual, f"float() only at an output sink: {short(node, 60)}", f"{short(node)} converts to float outside the enumerated output sinks ({', '.join(k.split(':')[1] for k in FLOAT_SINKS)}, or directly inside a format string): the value may flow back into computation", loc(node))
            # float literals meeting decimals / typed operands
            if isinstance(node, (ast.BinOp, ast.Compare, ast.AugAssign)) and have_mypy:
                ops = [node.left, node.right] if isinstance(node, ast.BinOp) else ([node.left] + list(node.comparators) if isinstance(node, ast.Compare) else [node.target, node.value])
                tys = [typed.type_of(mod.name, o) or "" for o in ops]
                if any(_is_decimalish(t) for t in tys):
                    n_ops += 1
                    fl = [t for t in tys if _base(t) == "float"]
                    lit = [o for o in ops if isinstance(o, ast.Constant) and isinstance(o.value, float)]
                    rep.check(not fl and not lit, r, mod.name, qual, f"decimal op has no float operand: {short(node, 60)}", f"{short(node)} mixes a decimal with a float operand (types {tys})", loc(node))
    if n_ctor < 5:
        raise AnalysisError(f"C04.c matched only {n_ctor} decimal constructions; expected >= 5")
    rep.note(f"C04.c examined {n_ctor} decimal constructions and {n_ops} decimal-typed operator sites" + ("" if have_mypy else " (untyped fallback)"))


def _check_decimal_class(rep: Report, m) -> None:
    prog = m.prog
    r = rep.rule("C04.c2", "decimal context (precision, FloatOperation trap) and type-checked, exact operators of RP2Decimal", floor=10)
    ci = prog.cls("rp2.rp2_decimal", "RP2Decimal")
    prec = None
    trap = False
    for stmt in ci.node.body:
        if isinstance(stmt, ast.Assign) and len(stmt.targets) == 1:
            tgt = unparse(stmt.targets[0])
            if tgt == "getcontext().prec":
                prec = Folder(prog, ci.module).fold(stmt.value)
            if tgt == "getcontext().traps[FloatOperation]":
                trap = Folder(prog, ci.module).fold(stmt.value) is True
    rep.check(prec is not UNKNOWN and isinstance(prec, int) and prec >= 28, r, ci.module, "RP2Decimal", "context precision >= 28 digits", f"decimal context precision folds to {prec}; the 1e-15 relative bound over 1e-11..1e9 x 1e-8..1e7 needs >= 28 significant digits", loc(ci.node), detail=str(prec))
    rep.check(trap, r, ci.module, "RP2Decimal", "FloatOperation trap enabled", "getcontext().traps[FloatOperation] is not set to True in the class body: mixing floats with decimals would no longer raise", loc(ci.node))
    for name in ("__add__", "__sub__", "__mul__", "__truediv__", "__radd__", "__rsub__", "__rmul__", "__rtruediv__", "__neg__"):
        fi = ci.methods.get(name)
        if fi is None:
            rep.violation(r, ci.module, f"RP2Decimal.{name}", f"RP2Decimal.{name} defined", f"RP2Decimal.{name} is missing: results would decay to plain Decimal with different comparison semantics", loc(ci.node))
            continue
        rets = [n for n in ast.walk(fi.node) if isinstance(n, ast.Return) and n.value is not None]
        want = f"RP2Decimal(Decimal.{name}(self, other))" if name != "__neg__" else "RP2Decimal(Decimal.__neg__(self))"
        exact = bool(rets) and all(unparse(x.value) == want for x in rets)
        if not exact:
            # read through helpers: the operator's value as a term must be RP2Decimal(<Decimal's own operator on the same operands>) and nothing else
            params = fi.param_names[1:]
            t = m.norm.inline(fi, ("sym", "self"), {p_: (("sym", p_), ("cls", "decimal:Decimal")) for p_ in params}, Ctx(fi.module, ci))
            want_t = ("new", "rp2.rp2_decimal:RP2Decimal", (("#0", ("xcall", f"decimal.Decimal.{name}", None, tuple([("sym", "self")] + [("sym", p_) for p_ in params]), ())),))
            exact = tkey(t) == tkey(want_t)
            if not exact and t[0] != "call":
                rep.violation(r, ci.module, fi.qualname, f"{name}: operand type-checked, exact Decimal result re-wrapped", f"RP2Decimal.{name} evaluates to {show(t)[:260]}; expected RP2Decimal(Decimal.{name}(self, other)) and nothing else: any rounding, snapping to zero or re-scaling inside an operator changes every amount computed with it", loc(fi.node), definite=True)
                continue
        guard_ok = name == "__neg__" or any(
            isinstance(n, ast.If) and "isinstance(other, Decimal)" in unparse(n.test) and any(isinstance(b, ast.Raise) for b in n.body) for n in ast.walk(fi.node)
        )
        rep.check(exact and guard_ok, r, ci.module, fi.qualname, f"{name}: operand type-checked, exact Decimal result re-wrapped", f"RP2Decimal.{name} no longer returns RP2Decimal(Decimal.{name}(self, other)) after an isinstance(other, Decimal) guard", loc(fi.node))


def _ancestors(node):
    from ..loader import ancestors

    return list(ancestors(node))


def _qual(node: ast.AST) -> str:
    from ..loader import enclosing_class

    f = enclosing_function(node)
    c = enclosing_class(node)
    return f"{c.name + '.' if c else ''}{f.name if f else '<module>'}"


def _fq(prog, mod, node) -> str:
    return f"{mod.name}:{_qual(node)}"

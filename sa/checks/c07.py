"""C07 — account balances equal the flows of each account and reconcile with unsold lots."""

from __future__ import annotations

import ast
from typing import Any, Dict, List, Optional, Tuple

from ..loader import AnalysisError, loc, short, unparse
from ..norm import Ctx, Term, mk_add, mk_neg, show, subterms, tkey
from ..report import Report
from ..rp2model import model
from ..symexec import SPath, SymExec, delta_of, read_epochs

META = {
    "title": "Account balances equal the flows of each account and reconcile with unsold lots",
    "technique": "path-sensitive effect summaries of the balance replay loop per transaction class (additive deltas per dictionary slot), checked against "
    "the statement's flow table and against the algebraic identity final = acquired + received - sent as an inductive invariant by cases; "
    "role inference of the four dictionaries from the Balance(...) construction; comparison-polarity rule at the to-date; cross-check of the replayed "
    "net flow against the amount the matcher consumes (normal forms)",
    "explanation": "per transaction class the replay adds exactly: IN acquired[to]+=crypto_in, final[to]+=crypto_in; INTRA sent[from]+=sent, received[to]+=received, "
    "final[from]-=sent, final[to]+=received; OUT sent[from]+=out_no_fee+fee, final[from]-=(out_no_fee+fee), with from/to accounts built from the matching "
    "exchange/holder fields; in every branch and for every slot delta(final) = delta(acquired)+delta(received)-delta(sent), all four start from zero, so the "
    "identity holds for all inputs; every touched account is a key of final and yields exactly one Balance with name-aligned figures; the replay runs over the "
    "three unfiltered tables in time order and stops strictly after the to-date; per-holder totals accumulate final balances by the balance's own holder; the net "
    "flow replayed per class equals the amount the lot matcher consumes for that class.",
    "restated": 'every out-transaction and fee-bearing transfer is a taxable event (C03.a, c); the entry-set iterator cuts the reported transactions on the own calendar date like the replay (C10.a)',
    "not_decided": "numeric equality of decimal sums at run time; reconciliation when the to-date cuts inside a disposal's lot consumption.",
    "assumptions": ["dict semantics (unique keys, .get default)", "sorted() is stable and total on distinct timestamps"],
}

BAL_MOD = "rp2.balance"


class BalanceModel:
    """Role-resolved effect summaries of BalanceSet.__init__."""

    def __init__(self) -> None:
        self.m = model()
        prog, norm = self.m.prog, self.m.norm
        self.fi = prog.func(BAL_MOD, "BalanceSet.__init__")
        self.ctx = norm.ctx_for(self.fi, subst_locals=False)
        loops = [n for n in self.fi.node.body if isinstance(n, ast.For)]
        self.replay = None
        self.output = None
        for lp in loops:
            txt = " ".join(unparse(s) for s in lp.body)
            if "isinstance" in txt:
                self.replay = lp
            elif "Balance(" in txt:
                self.output = lp
        if self.replay is None or self.output is None:
            raise AnalysisError("BalanceSet.__init__: replay loop (isinstance dispatch) or output loop (Balance construction) not found")
        self.classes = self.m.transaction_classes()
        self._roles()
        self._paths()

    # dictionaries' roles from Balance(...) in the output loop
    def _roles(self) -> None:
        norm = self.m.norm
        se = SymExec(norm, self.ctx)
        init = SPath()
        it, ity = norm.eval(self.output.iter, self.ctx)
        # for account, final_balance in <final>.items()
        if not (it[0] == "xcall" and it[1] == "items" and it[2] is not None):
            raise AnalysisError(f"output loop iterates {show(it)}; expected <final balances dict>.items()")
        self.final = it[2]
        tgt = self.output.target
        if not (isinstance(tgt, ast.Tuple) and len(tgt.elts) == 2 and all(isinstance(e, ast.Name) for e in tgt.elts)):
            raise AnalysisError("output loop target is not (account, final_balance)")
        self.acc_var, self.val_var = tgt.elts[0].id, tgt.elts[1].id
        init.vars[self.acc_var] = (("sym", self.acc_var), ("cls", f"{BAL_MOD}:Account"))
        init.vars[self.val_var] = (("sym", self.val_var), ("cls", "rp2.rp2_decimal:RP2Decimal"))
        self.out_paths = se.run(self.output.body, init)
        bal_cls = self.m.prog.cls(BAL_MOD, "Balance")
        news = []
        for p in self.out_paths:
            for e in p.events:
                for s in subterms(e[1] if e[0] == "call" else (e[2] if e[0] == "local" else ("const", 0))):
                    if s[0] == "new" and s[1] == bal_cls.fq:
                        news.append(s)
        uniq = {tkey(n): n for n in news}
        if len(uniq) != 1:
            raise AnalysisError(f"expected exactly one Balance(...) construction per output iteration, found {len(uniq)}")
        self.balance_new = list(uniq.values())[0]
        kw = dict(self.balance_new[2])
        self.roles: Dict[str, Term] = {"final": self.final}
        for role, param in (("acquired", "acquired_balance"), ("sent", "sent_balance"), ("received", "received_balance")):
            v = kw.get(param)
            if v is None or v[0] != "old" or v[2] != ("sym", self.acc_var):
                raise AnalysisError(f"Balance({param}=...) is {show(v) if v else None}; expected <dict>.get(account, ZERO) / <dict>[account]")
            self.roles[role] = v[1]
        self.balance_kw = kw

    def replay_iterable(self) -> Term:
        """Term of the list the replay loop iterates, with the straight-line local definitions before the loop substituted."""
        body = self.fi.node.body
        before = body[: body.index(self.replay)]
        states = [p for p in SymExec(self.m.norm, self.ctx).run(before) if p.exit == "fall"]
        if len(states) != 1:
            raise AnalysisError(f"BalanceSet.__init__: {len(states)} paths reach the replay loop; expected straight-line set-up code")
        return SymExec(self.m.norm, self.ctx).eval(self.replay.iter, states[0])[0]

    def role_of(self, container: Term) -> Optional[str]:
        for role, c in self.roles.items():
            if tkey(c) == tkey(container):
                return role
        return None

    def _paths(self) -> None:
        norm = self.m.norm
        se = SymExec(norm, self.ctx)
        init = SPath()
        if not isinstance(self.replay.target, ast.Name):
            raise AnalysisError("replay loop target is not a single name")
        self.tx_var = self.replay.target.id
        init.vars[self.tx_var] = (("sym", self.tx_var), ("cls", "rp2.abstract_transaction:AbstractTransaction"))
        # a flag or bound read once into a local before the loop (x = configuration.allow_negative_balances) stands for that read: only plain reads of
        # the constructor's parameters (field / attribute chains, constants), only names the loop does not rebind
        body = self.fi.node.body
        pre = [p for p in SymExec(norm, self.ctx).run(body[: body.index(self.replay)]) if p.exit == "fall"]
        rebound = {n.id for st in self.replay.body for n in ast.walk(st) if isinstance(n, ast.Name) and isinstance(n.ctx, ast.Store)}

        def plain_read(t) -> bool:
            if not isinstance(t, tuple) or not t:
                return False
            if t[0] == "const":
                return True
            if t[0] == "sym":
                return isinstance(t[1], str) and t[1] in self.fi.param_names
            if t[0] in ("fld", "attr"):
                return plain_read(t[1])
            return False

        if len(pre) == 1:
            for name, (val, ty) in pre[0].vars.items():
                if name not in rebound and name != self.tx_var and val[0] in ("fld", "attr") and plain_read(val):
                    init.vars[name] = (val, ty)
        self.paths = se.run(self.replay.body, init)

    def _isinstance_value(self, cond: Term, K) -> Optional[bool]:
        """Value of an isinstance(tx, C) condition when tx is exactly of class K."""
        t = cond
        if t[0] == "truthy":
            t = t[1]
        if t[0] == "xcall" and t[1] == "isinstance" and len(t[3]) == 2 and t[3][0] == ("sym", self.tx_var):
            c = t[3][1]
            if c[0] == "sym" and c[1].startswith("class:"):
                ci = self.m.prog.classes.get(c[1][6:])
                if ci is not None:
                    return self.m.prog.is_subclass(K, ci)
        return None

    def paths_for(self, kind: str) -> List[SPath]:
        K = self.classes[kind]
        out = []
        for p in self.paths:
            ok = True
            for e in p.events:
                if e[0] == "cond":
                    v = self._isinstance_value(e[1], K)
                    if v is not None and v != e[2]:
                        ok = False
                        break
            if ok:
                out.append(p)
        return out

    def effects(self, p: SPath) -> List[Tuple[str, Term, Term, Any]]:
        """[(role, key, delta, store_event)] for the stores of a path, in order."""
        out = []
        for e in p.stores():
            role = self.role_of(e[1])
            d = delta_of(e[3], e[1], e[2])
            out.append((role, e[2], d, e))
        return out


def account(tx: str, cls: str, ex: str, ho: str) -> Term:
    t = ("sym", tx)
    return ("new", f"{BAL_MOD}:Account", (("exchange", ("fld", t, f"{cls}.__{ex}")), ("holder", ("fld", t, f"{cls}.__{ho}"))))


def spec_effects(tx: str) -> Dict[str, List[Tuple[str, Term, Term]]]:
    t = ("sym", tx)
    f = lambda c, n: ("fld", t, f"{c}.__{n}")  # noqa: E731
    in_to = account(tx, "InTransaction", "exchange", "holder")
    it_from = account(tx, "IntraTransaction", "from_exchange", "from_holder")
    it_to = account(tx, "IntraTransaction", "to_exchange", "to_holder")
    out_from = account(tx, "OutTransaction", "exchange", "holder")
    out_amt = mk_add([f("OutTransaction", "crypto_out_no_fee"), f("OutTransaction", "crypto_fee")])
    return {
        "in": [("acquired", in_to, f("InTransaction", "crypto_in")), ("final", in_to, f("InTransaction", "crypto_in"))],
        "intra": [
            ("sent", it_from, f("IntraTransaction", "crypto_sent")),
            ("received", it_to, f("IntraTransaction", "crypto_received")),
            ("final", it_from, mk_neg(f("IntraTransaction", "crypto_sent"))),
            ("final", it_to, f("IntraTransaction", "crypto_received")),
        ],
        "out": [("sent", out_from, out_amt), ("final", out_from, mk_neg(out_amt))],
    }


def run(rep: Report, tier: str) -> None:
    bm = BalanceModel()
    m = bm.m
    prog, norm = m.prog, m.norm
    fi = bm.fi
    rep.analysed(fi)
    where = loc(bm.replay)

    # ---------------------------------------------------------------- C07.a
    ra = rep.rule("C07.a", "effects of the replay per transaction class equal the statement's flow table", floor=3, follows_calls=True)
    rb = rep.rule("C07.b", "in every branch, for every slot: delta(final) = delta(acquired) + delta(received) - delta(sent); all start at zero", floor=6, follows_calls=True)
    rc = rep.rule("C07.c", "every touched account is a key of final; one Balance per key with name-aligned figures", floor=6, follows_calls=True)
    spec = spec_effects(bm.tx_var)
    for kind in ("in", "intra", "out"):
        normal = [p for p in bm.paths_for(kind) if p.exit in ("fall", "continue")]  # both reach the back edge: a "continue" path is a completed replay of the transaction too
        if not normal:
            raise AnalysisError(f"no normally-completing replay path for {kind}-transactions")
        for p in normal:
            eff = bm.effects(p)
            got = sorted((role or "?", tkey(key), tkey(d) if d is not None else "non-additive") for role, key, d, _ in eff)
            want = sorted((role, tkey(key), tkey(d)) for role, key, d in spec[kind])
            ok = got == want
            detail = "; ".join(f"{role}[{_acc(key)}] += {show(d) if d is not None else '<non-additive>'}" for role, key, d, _ in eff)
            rep.check(
                ok,
                ra,
                fi.module,
                fi.qualname,
                f"{kind}-transaction replay effects",
                f"replaying an {kind.upper()} transaction has effects [{detail}]; the statement requires [" + "; ".join(f"{r}[{_acc(k)}] += {show(d)}" for r, k, d in spec[kind]) + "]",
                where,
                detail=detail,
            )
            # defaults are zero
            for role, key, d, e in eff:
                dflt = e[4]
                rep.check(dflt is None or (dflt[0] == "const" and dflt[1] == 0), rb, fi.module, fi.qualname, f"{role} starts from zero ({kind})", f"{role}[...] is read with default {show(dflt) if dflt else None}; running totals must start from ZERO", loc(e[5]))
            # updates compose when two keys name the same account (e.g. a transfer to self): every read of a dictionary must be
            # at least as recent as the last store into it on this path
            for role, key, d, e in eff:
                stale = [ep for ep in read_epochs(e[3], e[1]) if ep < e[6]]
                rep.check(
                    not stale,
                    rb,
                    fi.module,
                    fi.qualname,
                    f"{role} update reads the current value ({kind})",
                    f"{short(e[5], 90)} stores a value computed from a read of the dictionary that precedes an earlier store into it on the same path: when both keys "
                    "name the same account (transfer to self) the later store overwrites the earlier update and final != acquired + received - sent",
                    loc(e[5]),
                )
            # identity by slot
            by_key: Dict[str, Dict[str, List[Term]]] = {}
            for role, key, d, _ in eff:
                if role is None or d is None:
                    continue
                by_key.setdefault(tkey(key), {}).setdefault(role, []).append(d)
            for k, roles in by_key.items():
                lhs = mk_add(roles.get("final", []))
                rhs = mk_add(roles.get("acquired", []) + roles.get("received", []) + [mk_neg(x) for x in roles.get("sent", [])])
                rep.check(
                    tkey(lhs) == tkey(rhs),
                    rb,
                    fi.module,
                    fi.qualname,
                    f"final = acquired + received - sent preserved ({kind}, one slot)",
                    f"for an {kind.upper()} transaction a slot gets delta(final) = {show(lhs)} but delta(acquired)+delta(received)-delta(sent) = {show(rhs)}: the reported final balance would not equal acquired + received - sent",
                    where,
                )
            touched = {tkey(key) for role, key, d, _ in eff if role in ("acquired", "sent", "received")}
            finals = {tkey(key) for role, key, d, _ in eff if role == "final"}
            rep.check(touched <= finals, rc, fi.module, fi.qualname, f"accounts touched by {kind} are keys of final", f"an {kind.upper()} transaction updates an account in acquired/sent/received that it does not enter into final: that account would be missing from the report", where)
    # four dictionaries initialised empty
    for role, cont in bm.roles.items():
        if cont[0] != "sym":
            raise AnalysisError(f"{role} dictionary is not a local variable: {show(cont)}")
        inits = [n for n in ast.walk(fi.node) if isinstance(n, (ast.Assign, ast.AnnAssign)) and isinstance(getattr(n, "target", None) or n.targets[0], ast.Name) and (getattr(n, "target", None) or n.targets[0]).id == cont[1]]
        ok = len(inits) == 1 and isinstance(inits[0].value, ast.Dict) and not inits[0].value.keys
        rep.check(ok, rb, fi.module, fi.qualname, f"{role} dictionary starts empty", f"the {role} dictionary '{cont[1]}' is not initialised exactly once to an empty dict", loc(inits[0]) if inits else where)

    # output loop: Balance(...) forwarding
    kw = bm.balance_kw
    acc = ("sym", bm.acc_var)
    want_kw = {
        "exchange": ("fld", acc, "Account.exchange"),
        "holder": ("fld", acc, "Account.holder"),
        "final_balance": ("sym", bm.val_var),
    }
    for param, want in want_kw.items():
        got = kw.get(param)
        rep.check(got is not None and tkey(got) == tkey(want), rc, fi.module, fi.qualname, f"Balance.{param} forwarded from the loop's own account/value", f"Balance({param}=...) receives {show(got) if got else None}; expected {show(want)}", loc(bm.output))
    asset = kw.get("asset")
    rep.check(asset is not None and asset[0] == "fld" and asset[2].endswith("__asset"), rc, fi.module, fi.qualname, "Balance.asset is the set's asset", f"Balance(asset=...) receives {show(asset) if asset else None}", loc(bm.output))
    appends = [e for p in bm.out_paths for e in p.calls() if e[1][0] == "xcall" and e[1][1] == "append"]
    one = all(sum(1 for e in p.calls() if e[1][0] == "xcall" and e[1][1] == "append") == 1 for p in bm.out_paths if p.exit == "fall") and all(p.exit == "fall" for p in bm.out_paths)
    rep.check(one and bool(appends), rc, fi.module, fi.qualname, "exactly one Balance appended per account", "an iteration of the output loop does not append exactly one Balance (an account could be dropped or listed twice)", loc(bm.output))

    # ---------------------------------------------------------------- C07.d
    rd = rep.rule("C07.d", "replay covers the three unfiltered tables in time order and stops strictly after the to-date", floor=3)
    it = bm.replay_iterable()
    srcs = {s[2].split(".__")[1] for s in subterms(it) if s[0] == "fld" and s[2].startswith("InputData.__")}
    want_src = {"unfiltered_in_transaction_set", "unfiltered_intra_transaction_set", "unfiltered_out_transaction_set"}
    rep.check(srcs == want_src, rd, fi.module, fi.qualname, "replay iterates the three unfiltered tables", f"the replay iterates {sorted(srcs)}; expected exactly {sorted(want_src)} (balances reflect all history up to the to-date)", where)
    sorted_ok = _sorted_by_timestamp(m, fi, bm.replay)
    rep.check(sorted_ok, rd, fi.module, fi.qualname, "replay list is sorted by timestamp", "the list replayed is not the result of sorted(..., key=<entry timestamp>): the overdraft check and the to-date cut need chronological order", where)
    _check_cut(rep, rd, m, fi, bm, where)

    # ---------------------------------------------------------------- C07.e
    re_ = rep.rule("C07.e", "net flow replayed per class equals the amount the lot matcher consumes for that class", floor=3)
    for kind in ("in", "intra", "out"):
        ci = bm.classes[kind]
        net = mk_add([d for role, key, d in spec[kind] if role == "final"])
        f = prog.lookup_method(ci, "crypto_balance_change")
        cbc = norm.inline(f, ("sym", bm.tx_var), {}, Ctx(f.module, f.cls))
        if kind == "intra":
            defs = m.field_defs(ci).get(cbc[2], []) if cbc[0] == "fld" else []
            if len(defs) == 1:
                cbc = _resubst(defs[0][1], bm.tx_var)
        want = cbc if kind == "in" else mk_neg(cbc)
        rep.check(
            tkey(net) == tkey(want),
            re_,
            ci.module,
            f"{ci.name}.crypto_balance_change",
            f"{kind}: replayed net flow == matched amount",
            f"the balance replay changes the holdings by {show(net)} for an {kind.upper()} transaction while the lot matcher consumes {show(cbc)} (crypto_balance_change): "
            "the sum of final balances differs from the unconsumed lot amounts whenever the two disagree",
            loc(f.node),
        )

    # reconciliation premise: the matcher only consumes what is a taxable event, so every flow the replay debits must be one
    from . import c03, c10

    rg = rep.rule("C07.g", "every out-transaction and every transfer with a non-zero fee is a taxable event (C03.a, C03.c restated): what the replay debits is what the matcher consumes", floor=30)
    sub = Report("C03", tier)
    c03.run(sub, tier)
    rep.absorb(sub, rg, ("C03.a", "C03.c"), "taxable-event set")
    rh = rep.rule("C07.h", "transactions reported for the window are those the replay counted: the entry-set iterator cuts on the own calendar date like the replay", floor=2)
    c10.check_iterator_window(rep, rh, m, "the transactions listed for the period and the flows behind the balances would be cut at different day boundaries")

    # ---------------------------------------------------------------- C07.f
    rf = rep.rule("C07.f", "per-holder totals accumulate each balance's final balance under its own holder", floor=2)
    gen = prog.func("rp2.plugin.report.rp2_full_report", "Generator.__generate_account_balances")
    rep.analysed(gen)
    gctx = norm.ctx_for(gen, subst_locals=False)
    loops = [n for n in gen.node.body if isinstance(n, ast.For)]
    if not loops:
        raise AnalysisError("Generator.__generate_account_balances has no loop")
    first = loops[0]
    se = SymExec(norm, gctx)
    init = SPath()
    var = first.target.id if isinstance(first.target, ast.Name) else None
    if var is None:
        raise AnalysisError("balance loop target is not a name")
    init.vars[var] = (("sym", var), ("cls", f"{BAL_MOD}:Balance"))
    paths = se.run(first.body, init)
    b = ("sym", var)
    good = 0
    for p in paths:
        st = [e for e in p.stores()]
        ok = len(st) == 1 and tkey(st[0][2]) == tkey(("fld", b, "Balance.holder")) and delta_of(st[0][3], st[0][1], st[0][2]) is not None and tkey(delta_of(st[0][3], st[0][1], st[0][2])) == tkey(("fld", b, "Balance.final_balance"))
        rep.check(ok, rf, gen.module, gen.qualname, "totals[balance.holder] += balance.final_balance", f"per-holder totals are updated by {[(show(e[2]), show(delta_of(e[3], e[1], e[2]) or ('unk', 'non-additive'))) for e in st]}; expected totals[balance.holder] += balance.final_balance exactly once per balance", loc(first))
        dflt = st[0][4] if st else None
        rep.check(dflt is None or (dflt[0] == "const" and dflt[1] == 0), rf, gen.module, gen.qualname, "per-holder totals start from zero", f"totals default is {show(dflt) if dflt else None}", loc(first))


def _acc(key: Term) -> str:
    if key[0] == "new":
        return ",".join(show(v).split(".[")[-1].rstrip("]") for _, v in key[2])
    return show(key)


def _resubst(t: Any, var: str) -> Any:
    """field definitions are written over 'self'; rename to the loop variable."""
    if not isinstance(t, tuple):
        return t
    if t == ("sym", "self"):
        return ("sym", var)
    return tuple(_resubst(x, var) for x in t)


def _sorted_by_timestamp(m, fi, loop: ast.For) -> bool:
    """The loop iterates a list in ascending timestamp order: sorted(<list>, key=<entry timestamp>) directly or through a name, or a list built and then
    ordered in place by <name>.sort(key=<entry timestamp>) as the last thing that touches it before the loop."""
    return replay_order(m, fi, loop)[0]


def _last_def(fi, name: str, before: int):
    defs = [n for n in ast.walk(fi.node) if isinstance(n, (ast.Assign, ast.AnnAssign)) and getattr(n, "value", None) is not None and n.lineno < before
            and any(isinstance(t, ast.Name) and t.id == name for t in (n.targets if isinstance(n, ast.Assign) else [n.target]))]
    return max(defs, key=lambda n: n.lineno) if defs else None


def replay_order(m, fi, loop: ast.For):
    """(ascending by timestamp?, expression of the FIRST source of the merged list or None)."""

    def sort_call_ok(call: ast.Call) -> bool:
        rev = [kw.value for kw in call.keywords if kw.arg == "reverse"]
        if any(not (isinstance(r, ast.Constant) and r.value is False) for r in rev):
            return False
        key = [kw.value for kw in call.keywords if kw.arg == "key"]
        return len(key) == 1 and _key_is_timestamp(m, fi, key[0])

    def first_source(e: ast.AST, before: int, depth: int = 0):
        if depth > 6:
            return None
        if isinstance(e, ast.Name):
            d = _last_def(fi, e.id, before)
            return first_source(d.value, d.lineno, depth + 1) if d is not None else None
        if isinstance(e, ast.BinOp) and isinstance(e.op, ast.Add):
            return first_source(e.left, before, depth + 1)
        if isinstance(e, (ast.List, ast.Tuple)) and e.elts:
            f = e.elts[0]
            return first_source(f.value, before, depth + 1) if isinstance(f, ast.Starred) else None
        if isinstance(e, ast.Call):
            fn = unparse(e.func)
            if fn in ("list", "tuple", "iter") and len(e.args) == 1:
                return first_source(e.args[0], before, depth + 1)
            if fn in ("chain", "itertools.chain") and e.args and not any(isinstance(a, ast.Starred) for a in e.args):
                return first_source(e.args[0], before, depth + 1)
            return None
        return e

    it = loop.iter
    if isinstance(it, ast.Call) and isinstance(it.func, ast.Name) and it.func.id == "sorted" and it.args:
        return sort_call_ok(it), first_source(it.args[0], loop.lineno)
    if not isinstance(it, ast.Name):
        return False, None
    name = it.id
    d = _last_def(fi, name, loop.lineno)
    if d is None:
        return False, None
    v = d.value
    if isinstance(v, ast.Call) and isinstance(v.func, ast.Name) and v.func.id == "sorted" and v.args:
        later = [n for n in ast.walk(fi.node) if isinstance(n, ast.Call) and isinstance(n.func, ast.Attribute) and isinstance(n.func.value, ast.Name) and n.func.value.id == name and d.lineno < n.lineno < loop.lineno]
        return sort_call_ok(v) and not later, first_source(v.args[0], d.lineno)
    # built, then ordered in place: exactly one method call on the name between its definition and the loop, and it is .sort(key=<timestamp>)
    touches = [n for n in ast.walk(fi.node) if isinstance(n, ast.Call) and isinstance(n.func, ast.Attribute) and isinstance(n.func.value, ast.Name) and n.func.value.id == name and d.lineno < n.lineno < loop.lineno]
    if len(touches) == 1 and touches[0].func.attr == "sort" and not touches[0].args:
        return sort_call_ok(touches[0]), first_source(v, d.lineno)
    return False, None


def _key_is_timestamp(m, fi, key: ast.AST) -> bool:
    norm = m.norm
    if isinstance(key, ast.Lambda):
        t = norm.term(key, norm.ctx_for(fi))
        body = t[2] if t[0] == "lambda" else None
        return body is not None and body[0] in ("attr", "fld", "virt") and "timestamp" in show(body)
    if isinstance(key, ast.Call) and unparse(key.func) in ("attrgetter", "operator.attrgetter") and len(key.args) == 1 and not key.keywords:
        return isinstance(key.args[0], ast.Constant) and key.args[0].value == "timestamp"  # the entry's own timestamp property
    if isinstance(key, ast.Name):
        res = m.prog.resolve_name(fi.module, key.id)
        if res and res[0] == "func":
            f = res[1]
            t = norm.inline(f, None, {f.param_names[0]: (("sym", "e"), norm.ctx_for(f).vars[f.param_names[0]][1])}, Ctx(f.module, None))
            return (t[0] == "virt" and t[1] == "timestamp") or (t[0] == "fld" and t[2].endswith("__timestamp"))
    return False


def _check_cut(rep, rule, m, fi, bm, where) -> None:
    """first statement effect of the loop body: if <tx>.timestamp.date() > to_date: break"""
    cuts = []
    for p in bm.paths:
        if p.exit == "break":
            cuts.append(p)
    ok = False
    msg = "no 'break' path in the replay loop: transactions after the to-date would be included in the balances"
    for p in cuts:
        conds = [e for e in p.events if e[0] == "cond"]
        if len(conds) == 1 and not p.stores():
            c = conds[0][1] if conds[0][2] else None
            if c is not None and c[0] == "cmp":
                op, a, b = c[1], c[2], c[3]
                from ..norm import FLIP

                if b[0] != "sym" and a[0] == "sym":
                    op, a, b = FLIP[op], b, a
                is_date = a[0] == "xcall" and a[1] == "date" and a[2] is not None and "timestamp" in show(a[2]) and ("sym", bm.tx_var) in list(subterms(a))
                if is_date and b == ("sym", "to_date"):
                    ok = op == ">"
                    msg = f"the replay stops when <transaction date> {op} to_date; the to-date is inclusive, so the cut must be strictly '>'"
                else:
                    msg = f"the replay cut compares {show(a)} with {show(b)}; expected the transaction's own timestamp.date() against to_date"
    rep.check(ok, rule, fi.module, fi.qualname, "cut: transaction.timestamp.date() > to_date => break (before any update)", msg, where)

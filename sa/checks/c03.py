"""C03 — exactly the taxable transactions are taxed, each once and in full."""

from __future__ import annotations

import ast
import datetime

from ..consts import UNKNOWN, fold_module_const
from ..loader import AnalysisError, loc, short, unparse
from ..norm import Ctx, mk_add, mk_neg, show, subterms, tkey
from ..paths import enumerate_paths, path_condition
from ..report import Report
from ..rp2model import ALL_TYPES_SPEC, EARN_SPEC, IN_ALLOWED_SPEC, OUT_ALLOWED_SPEC, TYPE_FIELD, model

META = {
    "title": "Exactly the taxable transactions are taxed, each once and in full",
    "technique": "finite-domain constant propagation over TransactionType (14 members) through the constructors' type guards and is_taxable/is_earning; "
    "table agreement of every earn-type table; structural must-iterate / must-guard / exactly-one-add path rules on the merge and the matching loop; "
    "normal forms of crypto_balance_change",
    "explanation": "Decides, for all 14 transaction types x 3 transaction classes at once: which types each constructor accepts, for which it reports "
    "taxable/earning (compared with the statement's lists); that every earn-type table in the tree equals the earn set; that the merge iterates every "
    "unfiltered table InputData defines and adds exactly the entries whose is_taxable() holds into an unfiltered MIXED set; that every iteration of the "
    "matching loop adds exactly one fraction and the earn branch builds a lot-less fraction for the event's own amount (with the constructor rejecting any other amount); "
    "and that the amount to match is crypto_in / crypto_out_with_fee / sent-received per class.",
    "restated": "the yearly lines count every reported fraction once, under its own type and year (C06.c, d, g)",
    "not_decided": "that ezodf / the entry-set iterators deliver every row (C11's chain); run-time values.",
    "assumptions": ["Enum membership and == on Enum members behave as in CPython", "AbstractEntrySet iteration yields every entry inside [MIN_DATE, MAX_DATE] (C10.a)"],
}


def run(rep: Report, tier: str) -> None:
    m = model()
    prog, norm = m.prog, m.norm
    classes = m.transaction_classes()
    members = {x.member for x in m.tt_members()}

    # ---------------------------------------------------------------- C03.a
    r = rep.rule("C03.a", "allowed / taxable / earning sets per transaction class over all TransactionType members equal the statement", floor=30)
    rep.check(members == ALL_TYPES_SPEC, r, "rp2.entry_types", "TransactionType", "members", f"TransactionType members {sorted(members)} differ from the 14 the property quantifies over {sorted(ALL_TYPES_SPEC)}")
    earn = {e.member for e in m.earn_set()}
    rep.check(earn == EARN_SPEC, r, "rp2.entry_types", "TransactionType.is_earn_type", "earn-type set", f"earn-type set is {sorted(earn)}, statement says {sorted(EARN_SPEC)}", detail=str(sorted(earn)))
    spec_allowed = {"in": IN_ALLOWED_SPEC, "out": OUT_ALLOWED_SPEC, "intra": {"MOVE"}}
    for kind, ci in classes.items():
        rep.analysed(m.init_of(ci))
        allowed, raises = m.allowed_types(ci)
        rep.check(
            allowed == spec_allowed[kind],
            r,
            ci.module,
            f"{ci.name}.__init__",
            f"allowed transaction types of {ci.name}",
            f"{ci.name} accepts {sorted(allowed)}; statement: {sorted(spec_allowed[kind])} (extra {sorted(allowed - spec_allowed[kind])}, missing {sorted(spec_allowed[kind] - allowed)})",
            where=loc(ci.node),
            detail=f"{sorted(allowed)} via {len(raises)} type guard(s)",
        )
        taxable, t_term = m.predicate_members(ci, "is_taxable")
        earning, e_term = m.predicate_members(ci, "is_earning")
        for t in sorted(spec_allowed[kind] & members):
            if kind == "in":
                want_tax = want_earn = t in EARN_SPEC
            elif kind == "out":
                want_tax, want_earn = True, False
            else:
                want_tax, want_earn = None, False  # taxable iff fee > 0: checked structurally below
            if want_tax is not None:
                rep.check(
                    taxable[t] is want_tax,
                    r,
                    ci.module,
                    f"{ci.name}.is_taxable",
                    f"is_taxable({ci.name}, {t})",
                    f"is_taxable() of a {t} {ci.name} evaluates to {taxable[t]} (normal form {show(t_term)}); statement requires {want_tax}",
                )
            rep.check(
                earning[t] is want_earn,
                r,
                ci.module,
                f"{ci.name}.is_earning",
                f"is_earning({ci.name}, {t})",
                f"is_earning() of a {t} {ci.name} evaluates to {earning[t]} (normal form {show(e_term)}); statement requires {want_earn}",
            )
    # intra: taxable <=> fee > 0, on a field defined as (sent - received) * spot
    intra = classes["intra"]
    _, t_term = m.predicate_members(intra, "is_taxable")
    defs = m.field_defs(intra)
    ok_shape = t_term[0] == "cmp" and t_term[1] == ">" and t_term[3] == ("const", 0) or (
        t_term[0] == "cmp" and t_term[1] == ">" and t_term[3][0] == "const" and t_term[3][1] == 0
    )
    fee_field = t_term[2][2] if ok_shape and t_term[2][0] == "fld" else None
    rep.check(
        bool(ok_shape and fee_field),
        r,
        intra.module,
        "IntraTransaction.is_taxable",
        "transfer taxable iff fee strictly positive",
        f"IntraTransaction.is_taxable normalises to {show(t_term)}; expected '<fee field> > 0' (a fee-less transfer must not be a taxable event, a transfer with fee must be)",
        detail=show(t_term),
    )
    if fee_field:
        fdefs = defs.get(fee_field, [])
        shapes = [show(v) for _, v, _ in fdefs]
        sent_recv = _is_sent_minus_received(m, intra, fdefs, defs)
        rep.check(
            sent_recv,
            r,
            intra.module,
            "IntraTransaction.__init__",
            f"definition of {fee_field}",
            f"{fee_field} is defined as {shapes}; expected (crypto_sent - crypto_received) [* spot_price]",
            detail="; ".join(shapes),
        )

    # ---------------------------------------------------------------- C03.b
    r = rep.rule("C03.b", "every other earn-type table in the tree equals the earn set (sibling agreement)", floor=1)
    for mod in prog.package.modules.values():
        for name, stmt in prog.module_assigns[mod.name].items():
            if mod.name == "rp2.entry_types":
                continue
            if "INCOME" in name.upper() and "TYPE" in name.upper() or "EARN" in name.upper():
                v = fold_module_const(prog, mod.name, name)
                if v is UNKNOWN:
                    raise AnalysisError(f"{mod.name}.{name}: earn/income type table is not constant-foldable")
                keys = set(v.keys()) if isinstance(v, dict) else set(v)
                got = {getattr(k, "member", str(k)) for k in keys}
                rep.check(
                    got == EARN_SPEC,
                    r,
                    mod.name,
                    name,
                    f"{name} == earn set",
                    f"{mod.name}.{name} lists {sorted(got)}; the earn set is {sorted(EARN_SPEC)} (missing {sorted(EARN_SPEC - got)}, extra {sorted(got - EARN_SPEC)})",
                    where=loc(stmt),
                )

    # ---------------------------------------------------------------- C03.c
    r = rep.rule("C03.c", "merge of taxable entries is exhaustive, guarded by is_taxable(), into an unfiltered MIXED set", floor=6)
    fi = prog.func("rp2.tax_engine", "_create_unfiltered_taxable_event_set")
    rep.analysed(fi)
    ctx = norm.ctx_for(fi)
    input_data = prog.cls("rp2.input_data", "InputData")
    required = sorted(n for n, f in input_data.methods.items() if f.is_property and n.startswith("unfiltered") and "TransactionSet" in unparse(f.node.returns))
    if len(required) < 3:
        raise AnalysisError(f"InputData defines fewer than 3 unfiltered_* TransactionSet properties: {required}")
    adds = [c for c in ast.walk(fi.node) if isinstance(c, ast.Call) and isinstance(c.func, ast.Attribute) and c.func.attr == "add_entry"]
    rep.check(len(adds) == 1, r, fi.module, fi.qualname, "single add_entry site", f"expected exactly one add_entry call in the merge, found {len(adds)}", where=loc(fi.node))
    if adds:
        add = adds[0]
        # which InputData properties feed the loops enclosing the add
        iter_terms = []
        cur = add
        from ..loader import ancestors

        for anc in ancestors(add):
            if isinstance(anc, ast.For):
                iter_terms.append(norm.term(anc.iter, ctx))
        fed = set()
        for t in iter_terms:
            for s in subterms(t):
                if s[0] == "fld" and s[2].startswith("InputData.__"):
                    fed.add(s[2].split(".__")[1])
        if not fed:
            # the iterable could not be read down to InputData's tables (a generator, an iterator built elsewhere): unknown shape, not a located defect
            rep.defer_error(f"{loc(add)}: the loop that feeds {short(add, 60)} iterates {[show(t)[:80] for t in iter_terms]}, which this rule cannot trace back to InputData's tables: merge of the three tables not decided for this shape")
        for prop in required if fed else []:
            backing = _backing_field(m, input_data, prop)
            rep.check(
                backing in fed,
                r,
                fi.module,
                fi.qualname,
                f"merge iterates input_data.{prop}",
                f"the merge loop does not iterate InputData.{prop}: taxable entries of that table would never become taxable events (iterated: {sorted(fed)})",
                where=loc(add),
            )
        for prop in sorted(fed):
            rep.check(
                prop.startswith("unfiltered"),
                r,
                fi.module,
                fi.qualname,
                f"merge source {prop} is unfiltered",
                f"the merge iterates InputData.{prop}, a date-filtered view: taxable events outside the window would be dropped before lot matching",
                where=loc(add),
            )
        arg = norm.term(add.args[0], ctx) if add.args else ("unk", "no-arg")
        abstract = m.abstract_transaction
        expected = norm._call_internal(norm._impls(abstract, "is_taxable"), arg, {}, ctx, "is_taxable")
        guard = m.guard_term(add, ctx)
        if fed: rep.check(  # noqa: E701  (when the iterable is unreadable the filter may sit inside it: not decided, see the deferred error above)
            tkey(guard) == tkey(expected),
            r,
            fi.module,
            fi.qualname,
            "add_entry guarded exactly by <entry>.is_taxable()",
            f"add_entry({short(add.args[0]) if add.args else ''}) executes under guard {show(guard)}; expected exactly is_taxable() of the added entry, un-negated",
            where=loc(add),
            detail="guard = is_taxable() dispatch over In/Out/Intra",
        )
        # the receiving set
        recv = norm.term(add.func.value, ctx)
        ok_set = recv[0] == "new" and recv[1].endswith(":TransactionSet")
        kw = dict(recv[2]) if ok_set else {}
        est = kw.get("entry_set_type", ("unk", ""))
        rep.check(
            ok_set and est[0] == "const" and str(est[1]).upper() == "MIXED",
            r,
            fi.module,
            fi.qualname,
            "taxable-event set is of type MIXED",
            f"taxable events are collected into {show(recv)}; expected a TransactionSet of type MIXED (a typed set would reject two of the three classes)",
            where=loc(add),
        )
        fd, td = kw.get("from_date"), kw.get("to_date")
        init = prog.lookup_method(prog.cls("rp2.abstract_entry_set", "AbstractEntrySet"), "__init__")
        dflt = init.param_defaults() if init else {}
        if fd is None and "from_date" in dflt:
            fd = norm.term(dflt["from_date"], Ctx(init.module, init.cls))
        if td is None and "to_date" in dflt:
            td = norm.term(dflt["to_date"], Ctx(init.module, init.cls))
        rep.check(
            fd == ("const", datetime.date(1970, 1, 1)) and td == ("const", datetime.date(9999, 12, 31)),
            r,
            fi.module,
            fi.qualname,
            "taxable-event set is unfiltered (MIN_DATE..MAX_DATE)",
            f"taxable-event set is created with window {show(fd) if fd else None}..{show(td) if td else None}; expected MIN_DATE..MAX_DATE",
            where=loc(add),
        )
        rets = [n for n in ast.walk(fi.node) if isinstance(n, ast.Return) and n.value is not None]
        rep.check(
            bool(rets) and all(tkey(norm.term(x.value, ctx)) == tkey(recv) for x in rets),
            r,
            fi.module,
            fi.qualname,
            "merge returns the set it filled",
            "the function returns something other than the set add_entry was called on",
            where=loc(fi.node),
        )
    # duplicates rejected
    aes = prog.cls("rp2.abstract_entry_set", "AbstractEntrySet")
    add_entry = prog.func("rp2.abstract_entry_set", "AbstractEntrySet.add_entry")
    rep.analysed(add_entry)
    actx = norm.ctx_for(add_entry)
    dup = False
    for guard, node in m.raises_in(add_entry):
        for s in subterms(guard):
            if s[0] == "cmp" and s[1] == "in" and s[2] == ("sym", "entry") and s[3][0] == "fld" and "_entry_set" in s[3][2]:
                dup = True
    appends = [c for c in ast.walk(add_entry.node) if isinstance(c, ast.Call) and isinstance(c.func, ast.Attribute) and c.func.attr in ("append", "add")]
    rep.check(dup, r, add_entry.module, add_entry.qualname, "duplicate entries rejected", "AbstractEntrySet.add_entry no longer raises when the entry is already in the set (a taxable event could be counted twice)", where=loc(add_entry.node))
    rep.check(
        len(appends) == 2 and all(not path_condition(c, add_entry.node) or True for c in appends),
        r,
        add_entry.module,
        add_entry.qualname,
        "entry stored once in list and set",
        f"add_entry stores the entry through {len(appends)} append/add calls; expected one list append and one set add",
        where=loc(add_entry.node),
    )

    # ---------------------------------------------------------------- C03.d
    r = rep.rule("C03.d", "every iteration of the matching loop adds exactly one fraction; earn events get one lot-less fraction of their own full amount", floor=6)
    fi = prog.func("rp2.tax_engine", "_create_unfiltered_gain_and_loss_set")
    rep.analysed(fi)
    ctx = norm.ctx_for(fi, subst_locals=False)
    loops = [n for n in ast.walk(fi.node) if isinstance(n, ast.While)]
    if len(loops) != 1:
        raise AnalysisError(f"{fi.qualname}: expected one matching loop (while), found {len(loops)}")
    loop = loops[0]

    def ev(node: ast.AST):
        out = []
        for c in ast.walk(node):
            if isinstance(c, ast.Call) and isinstance(c.func, ast.Attribute) and c.func.attr == "add_entry":
                out.append(("add", c))
        return out or None

    paths = enumerate_paths(loop.body, ev)
    n_ok = 0
    for p in paths:
        if p.exit in ("raise", "exit"):
            continue
        n = sum(1 for e in p.events if isinstance(e, tuple) and e[0] == "add")
        good = n == 1
        n_ok += good
        rep.check(
            good,
            r,
            fi.module,
            fi.qualname,
            f"loop path with exit '{p.exit}' adds exactly one fraction" + ("" if good else f" [{n} adds]"),
            f"a path through the matching loop body (exit {p.exit} at {loc(p.exit_node) if p.exit_node else 'end of body'}) adds {n} fractions to the gain/loss set; expected exactly 1",
            where=loc(loop),
        )
    # earn branch
    gl_cls = prog.cls("rp2.gain_loss", "GainLoss")
    news = []
    for c in ast.walk(loop):
        if isinstance(c, ast.Call):
            t = norm.term(c, ctx)
            if t[0] == "new" and t[1] == gl_cls.fq:
                news.append((c, t, m.guard_term(c, ctx, stop=loop)))
    if len(news) < 2:
        raise AnalysisError(f"{fi.qualname}: expected >= 2 GainLoss constructions (earn + disposal) in the matching loop, found {len(news)}")
    abstract = m.abstract_transaction
    earn_sites = 0
    for c, t, guard in news:
        kw = dict(t[2])
        event = kw.get("taxable_event")
        earning_of_event = norm._call_internal(norm._impls(abstract, "is_earning"), event, {}, ctx, "is_earning") if event else None
        in_earn = earning_of_event is not None and any(tkey(s) == tkey(earning_of_event) for s in _conj(guard))
        not_earn = earning_of_event is not None and any(s[0] == "not" and tkey(s[1]) == tkey(earning_of_event) for s in _conj(guard))
        lot = kw.get("acquired_lot")
        if in_earn:
            earn_sites += 1
            rep.check(
                lot == ("const", None),
                r,
                fi.module,
                fi.qualname,
                "earn branch builds a lot-less fraction",
                f"under is_earning() the fraction is built with acquired_lot={show(lot) if lot else None}; income has no lot and zero cost basis",
                where=loc(c),
            )
        else:
            rep.check(
                not_earn and lot is not None and lot != ("const", None),
                r,
                fi.module,
                fi.qualname,
                f"disposal fraction {short(c, 70)} is built with a lot, outside the earn branch",
                f"GainLoss constructed under guard {show(guard)} with acquired_lot={show(lot) if lot else None}: disposal fractions need a lot and must be dominated by 'not is_earning()'",
                where=loc(c),
            )
    rep.check(earn_sites == 1, r, fi.module, fi.qualname, "exactly one earn branch", f"found {earn_sites} GainLoss constructions guarded by is_earning(); expected 1", where=loc(loop))
    # constructor guard: earn event => amount == crypto_balance_change
    init = m.init_of(gl_cls)
    rep.analysed(init)
    ictx = norm.ctx_for(init, subst_locals=False)
    found = False
    for guard, node in m.raises_in(init):
        conj = _conj(guard)
        has_ne = any(s[0] == "cmp" and s[1] == "!=" and {tkey(s[2])[:24], tkey(s[3])[:24]} and _mentions(s, "crypto_amount") and _mentions_virt(s, "crypto_balance_change") for s in conj)
        has_earn = any(_is_virt(s, "is_earning") for s in conj)
        if has_ne and has_earn:
            found = True
    rep.check(
        found,
        r,
        init.module,
        init.qualname,
        "GainLoss rejects an earn fraction whose amount differs from the event's amount",
        "GainLoss.__init__ has no raise under 'is_earning() and crypto_amount != taxable_event.crypto_balance_change': a partial income fraction would be accepted silently",
        where=loc(init.node),
    )

    # ---------------------------------------------------------------- C03.f
    from . import c11

    rf = rep.rule("C03.f", "no parsed row is dropped on its way into the transaction sets (row handler adds exactly one transaction per row)", floor=3)
    c11.check_handler_paths(rep, rf)

    # ---------------------------------------------------------------- C03.e
    r = rep.rule("C03.e", "amount to match per class: IN crypto_in, OUT crypto_out_with_fee, INTRA sent - received", floor=3)
    want = {"in": "InTransaction.__crypto_in", "out": "OutTransaction.__crypto_out_with_fee"}
    for kind, ci in classes.items():
        f = prog.lookup_method(ci, "crypto_balance_change")
        if f is None:
            raise AnalysisError(f"{ci.name}.crypto_balance_change not found")
        t = norm.inline(f, ("sym", "t"), {}, Ctx(f.module, f.cls))
        if kind in want:
            rep.check(
                t == ("fld", ("sym", "t"), want[kind]),
                r,
                ci.module,
                f"{ci.name}.crypto_balance_change",
                f"{ci.name}.crypto_balance_change",
                f"{ci.name}.crypto_balance_change normalises to {show(t)}; expected the field {want[kind]}",
                detail=show(t),
            )
        else:
            ok = t[0] == "fld" and _is_sent_minus_received(m, ci, m.field_defs(ci).get(t[2], []), m.field_defs(ci), allow_spot=False)
            rep.check(ok, r, ci.module, f"{ci.name}.crypto_balance_change", f"{ci.name}.crypto_balance_change", f"IntraTransaction.crypto_balance_change normalises to {show(t)}; expected a field defined as crypto_sent - crypto_received (only the fee is disposed)", detail=show(t))

    # the field those getters read holds the whole disposal: for OUT, when the optional 'crypto_out_with_fee' column is absent, amount + fee
    from ..rp2model import GIVEN, effective_field_value
    from ..norm import mk_add as _mk_add, strip_validators as _sv

    out = classes["out"]
    odefs = m.field_defs(out)
    for env_name, env in (("absent", {"crypto_out_with_fee": None}), ("given", {"crypto_out_with_fee": GIVEN})):
        v = effective_field_value(m, odefs.get("OutTransaction.__crypto_out_with_fee", []), env)
        v = _sv(v) if v is not None else None
        if env_name == "absent":
            want_v = _mk_add([("fld", ("sym", "self"), "OutTransaction.__crypto_out_no_fee"), ("fld", ("sym", "self"), "OutTransaction.__crypto_fee")])
            # the getter 'self.crypto_fee' is the field itself
            ok = v is not None and tkey(v) == tkey(want_v)
            msg = f"without the optional column the amount a disposal takes from lots is {show(v) if v else None}; expected crypto_out_no_fee + crypto_fee: the fee is disposed of too (a sale of 1 with fee 0.01 consumes 1.01)"
        else:
            ok = v == ("sym", "crypto_out_with_fee")
            msg = f"with the optional column supplied the amount is {show(v) if v else None}; expected the supplied (validated) value"
        rep.check(ok, r, out.module, "OutTransaction.__init__", f"OutTransaction.crypto_out_with_fee [{env_name}]", msg, detail=show(v) if v else "")

    # the taxable events a run *reports* are those of the window: the views handed to ComputedData / the generators come from the entry-set iterator
    from . import c10

    rg = rep.rule("C03.g", "no taxable event of the window is dropped by the filtered view: the entry-set iterator keeps from <= own date <= to (both inclusive)", floor=2)
    c10.check_iterator_window(rep, rg, m, "taxable events dated exactly on a window bound (e.g. a sale on the to-date) would be dropped from the reported taxable events, gain/loss lines and sheets")
    # "no taxable transaction is dropped ... or reported under another type" also holds for the yearly lines every report prints: their own obligations
    # (every fraction up to the to-date lands in exactly one line, keyed by its own year / type / term; no order-sensitive grouping) are C06's, restated here
    from . import c06

    rh = rep.rule("C03.h", "the yearly lines count every reported fraction once, under its own type and year (C06.c, C06.d, C06.g restated)", floor=5)
    sub6 = Report("C06", tier)
    c06.run(sub6, tier)
    rep.absorb(sub6, rh, ("C06.c", "C06.d", "C06.g"), "yearly lines")


def _conj(t):
    return list(t[1]) if t[0] == "and" else [t]


def _mentions(t, sym: str) -> bool:
    return any(s == ("sym", sym) or (s[0] == "fld" and s[2].endswith("__" + sym)) for s in subterms(t))


def _is_virt(t, name: str) -> bool:
    return t[0] == "virt" and t[1] == name


def _mentions_virt(t, name: str) -> bool:
    return any(_is_virt(s, name) for s in subterms(t))


def _backing_field(m, ci, prop: str) -> str:
    f = ci.methods[prop]
    t = m.norm.inline(f, ("sym", "x"), {}, Ctx(f.module, f.cls))
    if t[0] != "fld":
        raise AnalysisError(f"{ci.name}.{prop} is not a plain field getter: {show(t)}")
    return t[2].split(".__")[1]


def _is_sent_minus_received(m, ci, fdefs, alldefs, allow_spot: bool = True) -> bool:
    """fdefs: definitions of the fee field; true when each is (sent - received) [* spot] possibly through another field."""
    if not fdefs:
        return False
    sent = ("fld", ("sym", "self"), f"{ci.name}.__crypto_sent")
    recv = ("fld", ("sym", "self"), f"{ci.name}.__crypto_received")
    diff = mk_add([sent, mk_neg(recv)])
    for _, v, _ in fdefs:
        cand = v
        if allow_spot and cand[0] == "mul" and len(cand[1]) == 2:
            facs = list(cand[1])
            spot = [f for f in facs if f[0] == "fld" and f[2].endswith("__spot_price")]
            rest = [f for f in facs if f not in spot]
            if len(spot) == 1 and len(rest) == 1:
                cand = rest[0]
        if cand[0] == "fld" and cand[2] in alldefs and cand[2] != f"{ci.name}.__crypto_sent":
            inner = alldefs[cand[2]]
            if len(inner) == 1:
                cand = inner[0][1]
        if tkey(cand) != tkey(diff):
            return False
    return True

"""C06 — yearly gain/loss summary equals the sum of its detail fractions."""

from __future__ import annotations

import ast
from decimal import Decimal
from typing import Any, Dict, List

from ..loader import AnalysisError, loc, short, unparse
from ..norm import FLIP, Ctx, mk_add, show, subterms, tkey
from ..report import Report
from ..rp2model import model
from ..symexec import SPath, SymExec, delta_of, read_epochs

META = {
    "title": "Yearly gain/loss summary equals the sum of its detail fractions",
    "technique": "symbolic effect summary of the grouping loop (key normal form, per-field accumulator recognition, exactly-one-update path rule), "
    "keyword-forwarding rule on the line construction, comparison-polarity rule at the to-date and the from-year, def-use of the window arguments at the call site, "
    "column/field table of the two summary writers",
    "explanation": "each fraction updates exactly one dictionary entry whose key is (event's own timestamp.year, asset, event's transaction type, the fraction's own "
    "long-term flag) in a frozen, eq dataclass over exactly those fields; the four figures are accumulated as old + gl.crypto_amount / proceeds / cost basis / gain "
    "(the GainLoss properties decided by C04) starting from zero; one YearlyGainLoss per dictionary key with name-aligned forwarding; iteration is over the unfiltered, "
    "time-sorted set and stops strictly after the to-date passed by ComputedData; the from filter keeps whole years >= the from-date's year; the report's two summary "
    "tables write year, asset, gain, LONG/SHORT, type, crypto total, proceeds total, cost basis total from the list's own lines.",
    "restated": "the detail table's window is cut on the same own calendar date as the summary (entry-set iterator, C10.a)",
    "not_decided": "equality of decimal sums as run-time numbers (associativity/rounding); that grand totals match is a corollary, not separately decided.",
    "assumptions": ["dataclass eq/hash over all fields; dict semantics", "the entry-set iterator yields entries in time order (C10.a)"],
}

CD = "rp2.computed_data"


def run(rep: Report, tier: str) -> None:
    m = model()
    prog, norm = m.prog, m.norm
    fi = prog.func(CD, "ComputedData._create_yearly_gain_loss_list")
    rep.analysed(fi)
    ctx = norm.ctx_for(fi, subst_locals=False)
    from ..groupby import check_groupby

    rg = rep.rule("C06.g", "no order-sensitive grouping: itertools.groupby only over input sorted by the same key", floor=0)
    check_groupby(rep, rg, prog, (CD,), "fractions of a (local) year that is met twice contribute to no summary line, so lines and grand totals come out too small")
    loops = [n for n in fi.node.body if isinstance(n, ast.For)]
    if len(loops) < 2:
        rep.defer_error(f"{fi.qualname}: expected the grouping loop and the line-building loop, found {len(loops)} loops")
        return
    group, build = loops[0], loops[1]
    gl_cls = prog.cls("rp2.gain_loss", "GainLoss")
    if not isinstance(group.target, ast.Name):
        raise AnalysisError("grouping loop target is not a name")
    var = group.target.id
    se = SymExec(norm, ctx)
    init = SPath()
    init.vars[var] = (("sym", "gl"), ("cls", gl_cls.fq))
    paths = se.run(group.body, init)
    g = ("sym", "gl")
    gctx = Ctx(gl_cls.module, gl_cls)

    # ---------------------------------------------------------------- C06.c
    rc = rep.rule("C06.c", "every fraction up to the to-date updates exactly one line; nothing is skipped", floor=2)
    normal = [p for p in paths if p.exit == "fall"]
    others = [p for p in paths if p.exit not in ("fall", "break", "raise")]
    for p in others:
        rep.violation(rc, fi.module, fi.qualname, f"loop path leaves the iteration by '{p.exit}'", f"a path through the grouping loop ends in '{p.exit}' at {loc(p.exit_node)}: the fraction (and, for 'return', all later ones) contributes to no line", loc(p.exit_node))
    if not normal:
        raise AnalysisError("grouping loop has no normally completing path")
    for p in normal:
        st = p.stores()
        conds = [c for c in p.conds()]
        rep.check(len(st) == 1, rc, fi.module, fi.qualname, "one dictionary update per fraction", f"a normally completing iteration performs {len(st)} dictionary updates; expected exactly 1 (each fraction contributes to exactly one line)", loc(group))
    brk = [p for p in paths if p.exit == "break"]
    # ---------------------------------------------------------------- C06.d (cut)
    rd = rep.rule("C06.d", "window: stop strictly after the to-date (event's own date); whole years from the from-date's year; ComputedData passes its own bounds", floor=5)
    ev = ("fld", g, "GainLoss.__taxable_event")
    ev_ts = ("fld", ev, "AbstractTransaction.__timestamp")
    want_date = ("xcall", "date", ev_ts, (), ())
    cut_ok, cut_msg = False, "the grouping loop has no 'break' path: fractions dated after the to-date would be summed into the yearly lines"
    for p in brk:
        cs = [e for e in p.events if e[0] == "cond"]
        if len(cs) == 1 and cs[0][2] and not p.stores():
            c = cs[0][1]
            if c[0] == "cmp":
                op, a, b = c[1], c[2], c[3]
                if tkey(b) == tkey(want_date):
                    op, a, b = FLIP[op], b, a
                if tkey(a) == tkey(want_date) and b == ("sym", "to_date"):
                    cut_ok = op == ">"
                    cut_msg = f"the loop stops when <event date> {op} to_date; the to-date is inclusive: the cut must be strictly '>'"
                else:
                    cut_msg = f"the cut compares {show(a)} with {show(b)}; expected the taxable event's own timestamp.date() against to_date"
    rep.check(cut_ok, rd, fi.module, fi.qualname, "cut: taxable_event.timestamp.date() > to_date => break", cut_msg, loc(group))
    for p in normal:
        extra = [e for e in p.events if e[0] == "cond" and not (e[1][0] == "cmp" and tkey(e[1][2]) in (tkey(want_date), tkey(("sym", "to_date"))))]
        rep.check(not extra, rc, fi.module, fi.qualname, "update is unconditional once inside the window", f"the dictionary update is conditional on {[show(e[1])[:120] for e in extra]}: some fractions inside the window would contribute to no line", loc(group))
    it = norm.term(group.iter, ctx)
    rep.check(it == ("sym", fi.param_names[0]) and fi.param_names[0].startswith("unfiltered"), rd, fi.module, fi.qualname, "iterates the unfiltered gain/loss set through its (time-sorted) iterator", f"the grouping loop iterates {show(it)}; expected the function's unfiltered gain/loss set parameter itself (sorted iteration makes 'break' sound)", loc(group))

    # ---------------------------------------------------------------- C06.a / b
    ra = rep.rule("C06.a", "grouping key = (event's own year, asset, event's type, fraction's own long-term flag) in a frozen eq dataclass", floor=6)
    rb = rep.rule("C06.b", "accumulators: old + crypto amount / proceeds / cost basis / gain of the fraction, from zero; line built with name-aligned forwarding", floor=10)
    p = normal[0]
    st = p.stores()
    if len(st) != 1:
        return
    e = st[0]
    key, value, dflt = e[2], e[3], e[4]
    is_long = prog.func(gl_cls.module, "GainLoss.is_long_term_capital_gains")
    want_key = {
        "year": ("attr", ev_ts, "year"),
        "asset": ("fld", g, "AbstractEntry.__asset"),
        "transaction_type": ("fld", ev, "AbstractTransaction.__transaction_type"),
        "is_long_term_capital_gains": norm.inline(is_long, g, {}, gctx),
    }
    if key[0] != "new":
        rep.violation(ra, fi.module, fi.qualname, "key construction", f"the dictionary key is {show(key)[:200]}; expected a key object built from the fraction", loc(e[5]))
        return
    key_cls = prog.classes.get(key[1])
    kw = dict(key[2])
    fields = [n for n, _ in key_cls.dataclass_fields()] if key_cls else []
    compared = set(key_cls.dataclass_compared_fields()) if key_cls else set()
    rep.check(compared == set(want_key), ra, fi.module, key_cls.name if key_cls else "?", "all four key components take part in the generated equality / hash", f"key class compares {sorted(compared)} only (field(compare=False) removes a component from __eq__ and __hash__): fractions that differ in {sorted(set(want_key) - compared)} share one line", loc(key_cls.node) if key_cls else "")
    rep.check(set(fields) == set(want_key) and set(kw) == set(want_key), ra, fi.module, fi.qualname, "key has exactly the four components", f"key class {key_cls.name if key_cls else '?'} has fields {fields}, constructed with {sorted(kw)}; the statement's key is (year, asset, transaction type, long/short)", loc(e[5]))
    decos = " ".join(key_cls.decorator_texts()) if key_cls else ""
    own_eq = key_cls is not None and ("__eq__" in key_cls.methods or "__hash__" in key_cls.methods)
    rep.check("frozen=True" in decos and "eq=True" in decos and not own_eq, ra, fi.module, key_cls.name if key_cls else "?", "key class is a frozen eq dataclass with generated __eq__/__hash__", f"key class decorators are '{decos}' (own __eq__/__hash__: {own_eq}); two fractions share a line iff all four components are equal only with generated frozen/eq semantics", loc(key_cls.node) if key_cls else "")
    why = {
        "year": "the year must be that of the taxable event's own timestamp (not the lot's, not a UTC-converted or otherwise shifted one)",
        "asset": "the fraction's asset",
        "transaction_type": "the taxable event's transaction type",
        "is_long_term_capital_gains": "the fraction's own long-term flag, computed per fraction (C05)",
    }
    for name, want in want_key.items():
        got = kw.get(name)
        rep.check(got is not None and tkey(got) == tkey(want), ra, fi.module, fi.qualname, f"key.{name}", f"key component {name} is {show(got)[:260] if got else None}; expected {show(want)[:200]} — {why[name]}", loc(e[5]))
    # accumulators
    figures = {
        "crypto_amount": norm.inline(prog.func(gl_cls.module, "GainLoss.crypto_amount"), g, {}, gctx),
        "fiat_amount": norm.inline(prog.func(gl_cls.module, "GainLoss.taxable_event_fiat_amount_with_fee_fraction"), g, {}, gctx),
        "fiat_cost_basis": norm.inline(prog.func(gl_cls.module, "GainLoss.fiat_cost_basis"), g, {}, gctx),
        "fiat_gain_loss": norm.inline(prog.func(gl_cls.module, "GainLoss.fiat_gain"), g, {}, gctx),
    }
    if value[0] != "new":
        rep.violation(rb, fi.module, fi.qualname, "stored amounts object", f"the stored value is {show(value)[:200]}; expected an amounts object", loc(e[5]))
        return
    amounts_cls = prog.classes.get(value[1])
    vkw = dict(value[2])
    rep.check(set(vkw) == set(figures), rb, fi.module, fi.qualname, "amounts object carries the four figures", f"the stored object has fields {sorted(vkw)}; expected {sorted(figures)}", loc(e[5]))
    for name, want in figures.items():
        got = vkw.get(name)
        if got is None:
            continue
        olds = [s for s in _tuples(got) if s and s[0] == "old" and tkey(s[1]) == tkey(e[1]) and tkey(s[2]) == tkey(key)]
        old_fld = ("fld", olds[0], f"{amounts_cls.name}.{name}") if olds and amounts_cls else None
        ok = old_fld is not None and tkey(got) == tkey(mk_add([old_fld, want]))
        rep.check(
            ok,
            rb,
            fi.module,
            fi.qualname,
            f"line.{name} += fraction's {name}",
            f"the running {name} of the line is updated to {show(got)[:300]}; expected <previous {name} of the same key> + {show(want)[:160]}",
            loc(e[5]),
        )
    if dflt is not None and dflt[0] == "sym" and isinstance(dflt[1], str) and ":" in dflt[1]:
        # a shared module-level record used as the starting value (bound exactly once in its module): its constructor call stands for it
        modname, cname = dflt[1].split(":", 1)
        mod = prog.package.modules.get(modname)
        binds = [st for st in getattr(mod, "tree", ast.Module(body=[])).body if isinstance(st, (ast.Assign, ast.AnnAssign)) and any(isinstance(t, ast.Name) and t.id == cname for t in (st.targets if isinstance(st, ast.Assign) else [st.target]))] if mod is not None else []
        rebinds = [n for n in ast.walk(mod.tree) if isinstance(n, ast.Global) and cname in n.names] if mod is not None else []
        if len(binds) == 1 and not rebinds and getattr(binds[0], "value", None) is not None:
            dflt = norm.term(binds[0].value, Ctx(modname, None))
    zero_ok = dflt is not None and dflt[0] == "new" and all(v[0] == "const" and v[1] == 0 for _, v in dflt[2]) and len(dflt[2]) == 4
    rep.check(zero_ok, rb, fi.module, fi.qualname, "lines start from four zeros", f"a new line starts from {show(dflt) if dflt else None}; expected all four figures ZERO", loc(e[5]))

    # line building loop
    bit = norm.term(build.iter, ctx)
    rep.check(bit[0] == "xcall" and bit[1] == "items" and tkey(bit[2]) == tkey(e[1]), rb, fi.module, fi.qualname, "one line per dictionary key (iterates <summaries>.items())", f"the line-building loop iterates {show(bit)}; expected the items of the dictionary filled above (lines exist only for keys that have fractions)", loc(build))
    if isinstance(build.target, ast.Tuple) and len(build.target.elts) == 2 and all(isinstance(x, ast.Name) for x in build.target.elts):
        kv, vv = build.target.elts[0].id, build.target.elts[1].id
        binit = SPath()
        binit.vars[kv] = (("sym", "K"), ("cls", key[1]))
        binit.vars[vv] = (("sym", "V"), ("cls", value[1]))
        bpaths = se.run(build.body, binit)
        ygl = prog.cls(CD, "YearlyGainLoss")
        for bp in bpaths:
            rep.check(bp.exit == "fall", rb, fi.module, fi.qualname, "every key yields a line", f"a path of the line-building loop exits by '{bp.exit}': some keys would yield no line", loc(build))
            news = {tkey(s): s for ev2 in bp.events for s in _tuples(ev2) if s and s[0] == "new" and s[1] == ygl.fq}
            rep.check(len(news) == 1, rb, fi.module, fi.qualname, "exactly one YearlyGainLoss per key", f"{len(news)} YearlyGainLoss constructions per key; expected 1", loc(build))
            for n in news.values():
                nk = dict(n[2])
                for f_ in ("year", "asset", "transaction_type", "is_long_term_capital_gains"):
                    want = ("fld", ("sym", "K"), f"{key_cls.name}.{f_}")
                    rep.check(nk.get(f_) is not None and tkey(nk[f_]) == tkey(want), rb, fi.module, fi.qualname, f"YearlyGainLoss.{f_} <- key.{f_}", f"YearlyGainLoss({f_}=...) receives {show(nk.get(f_)) if nk.get(f_) else None}; expected key.{f_}", loc(build))
                for f_ in figures:
                    want = ("fld", ("sym", "V"), f"{amounts_cls.name}.{f_}")
                    rep.check(nk.get(f_) is not None and tkey(nk[f_]) == tkey(want), rb, fi.module, fi.qualname, f"YearlyGainLoss.{f_} <- amounts.{f_}", f"YearlyGainLoss({f_}=...) receives {show(nk.get(f_)) if nk.get(f_) else None}; expected the accumulated {f_} of the same key (a swapped pair would report one figure under another's name)", loc(build))
            adds = [c for c in bp.calls() if c[1][0] == "xcall" and c[1][1] in ("add", "append")]
            rep.check(len(adds) == 1, rb, fi.module, fi.qualname, "the line is collected exactly once", f"{len(adds)} add/append calls per key; expected 1", loc(build))
    # returned list derives from the collected lines only
    rets = [n for n in ast.walk(fi.node) if isinstance(n, ast.Return) and n.value is not None]
    rt = norm.term(rets[-1].value, ctx) if rets else ("unk", "")
    rep.check(bool(rets) and "yearly_gain_loss" in show(rt), rb, fi.module, fi.qualname, "returns the collected lines (sorted)", f"the function returns {show(rt)[:200]}", loc(fi.node))

    # the lines are collected in a set of YearlyGainLoss: two lines with different keys must stay two elements
    ygl_cls = prog.cls(CD, "YearlyGainLoss")
    from .c17 import _eq_fields, _self_attrs

    eqf = _eq_fields(prog, ygl_cls)
    hs = prog.lookup_method(ygl_cls, "__hash__")
    hsf = {a.lstrip("_") for a in _self_attrs(hs.node, hs.param_names[0] if hs.param_names else "self")} if hs is not None else None
    need = {"year", "asset", "transaction_type", "is_long_term_capital_gains"}
    eq_ok = eqf is None or need <= {a.lstrip("_") for a in eqf}
    hash_ok = hsf is None or hsf <= {a.lstrip("_") for a in (eqf or need)}
    # direct attribute reads only: an equality routed through a helper is judged on the helper's body
    if eqf is not None and not eq_ok and prog.lookup_method(ygl_cls, "__eq__") is not None:
        helpers = [n.func.attr for n in ast.walk(prog.lookup_method(ygl_cls, "__eq__").node) if isinstance(n, ast.Call) and isinstance(n.func, ast.Attribute) and isinstance(n.func.value, ast.Name) and n.func.attr in ygl_cls.methods]
        for hname in helpers:
            eqf = set(eqf) | _self_attrs(ygl_cls.methods[hname].node, ygl_cls.methods[hname].param_names[0])
        eq_ok = need <= {a.lstrip("_") for a in eqf}
    rep.check(eq_ok and hash_ok, ra, CD, "YearlyGainLoss.__eq__", "lines with different keys are different set elements (equality covers year, asset, type, long/short)", f"YearlyGainLoss equality reads {sorted(a.lstrip('_') for a in (eqf or []))} (hash: {sorted(hsf) if hsf is not None else 'default'}); the lines are collected in a set, so two lines whose keys differ only in a field equality ignores collapse into one and the fractions of the other belong to no line", loc(ygl_cls.node), definite=True)

    # ---------------------------------------------------------------- C06.d (call site, from filter)
    init_fi = prog.func(CD, "ComputedData.__init__")
    rep.analysed(init_fi)
    ictx = norm.ctx_for(init_fi, subst_locals=True)
    calls = [n for n in ast.walk(init_fi.node) if isinstance(n, ast.Call) and isinstance(n.func, ast.Attribute) and n.func.attr == fi.name]
    if len(calls) != 1:
        raise AnalysisError(f"ComputedData.__init__ calls {fi.name} {len(calls)} times; expected 1")
    t = norm.term(calls[0], norm.ctx_for(init_fi, subst_locals=False))
    args = _call_args(norm, init_fi, calls[0], fi)
    rep.check(args.get("to_date") == ("sym", "to_date"), rd, CD, init_fi.qualname, "ComputedData passes its own to_date to the yearly summary", f"_create_yearly_gain_loss_list is called with to_date={show(args.get('to_date')) if args.get('to_date') else '<default MAX_DATE>'}; expected the to_date of this ComputedData (day-level cut)", loc(calls[0]))
    rep.check(args.get(fi.param_names[0]) == ("sym", "unfiltered_gain_loss_set"), rd, CD, init_fi.qualname, "yearly summary is computed from the unfiltered gain/loss set", f"_create_yearly_gain_loss_list receives {show(args.get(fi.param_names[0])) if args.get(fi.param_names[0]) else None}; expected the unfiltered gain/loss set (yearly lines cover whole years)", loc(calls[0]))
    flt = prog.func(CD, "ComputedData._filter_yearly_gain_loss_by_year")
    rep.analysed(flt)
    comps = [n for n in ast.walk(flt.node) if isinstance(n, ast.ListComp)]
    ok = False
    desc = "no list comprehension"
    if len(comps) == 1 and len(comps[0].generators) == 1:
        gen = comps[0].generators[0]
        conds = [unparse(c) for c in gen.ifs]
        elt_ok = isinstance(comps[0].elt, ast.Name) and isinstance(gen.target, ast.Name) and comps[0].elt.id == gen.target.id
        v = gen.target.id if isinstance(gen.target, ast.Name) else "?"
        from_param = flt.param_names[1] if len(flt.param_names) > 1 else "?"
        ok = elt_ok and conds in ([f"{v}.year >= {from_param}"], [f"{from_param} <= {v}.year"], [f"not {v}.year < {from_param}"])
        desc = f"[{unparse(comps[0].elt)} for ... if {' and '.join(conds)}]"
    rep.check(ok, rd, CD, flt.qualname, "from filter keeps lines with year >= from-year, nothing else", f"the from filter is {desc}; expected every line whose year >= the from-date's year and no other condition", loc(flt.node), definite=len(comps) == 1 and len(comps[0].generators) == 1 and (len(comps[0].generators[0].ifs) > 1 or any(isinstance(c, ast.BoolOp) for c in comps[0].generators[0].ifs)))  # an additional condition is a positive finding
    fcalls = [n for n in ast.walk(init_fi.node) if isinstance(n, ast.Call) and isinstance(n.func, ast.Attribute) and n.func.attr == flt.name]
    if len(fcalls) == 1:
        fargs = _call_args(norm, init_fi, fcalls[0], flt)
        want = ("attr", ("sym", "from_date"), "year")
        rep.check(len(flt.param_names) == 2 and tkey(fargs.get(flt.param_names[1], ("unk", ""))) == tkey(want), rd, CD, init_fi.qualname, "from filter receives from_date.year", f"the from filter is called with {dict((k, show(v)) for k, v in fargs.items() if k != flt.param_names[0])}; expected exactly from_date.year", loc(fcalls[0]))
    else:
        rep.violation(rd, CD, init_fi.qualname, "from filter applied once", f"_filter_yearly_gain_loss_by_year is applied {len(fcalls)} times", loc(init_fi.node))

    # the detail table the summary is compared with is the window-filtered gain/loss set: its iterator must cut on the same (own, local) date as the summary loop
    from . import c10

    rh = rep.rule("C06.h", "the detail fractions shown are those up to the to-date on the event's own calendar date (entry-set iterator), like the summary's cut", floor=2)
    c10.check_iterator_window(rep, rh, m, "the detail table would be cut at another day boundary than the yearly summary: lines no longer equal the sum of the fractions shown")
    c10.check_cut_kinds(rep, rh, m)

    # ---------------------------------------------------------------- C06.e
    from .c13 import check_summary_writers

    check_summary_writers(rep, "C06.e")


def _call_args(norm, caller, call: ast.Call, callee) -> Dict[str, Any]:
    ctx = norm.ctx_for(caller, subst_locals=False)
    params = callee.param_names
    if callee.cls is not None and not callee.is_staticmethod:
        params = params[1:]
    out: Dict[str, Any] = {}
    for i, a in enumerate(call.args):
        if i < len(params):
            out[params[i]] = norm.term(a, ctx)
    for kw in call.keywords:
        if kw.arg:
            out[kw.arg] = norm.term(kw.value, ctx)
    return out


def _tuples(t: Any):
    if isinstance(t, tuple):
        yield t
        for x in t:
            if isinstance(x, tuple):
                yield from _tuples(x)

"""C05 — long-term vs short-term classification follows the holding period."""

from __future__ import annotations

import ast

from ..consts import UNKNOWN
from ..loader import AnalysisError, loc, short, unparse
from ..norm import FLIP, Ctx, mk_add, mk_neg, show, subterms, tkey
from ..report import Report
from ..rp2model import model

META = {
    "title": "Long-term vs short-term classification follows the holding period",
    "technique": "normal form of the closed-form predicate (operand order, whole-day attribute, comparison operator), constant folding of every country "
    "plugin's period, must-guard rule on the timestamp parser, who-computes rule over every LONG/SHORT decision in the tree",
    "explanation": "the long-term predicate normalises to: no lot => False; else (event.timestamp - lot.timestamp).days >= country period, on the two "
    "transactions' own tz-aware datetimes (no .date(), no total_seconds, no tz stripping); every transaction timestamp comes from the parser that rejects naive "
    "values; each country plugin's period constant-folds to the statement's value (365 US/ES, unreachable for JP/IE, validated env value for generic); "
    "every LONG/SHORT cell or key in the tree is computed from that one predicate (or the yearly line's stored flag), LONG on the true side; the yearly line a fraction is added to carries the flag computed from that same fraction; a label decided inside a row loop is decided afresh in every iteration (no loop-carried label reaches a cell).",
    "restated": 'no memoisation of the predicate or its inputs by a key coarser than the fraction (C17.c)',
    "not_decided": "datetime subtraction semantics themselves (trusted), run-time values.",
    "assumptions": ["aware-datetime subtraction compares instants; timedelta.days is the floor in whole days", "timedelta.max.days == 999999999"],
}

TIMEDELTA_MAX_DAYS = 999999999
SPEC_PERIOD = {"US": 365, "ES": 365, "JP": "never", "IE": "never", "Generic": "env"}


def run(rep: Report, tier: str) -> None:
    m = model()
    prog, norm = m.prog, m.norm
    gl = prog.cls("rp2.gain_loss", "GainLoss")
    fi = prog.func("rp2.gain_loss", "GainLoss.is_long_term_capital_gains")
    rep.analysed(fi)
    g = ("sym", "gl")
    t = norm.inline(fi, g, {}, Ctx(fi.module, gl))

    # ---------------------------------------------------------------- C05.a
    r = rep.rule("C05.a", "predicate normal form: no lot => False; else (event - lot).days >= period", floor=5)
    lot = ("fld", g, "GainLoss.__acquired_lot")
    ev = ("fld", g, "GainLoss.__taxable_event")
    ev_ts = ("fld", ev, "AbstractTransaction.__timestamp")
    lot_ts = ("fld", lot, "AbstractTransaction.__timestamp")
    where = loc(fi.node)
    shape = t[0] == "ite" and t[1] == ("cmp", "is", lot, ("const", None))
    if not shape and t[0] == "ite" and t[1] == ("cmp", "is not", lot, ("const", None)):
        t = ("ite", ("cmp", "is", lot, ("const", None)), t[3], t[2])
        shape = True
    rep.check(shape, r, fi.module, fi.qualname, "case split on 'no acquired lot'", f"predicate normalises to {show(t)}; expected a case split on acquired_lot being None", where)
    if not shape:
        return
    rep.check(t[2] == ("const", False), r, fi.module, fi.qualname, "income (no lot) is short-term", f"without a lot the predicate yields {show(t[2])}; income events must always be short-term (False)", where)
    body = t[3]
    ok_cmp = body[0] == "cmp" and body[1] in (">=", "<=", ">", "<")
    if not ok_cmp:
        rep.violation(r, fi.module, fi.qualname, "threshold comparison", f"with a lot the predicate is {show(body)}; expected a comparison of elapsed whole days with the country's period", where)
        return
    op, lhs, rhs = body[1], body[2], body[3]
    if not _is_elapsed(lhs) and _is_elapsed(rhs):
        op, lhs, rhs = FLIP[op], rhs, lhs
    rep.check(
        op == ">=",
        r,
        fi.module,
        fi.qualname,
        "operator is >= (days *reach* the threshold)",
        f"elapsed days are compared with '{op}'; the statement says long-term exactly when the whole days elapsed reach the threshold (>=): a sale exactly on the threshold day would be misclassified",
        where,
        detail=show(body),
    )
    diff = mk_add([ev_ts, mk_neg(lot_ts)])
    rev = mk_add([lot_ts, mk_neg(ev_ts)])
    elapsed_ok = lhs == ("attr", diff, "days")
    td_ok = tkey(lhs) == tkey(diff) and rhs[0] == "xcall" and rhs[1].endswith("timedelta") and len(rhs[4]) == 1 and rhs[4][0][0] == "days"
    if lhs[0] == "attr" and tkey(lhs[1]) == tkey(rev):
        msg = "operands are reversed (lot - event): elapsed days come out negative, nothing is ever long-term"
    elif any(s[0] == "xcall" and s[1] in ("date", "total_seconds", "replace", "toordinal") for s in subterms(lhs)):
        msg = f"elapsed time is computed as {show(lhs)}: date-only / seconds-based / tz-stripped arithmetic differs from whole days between the two instants near the threshold or across UTC offsets"
    else:
        msg = f"elapsed time is computed as {show(lhs)}; expected (taxable_event.timestamp - acquired_lot.timestamp).days on the fraction's own event and lot"
    rep.check(elapsed_ok or td_ok, r, fi.module, fi.qualname, "elapsed = (event.timestamp - lot.timestamp).days", msg, where, detail=show(lhs))
    period = rhs[4][0][1] if td_ok else rhs
    is_virt = period[0] == "virt" and period[1] == "get_long_term_capital_gain_period"
    base_ok = is_virt and period[2] == ("fld", ("fld", g, "AbstractEntry.__configuration"), "Configuration.__country")
    if not base_ok and not is_virt:
        # the getter was interpreted into something else than a per-country constant: if the getters changed shape (a field set by the constructors, say)
        # the threshold is not readable by this rule - not a located defect
        from .. import delegation
        from ..loader import load_package

        pkg = load_package()
        changed = []
        for ci_ in prog.classes.values():
            g_ = ci_.methods.get("get_long_term_capital_gain_period")
            if g_ is not None:
                changed += delegation.shape_changes(pkg, g_.module, g_.qualname, set())
        if changed:
            rep.defer_error(f"{where}: the long-term threshold is {show(period)[:120]} because get_long_term_capital_gain_period changed shape ({changed[0]}): per-country periods not decided for this shape")
            base_ok = None
    if base_ok is not None: rep.check(  # noqa: E701
        base_ok,
        r,
        fi.module,
        fi.qualname,
        "threshold = configuration.country.get_long_term_capital_gain_period()",
        f"threshold is {show(period)[:200]}; expected the configured country's get_long_term_capital_gain_period() with nothing added or subtracted",
        where,
    )

    # ---------------------------------------------------------------- C05.c
    r = rep.rule("C05.c", "per-country long-term period constants equal the statement", floor=5)
    country_base = prog.cls("rp2.abstract_country", "AbstractCountry")
    for ci in prog.subclasses(country_base, strict=True):
        f = ci.methods.get("get_long_term_capital_gain_period") or prog.lookup_method(ci, "get_long_term_capital_gain_period")
        if f is None or f.is_abstract:
            raise AnalysisError(f"country plugin {ci.name} does not implement get_long_term_capital_gain_period")
        rep.analysed(f)
        val = norm.inline(f, ("sym", "c"), {}, Ctx(f.module, f.cls))
        spec = SPEC_PERIOD.get(ci.name)
        if spec is None:
            rep.note(f"country plugin {ci.name} ({ci.module}) is not among the five the property lists; its period {show(val)} is not checked")
            continue
        if spec == "never":
            ok = val[0] == "const" and isinstance(val[1], int) and val[1] > TIMEDELTA_MAX_DAYS
            rep.check(ok, r, f.module, f.qualname, f"{ci.name}: period unreachable (never long-term)", f"{ci.name}.get_long_term_capital_gain_period() folds to {show(val)}; must exceed timedelta.max.days ({TIMEDELTA_MAX_DAYS}) so that nothing is ever long-term", loc(f.node), detail=show(val))
        elif spec == "env":
            defs = m.field_defs(ci)
            fld = val[2] if val[0] == "fld" else None
            d = defs.get(fld, []) if fld else []
            src_ok = len(d) == 1 and d[0][1][0] == "xcall" and d[0][1][1] == "int" and "LONG_TERM_CAPITAL_GAINS" in show(d[0][1]) or _env_int(m, ci, d)
            rep.check(bool(src_ok), r, f.module, f.qualname, "generic: period = int(env LONG_TERM_CAPITAL_GAINS)", f"generic period is {show(val)} defined by {[show(x[1]) for x in d]}; expected int() of the LONG_TERM_CAPITAL_GAINS environment variable, unmodified", loc(f.node))
            neg = False
            for guard, node in m.raises_in(m.init_of(ci), early_exits=False):
                for s in subterms(guard):
                    if s[0] == "cmp" and s[1] == "<" and s[2][0] == "fld" and s[2][2] == fld and s[3] == ("const", 0):
                        neg = True
            rep.check(neg, r, ci.module, "Generic.__init__", "generic: negative period rejected", "no raise guarded by '<period field> < 0' in Generic.__init__: a negative period would be accepted", loc(ci.node), also=((f.module, f.qualname),))
        else:
            rep.check(val == ("const", spec), r, f.module, f.qualname, f"{ci.name}: period == {spec}", f"{ci.name}.get_long_term_capital_gain_period() folds to {show(val)}; the statement says {spec} days", loc(f.node), detail=show(val))

    # ---------------------------------------------------------------- C05.b
    r = rep.rule("C05.b", "timestamps are instants: the only producer rejects naive values; nothing strips or replaces tzinfo", floor=3)
    parser = prog.func("rp2.configuration", "Configuration.type_check_timestamp_from_string")
    rep.analysed(parser)
    pctx = norm.ctx_for(parser, subst_locals=False)
    rets = [n for n in ast.walk(parser.node) if isinstance(n, ast.Return) and n.value is not None]
    good = bool(rets)
    for ret in rets:
        val = norm.term(ret.value, pctx)
        guard = m.guard_term(ret, pctx)
        need = ("cmp", "is not", ("attr", val, "tzinfo"), ("const", None))
        if not any(tkey(s) == tkey(need) for s in ([guard] if guard[0] != "and" else guard[1])):
            good = False
    rep.check(good, r, parser.module, parser.qualname, "return dominated by 'tzinfo is None => raise'", "a path of type_check_timestamp_from_string returns a datetime that was not checked to carry tzinfo: naive timestamps would be compared as if they were instants", loc(parser.node))
    abstract = m.abstract_transaction
    defs = m.field_defs(abstract).get("AbstractTransaction.__timestamp", [])
    ok = len(defs) >= 1 and all(v[0] == "call" and v[1].endswith("type_check_timestamp_from_string") and dict(v[2]).get("value") == ("sym", "timestamp") for _, v, _ in defs)
    rep.check(ok, r, abstract.module, "AbstractTransaction.__init__", "__timestamp = type_check_timestamp_from_string(timestamp)", f"AbstractTransaction.__timestamp is defined as {[show(v) for _, v, _ in defs]}; expected the validated parse of the 'timestamp' parameter only", loc(abstract.node))
    strips = []
    for mod in prog.package.modules.values():
        for node in ast.walk(mod.tree):
            if isinstance(node, ast.Call) and isinstance(node.func, ast.Attribute) and node.func.attr == "replace":
                if any(kw.arg == "tzinfo" for kw in node.keywords):
                    strips.append((mod, node))
    for mod, node in strips:
        rep.violation(r, mod.name, _qual(node), short(node), "a datetime has its tzinfo replaced: compared instants would shift by the UTC offset", loc(node))
    if not strips:
        rep.ok(r, "no .replace(tzinfo=...) anywhere in src/rp2", f"{len(prog.package.modules)} modules scanned")

    # ---------------------------------------------------------------- C05.d
    r = rep.rule("C05.d", "one definition: every LONG/SHORT decision derives from the per-fraction predicate (or the yearly line's stored flag)", floor=4)
    rg = rep.rule("C05.g", "a LONG/SHORT label decided inside a row loop is decided afresh for every row: no cell shows the label left over from an earlier fraction", floor=1)
    n_sites = 0
    fresh_loops = set()
    for f in prog.iter_functions():
        for node in ast.walk(f.node):
            if not isinstance(node, ast.IfExp):
                continue
            a, b = _label(node.body), _label(node.orelse)
            if {a, b} != {"LONG", "SHORT"}:
                continue
            n_sites += 1
            ctx = norm.ctx_for(f)
            cond = norm.cond(node.test, ctx)
            if a == "SHORT":
                from ..norm import mk_not

                cond = mk_not(cond)
            verdict = _is_predicate(m, fi, cond)
            rep.check(
                verdict,
                r,
                f.module,
                f.qualname,
                f"LONG iff is_long_term_capital_gains [{short(node.test, 60)}]",
                f"LONG/SHORT label is decided by {show(cond)[:240]}, which is not GainLoss.is_long_term_capital_gains() of a fraction nor a yearly line's stored flag (or LONG is on the wrong side)",
                loc(node),
            )
            rep.analysed(f)
            from ..loader import ancestors
            from ..stale import check_rows_fresh

            loop = next((a for a in ancestors(node) if isinstance(a, ast.For)), None)
            if loop is not None and id(loop) not in fresh_loops:
                fresh_loops.add(id(loop))
                check_rows_fresh(rep, rg, norm, f, loop, f"{f.qualname}: rows carrying a LONG/SHORT label")
    # no second implementation of the holding-period test
    for f in prog.iter_functions():
        if f.fq == fi.fq or f.name == "get_long_term_capital_gain_period":
            continue
        for node in ast.walk(f.node):
            if isinstance(node, ast.Call) and isinstance(node.func, ast.Attribute) and node.func.attr == "get_long_term_capital_gain_period":
                if f.name in ("__str__", "__repr__"):
                    continue
                rep.violation(r, f.module, f.qualname, short(node), "the holding-period threshold is read outside GainLoss.is_long_term_capital_gains: a second long/short definition can disagree with the first", loc(node))
    rep.ok(r, "threshold read only by the predicate (and __str__/__repr__)", f"{n_sites} LONG/SHORT decision sites")
    _check_yearly_flag(rep, m)
    # the predicate is evaluated for each fraction from its own two timestamps: no memoisation keyed by fractions (their equality is the pair of row ids)
    from .c17 import check_caches

    from . import c11

    rh = rep.rule("C05.h", "both timestamps the flag is computed from are the spreadsheet's instants: the parser's crypto-fee split rebuilds the lot with the row's exact timestamp (C11.e restated)", floor=20)
    c11.check_split(rep, rh)
    rf = rep.rule("C05.f", "the long/short predicate and its inputs are not memoised by a key coarser than the fraction (row ids collide across assets)", floor=0)
    if check_caches(rep, rf, m, ("rp2.gain_loss", "rp2.computed_data", "rp2.abstract_transaction", "rp2.in_transaction", "rp2.out_transaction", "rp2.intra_transaction")) == 0:
        rep.ok(rf, "no functools cache in the modules that compute or carry the flag")


def _check_yearly_flag(rep: Report, m) -> None:
    """C05.e: the flag a yearly line stores is computed from each fraction on its own (a disposal split over lots on both sides of the threshold
    contributes to a LONG line and to a SHORT line)."""
    from ..symexec import SPath, SymExec

    prog, norm = m.prog, m.norm
    r = rep.rule("C05.e", "the yearly line a fraction is added to carries that fraction's own long/short flag (computed in the same iteration, for every fraction)", floor=1)
    fi = prog.func("rp2.computed_data", "ComputedData._create_yearly_gain_loss_list")
    rep.analysed(fi)
    loops = [n for n in fi.node.body if isinstance(n, ast.For) and isinstance(n.target, ast.Name)]
    if not loops:
        raise AnalysisError("ComputedData._create_yearly_gain_loss_list: grouping loop not found")
    group = loops[0]
    gl_cls = prog.cls("rp2.gain_loss", "GainLoss")
    g = ("sym", "gl")
    assigned = {n.id for st in group.body for n in ast.walk(st) if isinstance(n, ast.Name) and isinstance(n.ctx, ast.Store)}
    init = SPath()
    init.vars[group.target.id] = (g, ("cls", gl_cls.fq))
    se = SymExec(norm, norm.ctx_for(fi, subst_locals=False))
    for v in sorted(assigned - {group.target.id}):
        init.vars[v] = (("sym", f"{v}@previous_iteration"), se._declared.get(v, ("any",)))
    want = norm.inline(prog.func(gl_cls.module, "GainLoss.is_long_term_capital_gains"), g, {}, Ctx(gl_cls.module, gl_cls))
    n = 0
    for p in se.run(group.body, init):
        if p.exit != "fall":
            continue
        for st in p.stores():
            key = st[2]
            n += 1
            flag = dict(key[2]).get("is_long_term_capital_gains") if key[0] == "new" else None
            ok = flag is not None and tkey(flag) == tkey(want)
            rep.check(
                ok,
                r,
                fi.module,
                fi.qualname,
                "yearly key's flag = is_long_term_capital_gains() of the fraction being added",
                f"on a path of the grouping loop the fraction is added under key {show(key)[:200]}, whose long/short flag is {show(flag)[:160] if flag is not None else 'not computed in this iteration (a key kept from an earlier fraction)'}; "
                "expected the flag of this very fraction: a disposal split over a long-term and a short-term lot must feed a LONG and a SHORT line",
                loc(st[5]),
            )
    if n == 0:
        raise AnalysisError("ComputedData._create_yearly_gain_loss_list: no dictionary update found in the grouping loop")


def _is_elapsed(t) -> bool:
    return (t[0] == "attr" and t[2] in ("days", "seconds")) or t[0] == "add" or any(s[0] == "xcall" and s[1] in ("total_seconds", "date") for s in subterms(t))


def _env_int(m, ci, d) -> bool:
    """int(<local>) where the local is os.environ.get('LONG_TERM_CAPITAL_GAINS')."""
    if len(d) != 1:
        return False
    v = d[0][1]
    if not (v[0] == "xcall" and v[1] == "int" and len(v[3]) == 1):
        return False
    arg = v[3][0]
    if arg[0] != "sym":
        return "LONG_TERM_CAPITAL_GAINS" in show(arg) and "environ" in show(arg)
    init = m.init_of(ci)
    assigns = [n for n in ast.walk(init.node) if isinstance(n, ast.Assign) and any(isinstance(t, ast.Name) and t.id == arg[1] for t in n.targets)]
    return len(assigns) == 1 and "environ" in unparse(assigns[0].value) and "LONG_TERM_CAPITAL_GAINS" in unparse(assigns[0].value)


def _label(node: ast.AST):
    if isinstance(node, ast.Call) and isinstance(node.func, ast.Name) and node.func.id == "_" and node.args:
        node = node.args[0]
    if isinstance(node, ast.Constant) and isinstance(node.value, str):
        return node.value
    return None


def _is_predicate(m, pred_fi, cond) -> bool:
    if cond[0] == "fld" and cond[2] in ("YearlyGainLoss.is_long_term_capital_gains",):
        return True
    bases = {tkey(s[1]): s[1] for s in subterms(cond) if s[0] == "fld" and s[2] == "GainLoss.__acquired_lot"}
    for base in bases.values():
        exp = m.norm.truth(m.norm.inline(pred_fi, base, {}, Ctx(pred_fi.module, pred_fi.cls)), ("prim", "bool"))
        if tkey(exp) == tkey(cond):
            return True
    return False


def _qual(node: ast.AST) -> str:
    from ..loader import enclosing_class, enclosing_function

    f = enclosing_function(node)
    c = enclosing_class(node)
    return f"{c.name + '.' if c else ''}{f.name if f else '<module>'}"

"""C02 — every disposal is fully covered by earlier lots; no lot is ever overspent."""

from __future__ import annotations

import ast

from ..loader import AnalysisError, loc, short, unparse
from ..norm import Ctx, show, strip_validators, subterms, tkey
from ..report import Report
from ..rp2model import model
from ..symexec import SPath, SymExec
from .. import engine

META = {
    "title": "Every disposal is fully covered by earlier lots; no lot is ever overspent",
    "technique": "inductive invariant by cases over the matching loop's branches (per-branch effect summary: fraction amount = amount removed from the event = amount "
    "removed from the lot, with the engine routines' arithmetic), must-dominate rule for the fail-closed guard set of GainLoss / GainLossSet, all-paths rule on the "
    "seek routine (lot or AcquiredLotsExhaustedException), handler classification in the tax engine, order-preservation of the lot index key",
    "explanation": "in every branch of the matching loop exactly one fraction of amount A is emitted and the engine routine is handed amounts such that A is removed from the "
    "event's remaining amount and from the lot's remaining amount (==: A=e=l; <: A=e, lot keeps l-e; >: A=l, event keeps e-l; income: A=e, lot untouched); the amount put "
    "back for a lot is l-e and a seek offers the cached remainder or the full crypto_in; GainLoss rejects non-positive amounts, amounts above the event's outgoing amount "
    "or the lot's amount, lots later than the event and asset mismatches, and GainLossSet rejects running sums that exceed an event or a lot, so over-consumption "
    "is an error, not figures; when no lot at or before the event has balance the seek raises AcquiredLotsExhaustedException on every path and the tax engine converts it "
    "to RP2ValueError; only the end of the taxable events ends the loop silently; a lot handed out by a seek stays among the candidates unless exhausted (no valid history is rejected because a lot with balance was lost); lots are found through an order-preserving UTC key (never a lot after the disposal).",
    "restated": 'lots and events reach the engine in time order and the year->method schedule is walked completely (shared with C01); every out-transaction and fee-bearing transfer is a taxable event (C03.a, c, e)',
    "not_decided": "exact exhaustion after selling the whole holding and absence of spurious exhaustion for every history (global behaviour of the matcher under 13-decimal "
    "quantised comparisons); run-time values.",
    "assumptions": ["RP2Decimal comparisons quantise to 13 decimals", "prezzemolo AVLTree semantics"],
}


def run(rep: Report, tier: str) -> None:
    m = model()
    prog, norm = m.prog, m.norm

    ra = rep.rule("C02.a", "per-step conservation: fraction amount = amount removed from the event = amount removed from the lot, in every branch", floor=8)
    engine.check_loop_conservation(rep, ra)
    engine.check_reseek(rep, ra)

    rb = rep.rule("C02.b", "a seek offers the cached remaining amount (> 0) or the full crypto_in; only exhausted lots are skipped", floor=4)
    engine.check_seek_amounts(rep, rb)
    engine.check_partial_amount_accessors(rep, rb)
    rg = rep.rule("C02.g", "amount comparisons: RP2Decimal ==, >=, > quantise the difference to 13 decimals and compare with ZERO; !=, <=, < are their negations", floor=8)
    engine.check_decimal_comparisons(rep, rg)

    # ---------------------------------------------------------------- C02.c guard set
    rc = rep.rule("C02.c", "fail-closed guards: GainLoss and GainLossSet reject over-consumption, late lots and asset mismatches", floor=8)
    gl = prog.cls("rp2.gain_loss", "GainLoss")
    init = m.init_of(gl)
    rep.analysed(init)
    raises = m.raises_in(init, early_exits=False)
    guards = [show(g) for g, _ in raises]
    amount, ev, lot = "self.[GainLoss.__crypto_amount]", "self.[GainLoss.__taxable_event]", "self.[GainLoss.__acquired_lot]"

    def has(pred, what, why):
        ok = any(pred(g) for g in guards)
        rep.check(ok, rc, gl.module, init.qualname, f"GainLoss rejects: {what}", f"GainLoss.__init__ has no raise for '{what}' (guards found: {[g[:90] for g in guards]}): {why}", loc(init.node))

    has(lambda g: "is_taxable" in g and g.startswith("not "), "event that is not taxable", "a non-taxable transaction could be given a fraction")
    # exact shape of the over-consumption guard: amount > event.crypto_balance_change  OR  (lot is not None AND amount > lot.crypto_in)
    AMT = ("fld", ("sym", "self"), "GainLoss.__crypto_amount")
    EVT = ("fld", ("sym", "self"), "GainLoss.__taxable_event")
    LOT = ("fld", ("sym", "self"), "GainLoss.__acquired_lot")

    def _over(g) -> bool:
        if g[0] != "or" or len(g[1]) != 2:
            return False
        ev = [a for a in g[1] if a[0] == "cmp" and a[1] == ">" and a[2] == AMT and a[3][0] == "virt" and a[3][1] == "crypto_balance_change" and a[3][2] == EVT]
        lt = [a for a in g[1] if a[0] == "and" and any(x == ("cmp", ">", AMT, ("fld", LOT, "InTransaction.__crypto_in")) for x in a[1]) and all(x == ("cmp", ">", AMT, ("fld", LOT, "InTransaction.__crypto_in")) or x in (("cmp", "is not", LOT, ("const", None)), ("truthy", LOT)) for x in a[1])]
        return len(ev) == 1 and len(lt) == 1

    ok_over = any(_over(g) for g, _ in raises)
    rep.check(ok_over, rc, gl.module, init.qualname, "GainLoss rejects: amount > event's outgoing amount or > lot's amount", f"GainLoss.__init__ has no raise under exactly 'crypto_amount > taxable_event.crypto_balance_change or (acquired_lot and crypto_amount > acquired_lot.crypto_in)' (guards found: {[g[:110] for g in guards if '>' in g]}): a fraction larger than the event or the lot would be accepted: the lot is overspent / the event over-covered", loc(init.node))
    has(lambda g: "AbstractTransaction.__timestamp" in g and "<" in g and "acquired_lot is not None" in g and "taxable_event." in g, "event earlier than its lot", "a fraction could come from a lot acquired after the disposal")
    has(lambda g: "AbstractEntry.__asset" in g and "!=" in g, "event and lot of different assets", "a disposal could consume another asset's lot")
    has(lambda g: "acquired_lot is None" in g and "is_earning" in g, "disposal without a lot", "a disposal fraction without a lot would carry zero cost basis")
    # ordering of the late-lot guard: event.timestamp < lot.timestamp (strict: same-instant lots are allowed)
    late = [g for g, _ in raises if "AbstractTransaction.__timestamp" in show(g) and "acquired_lot is not None" in show(g)]
    ok = False
    for g in late:
        for s in subterms(g):
            if s[0] == "cmp" and s[1] == "<" and s[2] == ("fld", ("sym", "taxable_event"), "AbstractTransaction.__timestamp") and s[3] == ("fld", ("sym", "acquired_lot"), "AbstractTransaction.__timestamp"):
                ok = True
    rep.check(ok, rc, gl.module, init.qualname, "late-lot guard is exactly taxable_event.timestamp < acquired_lot.timestamp", "the late-lot guard is not 'taxable_event.timestamp < acquired_lot.timestamp' (strict, on instants): lots after the disposal would pass, or same-instant lots be rejected", loc(init.node))
    defs = m.field_defs(gl)
    d = defs.get("GainLoss.__crypto_amount", [])
    ok = len(d) == 1 and d[0][1][0] == "call" and d[0][1][1].endswith("type_check_positive_decimal") and dict(d[0][1][2]).get("non_zero") == ("const", True) and dict(d[0][1][2]).get("value") == ("sym", "crypto_amount")
    rep.check(ok, rc, gl.module, init.qualname, "fraction amount is validated positive and non-zero", f"GainLoss.__crypto_amount is defined as {[show(v) for _, v, _ in d]}; expected type_check_positive_decimal(crypto_amount, non_zero=True)", loc(init.node))
    so = prog.func("rp2.gain_loss_set", "GainLossSet._sort_entries")
    rep.analysed(so)
    se_raises = m.raises_in(so, early_exits=False)
    gtxt = [show(g) for g, _ in se_raises]
    ev_over = any("current_taxable_event_amount" in g and ">=" in g.replace("<=", "") or ("current_taxable_event_amount" in g and "crypto_balance_change" in g and "!=" in g and ">=" in g) for g in gtxt)
    # the two 'else: raise' arms: guard = not (sum == amount) and not (sum < amount)
    def _exceeded(g) -> bool:  # running sum != amount and running sum >= amount, whichever side each operand is written on
        cmps = [t for t in subterms(g) if t[0] == "cmp"]
        ne = any(t[1] == "!=" for t in cmps)
        ge = any((t[1] == ">=" and "current_" in show(t[2])) or (t[1] == "<=" and "current_" in show(t[3])) for t in cmps)
        return ne and ge

    arms = [show(g) for g, _ in se_raises if _exceeded(g)]
    rep.check(len(arms) >= 2, rc, so.module, so.qualname, "running sums exceeding an event's or a lot's amount raise", f"GainLossSet._sort_entries has {len(arms)} 'running sum exceeded' raises (expected one for the taxable event and one for the acquired lot): an over-covered event or overspent lot would be numbered instead of rejected", loc(so.node))

    # ---------------------------------------------------------------- C02.d exhaustion
    rd = rep.rule("C02.d", "running out of lots is an error on every path; only the end of the events ends the loop silently", floor=5)
    look = prog.func(engine.AE, "AccountingEngine.get_acquired_lot_for_taxable_event")
    rep.analysed(look)
    se = SymExec(norm, norm.ctx_for(look, subst_locals=False), inline_helpers=False)
    for p in se.run(look.body):
        if p.exit == "return":
            ok = p.ret is not None and p.ret[0] == "new" and p.ret[1].endswith(":TaxableEventAndAcquiredLot") and any("seek_non_exhausted_acquired_lot" in show(c) and "is not None" in show(c) or "bool(" in show(c) for c in p.conds())
            rep.check(p.ret is not None and p.ret[0] == "new", rd, look.module, look.qualname, "returning path returns a found lot", f"a returning path returns {show(p.ret)[:120] if p.ret else None}", loc(p.exit_node))
        elif p.exit == "raise":
            rz = [e for e in p.events if e[0] == "raise"]
            name = show(rz[-1][1]) if rz else ""
            ok = "AcquiredLotsExhaustedException" in name or "RP2RuntimeError" in name
            rep.check(ok, rd, look.module, look.qualname, f"non-returning path raises ({name.split('(')[0]})", f"a path of get_acquired_lot_for_taxable_event ends by raising {name[:100]}", loc(p.exit_node))
        else:
            rep.violation(rd, look.module, look.qualname, f"path ends by '{p.exit}'", "a path of get_acquired_lot_for_taxable_event falls off the end (returns None): the caller would continue without a lot", loc(look.node))
    # (decided on the paths above: none falls off the end; where the raise statements sit - one trailing raise or guard clauses - does not matter)
    exhausted = [n for n in ast.walk(look.node) if isinstance(n, ast.Raise) and "AcquiredLotsExhaustedException" in unparse(n)]
    rep.check(bool(exhausted), rd, look.module, look.qualname, "no lot found => AcquiredLotsExhaustedException", "get_acquired_lot_for_taxable_event never raises AcquiredLotsExhaustedException: the caller relies on it to report 'lots exhausted'", loc(look.node))
    te = prog.func(engine.TE, "_create_unfiltered_gain_and_loss_set")
    tries = [n for n in ast.walk(te.node) if isinstance(n, ast.Try)]
    if len(tries) != 1:
        raise AnalysisError("expected one try block around the matching loop")
    handlers = {unparse(h.type): h for h in tries[0].handlers if h.type is not None}
    h1 = handlers.get("AcquiredLotsExhaustedException")
    ok = h1 is not None and len(h1.body) == 1 and isinstance(h1.body[0], ast.Raise) and "RP2ValueError" in unparse(h1.body[0])
    rep.check(ok, rd, te.module, te.qualname, "AcquiredLotsExhaustedException -> RP2ValueError", "the tax engine no longer converts AcquiredLotsExhaustedException into RP2ValueError: an uncovered disposal would not fail the run with an error", loc(tries[0]))
    silent = [k for k, h in handlers.items() if not any(isinstance(s, ast.Raise) for s in h.body)]
    rep.check(silent == ["TaxableEventsExhaustedException"] and len(tries[0].handlers) == 2, rd, te.module, te.qualname, "only TaxableEventsExhaustedException ends the loop silently", f"handlers that end the matching loop without an error: {silent} (all handlers: {sorted(handlers)}); only the end of the taxable events may", loc(tries[0]))
    gn = prog.func(engine.AE, "AccountingEngine.get_next_taxable_event_and_amount")
    tr = [n for n in ast.walk(gn.node) if isinstance(n, ast.Try)]
    ok = len(tr) == 1 and len(tr[0].body) == 1 and "next(self.__taxable_event_iterator)" in unparse(tr[0].body[0]) and [unparse(h.type) for h in tr[0].handlers] == ["StopIteration"] and "TaxableEventsExhaustedException" in unparse(tr[0].handlers[0].body[0])
    rep.check(ok, rd, gn.module, gn.qualname, "TaxableEventsExhaustedException is raised only when the event iterator is exhausted", "TaxableEventsExhaustedException is no longer raised exactly when next(<event iterator>) stops: the loop could end early and leave disposals uncovered without an error", loc(gn.node))

    # ---------------------------------------------------------------- C02.f
    rf = rep.rule("C02.f", "no lot with balance leaves the candidate structures: a selected lot is put back on every returning path; the chronological start only moves past exhausted lots", floor=2)
    engine.check_heap_typestate(rep, rf)

    # ---------------------------------------------------------------- C02.h / C02.i (premises restated)
    rh = rep.rule("C02.h", "lots and events reach the engine in time order; nothing but the stable timestamp sort reorders an entry list (a lot hidden from its window makes a valid history fail)", floor=4)
    engine.check_chronological_input(rep, rh)
    engine.check_schedule_traversal(rep, rh)
    from . import c03

    ri = rep.rule("C02.i", "what must be covered: every out-transaction and every transfer with a non-zero fee is a taxable event (C03.a, C03.c, C03.e restated)", floor=40)
    sub = Report("C03", tier)
    c03.run(sub, tier)
    rep.absorb(sub, ri, ("C03.a", "C03.c", "C03.e"), "taxable-event set")

    # ---------------------------------------------------------------- C02.e
    re_ = rep.rule("C02.e", "no fraction from a lot acquired after the disposal: order-preserving lot index, window bounded by the event", floor=10)
    engine.check_key_builder(rep, re_)
    engine.check_candidate_window(rep, re_)

"""C17 — results depend only on the input: deterministic, order- and asset-independent."""

from __future__ import annotations

import ast
from typing import Any, Dict, List, Optional, Set, Tuple

from .. import typed
from ..loader import AnalysisError, ancestors, enclosing_class, enclosing_function, loc, parent, short, unparse
from ..report import Report
from ..rp2model import model
from ..symbols import ClassInfo, FuncInfo, Program

META = {
    "title": "Results depend only on the input: deterministic, order- and asset-independent",
    "technique": "typed use-classification of every set-typed expression (mypy type map): order-insensitive use, or sorted by a key that is total on the "
    "elements' equality (fields of __eq__ / __lt__ / the key function compared as sets); source table for ambient nondeterminism (clock, random, ids, hashes, "
    "environment, directory listings) with a 'diagnostics only' sink rule; lifetime/ownership rule for mutable state (class-level and module-level containers, "
    "functools caches keyed by objects whose equality is coarser than identity, freshness of the per-asset engine, statelessness of shared method plugins); "
    "must-precede rules on the output file (unlink before newdoc-from-template) and on the asset list / entry-set ordering",
    "explanation": "no iteration order of a set reaches a result: every set-typed expression is used order-insensitively (membership, size, set algebra, set/dict "
    "construction that is only subscripted) or is sorted by a key that distinguishes any two distinct elements; ambient sources (datetime.now, os.environ, id(), hash(), "
    "iter_modules) occur only at reviewed sites whose value cannot reach a computed result or a cell (log file name, documented environment inputs of the generic country, "
    "hash inside __hash__, default row id that the parser always overrides) and any other such call must flow to log calls only; no memoisation keyed by transactions or "
    "fractions (their equality is the row id only, so entries of different assets collide); every class-level container that is mutated is re-bound per instance, per run or "
    "per asset, or keyed by the asset; no module-level container is mutated at run time; each asset is computed with an engine object constructed inside the per-asset call "
    "whose mutable members are all re-bound by initialize(); the method plugins shared by all assets carry no instance or class state; assets are processed in sorted order "
    "and entry sets sort by timestamp before every iteration, so row/table order of the input cannot matter for distinct timestamps; a pre-existing output file is unlinked "
    "and the document is always created from the template.",
    "not_decided": "equality of two whole runs as such (permuted, reseeded, with other assets present); tie behaviour of the stable sort for equal timestamps (the statement "
    "assumes distinct ones); nondeterminism inside third-party code (ezodf, lxml).",
    "assumptions": ["mypy's inferred types are sound for the annotated code base", "list.sort / sorted are stable; dicts keep insertion order", "pkgutil.iter_modules lists a directory in sorted order"],
}

SET_PREFIXES = ("set[", "frozenset[", "builtins.set[", "builtins.frozenset[", "typing.AbstractSet[", "typing.Set[", "typing.FrozenSet[")
SAFE_SET_METHODS = {
    "add", "remove", "discard", "copy", "update", "union", "intersection", "difference", "symmetric_difference", "issubset", "issuperset", "isdisjoint", "clear",
    "intersection_update", "difference_update", "symmetric_difference_update", "__contains__", "__len__",
}
ORDER_FREE_CALLEES = {"len", "set", "frozenset", "any", "all", "sum", "min", "max", "isinstance", "bool", "type", "id", "hash"}
ORDER_REVEALING_CALLEES = {"list", "tuple", "iter", "next", "enumerate", "zip", "map", "filter", "reversed", "str", "repr", "print", "format", "dict.fromkeys"}
MUTATING_METHODS = {"append", "extend", "insert", "add", "update", "setdefault", "pop", "popitem", "clear", "remove", "discard", "insert_node", "sort", "reverse", "appendleft", "__setitem__"}


# --------------------------------------------------------------------------- small helpers
def _qual(node: ast.AST) -> str:
    f, c = enclosing_function(node), enclosing_class(node)
    if f is not None and c is not None:
        return f"{c.name}.{f.name}"
    if f is not None:
        return f.name
    if c is not None:
        return c.name
    return "<module>"


def _is_diagnostic(node: ast.AST) -> bool:
    """The expression is (part of) an argument of a logging call, an exception message or an assertion message."""
    for a in ancestors(node):
        if isinstance(a, ast.Raise):
            return True
        if isinstance(a, ast.Call) and isinstance(a.func, ast.Attribute) and isinstance(a.func.value, ast.Name) and a.func.value.id in ("LOGGER", "logger", "logging", "log") and a.func.attr in ("debug", "info", "warning", "error", "exception", "critical", "log"):
            return True
        if isinstance(a, ast.stmt):
            return False
    return False


def _callee_name(call: ast.Call) -> str:
    f = call.func
    if isinstance(f, ast.Name):
        return f.id
    if isinstance(f, ast.Attribute):
        return f.attr
    return unparse(f)


def _self_attrs(node: ast.AST, selfname: str = "self") -> Set[str]:
    return {n.attr for n in ast.walk(node) if isinstance(n, ast.Attribute) and isinstance(n.value, ast.Name) and n.value.id == selfname}


def _eq_fields(prog: Program, ci: ClassInfo) -> Optional[Set[str]]:
    """Attribute names that decide equality of two instances: from a user-defined __eq__ (attributes of self it reads), else dataclass fields; None = identity."""
    eq = prog.lookup_method(ci, "__eq__")
    if eq is not None:
        return _self_attrs(eq.node, eq.param_names[0] if eq.param_names else "self")
    if ci.is_dataclass():
        decos = " ".join(ci.decorator_texts())
        if "eq=False" not in decos:
            return set(ci.dataclass_compared_fields())
    return None


def _instance_fields(prog: Program, ci: ClassInfo) -> Set[str]:
    out: Set[str] = set()
    for c in prog.mro(ci):
        for fi in c.methods.values():
            if fi.name != "__init__":
                continue
            for n in ast.walk(fi.node):
                tgt = None
                if isinstance(n, ast.Assign) and len(n.targets) == 1:
                    tgt = n.targets[0]
                elif isinstance(n, ast.AnnAssign):
                    tgt = n.target
                if isinstance(tgt, ast.Attribute) and isinstance(tgt.value, ast.Name) and tgt.value.id == "self":
                    out.add(tgt.attr)
        if c.is_dataclass():
            out |= {n for n, _ in c.dataclass_fields()}
    return out


def _field_class(prog: Program, ci: ClassInfo, attr: str) -> Optional[ClassInfo]:
    """Declared class of an instance field (from the annotated assignment in __init__ or the property of that name)."""
    from ..norm import ann_to_type, class_of

    for c in prog.mro(ci):
        for fi in c.methods.values():
            for n in ast.walk(fi.node):
                if isinstance(n, ast.AnnAssign) and isinstance(n.target, ast.Attribute) and n.target.attr == attr:
                    return class_of(prog, ann_to_type(prog, c.module, n.annotation, c))
        m = c.methods.get(attr.lstrip("_"))
        if m is not None and m.is_property and m.node.returns is not None:
            return class_of(prog, ann_to_type(prog, c.module, m.node.returns, c))
    return None


def coarse_equality(prog: Program, ci: ClassInfo, seen: Optional[Set[str]] = None) -> Optional[str]:
    """Why two *different* objects of this class can compare equal (None when equality is identity or covers the whole state)."""
    seen = seen or set()
    if ci.fq in seen:
        return None
    seen = seen | {ci.fq}
    eq = _eq_fields(prog, ci)
    if eq is None:
        return None
    fields = _instance_fields(prog, ci)
    norm_eq = {e.lstrip("_") for e in eq}
    missing = sorted(f for f in fields if f.lstrip("_") not in norm_eq and not f.lstrip("_").startswith(ci.name))
    missing = [f for f in missing if f.split("__")[-1] not in norm_eq]
    if missing:
        return f"{ci.name}.__eq__ compares {sorted(norm_eq)} only, not {missing[:6]}"
    for f in sorted(eq):
        fc = _field_class(prog, ci, f)
        if fc is not None:
            why = coarse_equality(prog, fc, seen)
            if why:
                return f"{ci.name} compares its {f.lstrip('_')} by ==, and {why}"
    return None


# --------------------------------------------------------------------------- C17.a
def _check_set_order(rep: Report, m) -> None:
    prog = m.prog
    ra = rep.rule("C17.a", "no iteration order of a set reaches a result: every set-typed expression is used order-insensitively or sorted by a key total on its elements", floor=60)
    if not typed.available():
        raise AnalysisError("mypy is not importable: the set-order rule needs the type map")
    for mod in prog.package.modules.values():
        types = typed.expr_types(mod.name)
        for node in ast.walk(mod.tree):
            if not isinstance(node, ast.expr):
                continue
            t = types.get((node.lineno, node.col_offset, node.end_lineno, node.end_col_offset)) if hasattr(node, "lineno") else None
            if not t or not t.startswith(SET_PREFIXES):
                continue
            verdict, why = _classify_set_use(prog, mod, node, t)
            construct = f"{_qual(node)}: {short(parent(node) if parent(node) is not None and not isinstance(parent(node), (ast.stmt, ast.comprehension)) else node, 90)}"
            if verdict == "ok":
                rep.ok(ra, construct, why)
            elif verdict == "unknown":
                raise AnalysisError(f"{loc(node)}: set-typed expression {short(node, 60)} is used in a context the rule does not know ({why})")
            else:
                rep.violation(ra, mod.name, _qual(node), f"{short(node, 60)} :: {why.split(':')[0]}", f"{short(node, 80)} has type {t[:50]} and {why}: the iteration order of a set of strings / hashed objects changes with PYTHONHASHSEED, so the output is not a function of the input", loc(node))


def _elem_class(prog: Program, t: str) -> Optional[ClassInfo]:
    inner = t[t.index("[") + 1 : t.rindex("]")] if "[" in t and "]" in t else ""
    if inner.startswith("rp2."):
        modname, _, cname = inner.rpartition(".")
        return prog.classes.get(f"{modname}:{cname}")
    return None


def _classify_set_use(prog: Program, mod, node: ast.expr, t: str) -> Tuple[str, str]:
    p = parent(node)
    if p is None:
        return "ok", "module-level expression"
    if isinstance(p, ast.Compare):
        return "ok", "comparison / membership"
    if isinstance(p, (ast.Return, ast.Assign, ast.AnnAssign, ast.AugAssign, ast.Expr, ast.IfExp, ast.BoolOp, ast.If, ast.While, ast.Assert, ast.Dict, ast.List, ast.Tuple, ast.Set, ast.NamedExpr, ast.Lambda, ast.Yield)):
        return "ok", "bound / returned / tested for emptiness (each later use is classified where it occurs)"
    if isinstance(p, ast.UnaryOp) and isinstance(p.op, ast.Not):
        return "ok", "tested for emptiness"
    if isinstance(p, (ast.DictComp, ast.ListComp, ast.SetComp, ast.GeneratorExp)):
        return "ok", "element produced by a comprehension (a container of sets; the set itself is not iterated here)"
    if isinstance(p, ast.BinOp) and isinstance(p.op, (ast.BitOr, ast.BitAnd, ast.Sub, ast.BitXor)):
        return "ok", "set algebra"
    if isinstance(p, ast.Attribute):
        if p.attr in SAFE_SET_METHODS:
            return "ok", f".{p.attr}() does not depend on order"
        if p.attr == "pop":
            return "bad", "is popped: which element comes out depends on the hash order"
        return "unknown", f"method .{p.attr}"
    if isinstance(p, ast.keyword):
        p2 = parent(p)
        return _classify_call_arg(prog, mod, node, p2, t) if isinstance(p2, ast.Call) else ("unknown", "keyword outside a call")
    if isinstance(p, ast.Call):
        if node is p.func:
            return "ok", "callee"
        return _classify_call_arg(prog, mod, node, p, t)
    if isinstance(p, ast.Starred):
        return "bad", "is unpacked with *: the order of the elements is the hash order"
    if isinstance(p, ast.FormattedValue):
        return ("ok", "rendered into a diagnostic message only") if _is_diagnostic(node) else ("bad", "is rendered into a string that is not a log / exception message")
    if isinstance(p, ast.comprehension):
        owner = parent(p)
        if isinstance(owner, ast.SetComp):
            return "ok", "iterated to build another set"
        if isinstance(owner, ast.DictComp):
            return _dict_only_subscripted(owner)
        if isinstance(owner, (ast.ListComp, ast.GeneratorExp)):
            o2 = parent(owner)
            if isinstance(o2, ast.Call) and owner in o2.args:
                name = _callee_name(o2)
                if name in ORDER_FREE_CALLEES:
                    return "ok", f"comprehension consumed by {name}()"
                if name == "sorted":
                    return _sorted_total(prog, mod, o2, None)
                if name == "join" and _is_diagnostic(o2):
                    return "ok", "joined into a diagnostic message only"
            return "bad", "is iterated by a list comprehension / generator whose result keeps the iteration order"
        return "unknown", "comprehension owner"
    if isinstance(p, ast.For) and node is p.iter:
        return _loop_body_order_free(p)
    if isinstance(p, ast.Subscript):
        return "ok", "type expression / container lookup"
    return "unknown", f"parent {type(p).__name__}"


def _classify_call_arg(prog: Program, mod, node: ast.expr, call: ast.Call, t: str) -> Tuple[str, str]:
    name = _callee_name(call)
    if name in ORDER_FREE_CALLEES:
        return "ok", f"{name}() does not depend on order"
    if name == "sorted":
        return _sorted_total(prog, mod, call, _elem_class(prog, t))
    if name == "join":
        return ("ok", "joined into a diagnostic message only") if _is_diagnostic(call) else ("bad", "is joined into a string that is not a log / exception message")
    if name == "list":
        return _list_then_sort(call)
    if name in ORDER_REVEALING_CALLEES:
        return "bad", f"is passed to {name}(), which exposes the hash order"
    # internal callee: the parameter is set-typed there and its uses are classified in the callee
    res = None
    if isinstance(call.func, ast.Name):
        res = prog.resolve_name(mod.name, call.func.id)
    if res is not None and res[0] in ("func", "class"):
        return "ok", "passed to an rp2 function (uses classified in the callee)"
    if isinstance(call.func, ast.Attribute):
        # method of an rp2 object (self./cls./Class.) or a logging call
        if _is_diagnostic(node):
            return "ok", "argument of a log call"
        base = call.func.value
        if isinstance(base, ast.Name) and base.id in ("self", "cls"):
            return "ok", "passed to a method of the same class (uses classified in the callee)"
        bt = typed.type_of(mod.name, base) if isinstance(base, ast.expr) else None
        if bt and (bt.startswith("rp2.") or bt.startswith("type[rp2.") or bt.startswith("def (")):
            return "ok", "passed to an rp2 method (uses classified in the callee)"
        if name in SAFE_SET_METHODS:
            return "ok", f"argument of set.{name}()"
    return "unknown", f"argument of {short(call.func, 40)}"


def _list_then_sort(call: ast.Call) -> Tuple[str, str]:
    """x = list(S) ... x.sort() with no other use of x in between."""
    st = parent(call)
    while isinstance(st, ast.IfExp) and call is not st.test:
        call, st = st, parent(st)  # x = [a] if c else list(S): the list() is (one arm of) the value bound to x
    if not (isinstance(st, (ast.Assign, ast.AnnAssign)) and isinstance((st.targets[0] if isinstance(st, ast.Assign) else st.target), ast.Name)):
        return "bad", "is converted with list(), which freezes the hash order"
    name = (st.targets[0] if isinstance(st, ast.Assign) else st.target).id
    fn = enclosing_function(call)
    if fn is None:
        return "bad", "is converted with list() at module level"
    uses = sorted((n for n in ast.walk(fn) if isinstance(n, ast.Name) and n.id == name and isinstance(n.ctx, ast.Load) and (n.lineno, n.col_offset) > (st.lineno, st.col_offset)), key=lambda n: (n.lineno, n.col_offset))
    if not uses:
        return "ok", "list never read"
    first = uses[0]
    pa = parent(first)
    if isinstance(pa, ast.Attribute) and pa.attr == "sort" and isinstance(parent(pa), ast.Call) and not parent(pa).keywords and not parent(pa).args:
        # the sort statement must be executed whenever the list(...) assignment was (same or enclosing block)
        sort_stmt = parent(parent(pa))
        blocks_sort = [a for a in ancestors(sort_stmt) if isinstance(a, (ast.If, ast.For, ast.While, ast.Try))]
        blocks_list = [a for a in ancestors(st) if isinstance(a, (ast.If, ast.For, ast.While, ast.Try))]
        if all(b in blocks_list for b in blocks_sort):
            return "ok", f"list() immediately followed by {name}.sort() before any other use"
    if isinstance(pa, ast.Call) and _callee_name(pa) == "sorted":
        return "ok", "list() then sorted() before any other use"
    return "bad", f"is converted with list() and '{name}' is used ({short(parent(first), 50)}) before it is sorted"


def _dict_only_subscripted(owner: ast.DictComp) -> Tuple[str, str]:
    st = parent(owner)
    if not isinstance(st, (ast.Assign, ast.AnnAssign)):
        return "bad", "feeds a dict comprehension whose insertion order is the hash order, and the dict is not a plain local"
    tgt = st.targets[0] if isinstance(st, ast.Assign) else st.target
    if not isinstance(tgt, ast.Name):
        return "bad", "feeds a dict comprehension stored outside a local name"
    fn = enclosing_function(owner)
    scope = fn if fn is not None else next((a for a in ancestors(owner) if isinstance(a, ast.Module)), None)
    names = {tgt.id}
    changed = True
    bad: List[str] = []
    while changed:
        changed = False
        for n in ast.walk(scope):
            if isinstance(n, ast.Name) and n.id in names and isinstance(n.ctx, ast.Load):
                pa = parent(n)
                if isinstance(pa, ast.Subscript) and pa.value is n:
                    continue
                if isinstance(pa, ast.Compare):
                    continue
                if isinstance(pa, ast.Attribute) and pa.attr in ("get", "copy", "setdefault", "__contains__"):
                    if pa.attr == "copy":
                        s2 = parent(parent(pa))
                        t2 = (s2.targets[0] if isinstance(s2, ast.Assign) else getattr(s2, "target", None)) if isinstance(s2, (ast.Assign, ast.AnnAssign)) else None
                        if isinstance(t2, ast.Name) and t2.id not in names:
                            names.add(t2.id)
                            changed = True
                    continue
                bad.append(short(pa, 60))
    if bad:
        return "bad", f"feeds a dict comprehension (insertion order = hash order) and that dict is later used as a whole: {bad[:2]}"
    return "ok", "builds a dict that is only subscripted / tested for membership"


def _loop_body_order_free(loop: ast.For) -> Tuple[str, str]:
    """A for-loop over a set is fine when its body only tests, raises, logs or updates sets."""
    for st in loop.body:
        for n in ast.walk(st):
            if isinstance(n, (ast.Assign, ast.AugAssign, ast.AnnAssign, ast.Return, ast.Yield, ast.Break, ast.Delete)):
                return "bad", f"is iterated by a for-loop whose body ({short(n, 50)}) depends on the order of the iterations"
            if isinstance(n, ast.Call):
                name = _callee_name(n)
                if name in SAFE_SET_METHODS or _is_diagnostic(n) or name in ORDER_FREE_CALLEES or name in ("exit",) or (isinstance(parent(n), ast.Raise)):
                    continue
                if any(isinstance(a, ast.Raise) for a in ancestors(n)):
                    continue
                return "bad", f"is iterated by a for-loop that calls {short(n, 50)} once per element, in hash order"
    return "ok", "for-loop body only tests / raises / logs / updates sets"


def _key_fields(prog: Program, mod, key: ast.AST) -> Optional[Set[str]]:
    """Attribute names of the element that a sort key reads (lambda or a function of this module)."""
    fn: Optional[ast.AST] = None
    if isinstance(key, ast.Lambda):
        fn, param = key.body, (key.args.args[0].arg if key.args.args else None)
    elif isinstance(key, ast.Name):
        res = prog.resolve_name(mod.name, key.id)
        if res and res[0] == "func":
            fi: FuncInfo = res[1]
            fn, param = fi.node, (fi.param_names[0] if fi.param_names else None)
        else:
            return None
    else:
        return None
    if param is None:
        return None
    return {n.attr for n in ast.walk(fn) if isinstance(n, ast.Attribute) and isinstance(n.value, ast.Name) and n.value.id == param}


def _sorted_total(prog: Program, mod, call: ast.Call, elem: Optional[ClassInfo]) -> Tuple[str, str]:
    key = next((k.value for k in call.keywords if k.arg == "key"), None)
    if elem is None:
        # strings / numbers / enums: natural order is total; with a key the key must at least be a function of the element
        if key is None:
            return "ok", "sorted() on plain values (total natural order)"
        return "ok", "sorted(key=...) on plain values: ties are equal strings"  # equal plain values are indistinguishable
    eq = _eq_fields(prog, elem)
    if eq is None:
        return "unknown", f"elements of class {elem.name} compare by identity"
    eqn = {e.lstrip("_") for e in eq}
    if key is None:
        lt = prog.lookup_method(elem, "__lt__")
        if lt is None:
            return "unknown", f"sorted() without key on {elem.name}, which has no __lt__"
        ltf = {a.lstrip("_") for a in _self_attrs(lt.node, lt.param_names[0] if lt.param_names else "self")}
        missing = sorted(eqn - ltf)
        if missing:
            return "bad", f"is sorted with {elem.name}'s own ordering, which compares {sorted(ltf)} only: elements that differ in {missing} are ties and keep the set's hash order"
        return "ok", f"sorted by {elem.name}.__lt__, which compares every field of its equality"
    kf = _key_fields(prog, mod, key)
    if kf is None:
        return "unknown", f"sort key {short(key, 40)} is neither a lambda nor a function of the module"
    missing = sorted(eqn - {k.lstrip('_') for k in kf})
    if missing:
        return "bad", f"is sorted by a key that reads {sorted(kf)} only: elements that differ in {missing} are ties and keep the set's hash order"
    return "ok", f"sorted by a key that reads every field of {elem.name}'s equality ({sorted(eqn)})"


# --------------------------------------------------------------------------- C17.b
SOURCES = {
    # dotted suffix of the callee text -> kind
    "datetime.now": "clock", "datetime.utcnow": "clock", "datetime.today": "clock", "date.today": "clock", "time.time": "clock", "time.time_ns": "clock", "time.monotonic": "clock",
    "time.perf_counter": "clock", "time.localtime": "clock", "time.gmtime": "clock", "time.strftime": "clock",
    "os.getpid": "pid", "os.urandom": "random", "uuid.uuid1": "random", "uuid.uuid4": "random", "getrandbits": "random",
    "os.listdir": "dirlist", "os.scandir": "dirlist", "os.walk": "dirlist", "glob.glob": "dirlist", "glob.iglob": "dirlist",
    "os.environ.get": "environ", "os.getenv": "environ", "getpass.getuser": "environ", "socket.gethostname": "environ", "platform.node": "environ", "os.getcwd": "environ",
}
SOURCE_METHODS = {"iterdir": "dirlist", "glob": "dirlist", "rglob": "dirlist"}
REVIEWED_SOURCES: Dict[Tuple[str, str, str], str] = {
    ("rp2.logger", "<module>", "clock"): "name of the log file only (LOG_FILE); never read by the computation",
    ("rp2.logger", "create_logger", "environ"): "LOG_LEVEL: verbosity of diagnostics only",
    ("rp2.rp2_main", "rp2_main", "environ"): "RP2_ENABLE_PROFILER: wraps the same call in cProfile, results unchanged",
    ("rp2.plugin.country.generic", "Generic.__init__", "environ"): "documented inputs of the generic country plugin (currency code, long-term period): part of the input",
    ("rp2.abstract_transaction", "AbstractTransaction.__init__", "id"): "default row id when row is None; the parser passes row= at every construction (checked below)",
    ("rp2.rp2_main", "_find_and_run_report_generators", "modlist"): "pkgutil.iter_modules sorts the directory listing; generators are matched by name",
    ("rp2.rp2_main", "_validate_accounting_methods", "modlist"): "pkgutil.iter_modules sorts the directory listing; result is matched against the country's method set",
    ("rp2.localization", "set_generation_language", "environ"): "os.path.dirname(__file__): location of the shipped locales",
}


def _source_kind(node: ast.Call) -> Optional[str]:
    txt = unparse(node.func)
    for suf, kind in SOURCES.items():
        if txt == suf or txt.endswith("." + suf) or (suf.split(".")[-1] == txt and "." in suf and suf.split(".")[-1] in ("getrandbits",)):
            return kind
    if isinstance(node.func, ast.Name):
        if node.func.id == "id" and len(node.args) == 1:
            return "id"
        if node.func.id == "hash" and len(node.args) == 1:
            return "hash"
        if node.func.id in ("iter_modules", "walk_packages"):
            return "modlist"
        if node.func.id in ("getenv",):
            return "environ"
    if isinstance(node.func, ast.Attribute):
        if node.func.attr in SOURCE_METHODS:
            return SOURCE_METHODS[node.func.attr]
        if node.func.attr in ("random", "randint", "choice", "shuffle", "sample", "uniform", "randrange") and "random" in unparse(node.func.value):
            return "random"
        if node.func.attr in ("iter_modules", "walk_packages"):
            return "modlist"
    return None


def _check_sources(rep: Report, m) -> None:
    prog = m.prog
    rb = rep.rule("C17.b", "ambient nondeterminism (clock, random, pid, id(), hash(), environment, directory listings) occurs only at reviewed sites or flows to log calls only", floor=8)
    for mod in prog.package.modules.values():
        for node in ast.walk(mod.tree):
            kind = None
            site = node
            if isinstance(node, ast.Call):
                kind = _source_kind(node)
            elif isinstance(node, ast.Subscript) and unparse(node.value) in ("os.environ", "environ"):
                kind = "environ"
            elif isinstance(node, ast.Compare) and any(unparse(c) in ("os.environ", "environ") for c in node.comparators):
                kind = "environ"
            elif isinstance(node, (ast.Import, ast.ImportFrom)):
                names = [a.name for a in node.names] if isinstance(node, ast.Import) else [node.module or ""]
                if any(n.split(".")[0] in ("random", "secrets", "uuid") for n in names):
                    kind = "random-import"
            if kind is None:
                continue
            q = _qual(site)
            if kind == "hash":
                f = enclosing_function(site)
                ok = f is not None and f.name == "__hash__"
                rep.check(ok, rb, mod.name, q, f"{q}: {short(site, 60)}", f"{short(site, 80)} outside a __hash__ method: hash() of strings differs from run to run (PYTHONHASHSEED), so no value derived from it may reach a result", loc(site), detail="hash() inside __hash__: only decides bucket placement; iteration order of sets is covered by C17.a")
                continue
            key = (mod.name, q, kind)
            if key in REVIEWED_SOURCES:
                rep.ok(rb, f"{q}: {short(site, 60)} (reviewed)", REVIEWED_SOURCES[key])
                continue
            if kind != "random-import" and _flows_to_logs_only(site):
                rep.ok(rb, f"{q}: {short(site, 60)}", "value reaches log calls only")
                continue
            rep.violation(rb, mod.name, q, f"{kind}: {short(site, 70)}", f"{short(site, 90)} is an ambient source of nondeterminism ({kind}) at a site that is not in the reviewed table, and its value is not confined to log calls: a computed result or report cell may now depend on when / where / in which process the program runs", loc(site))
    # the id(self) default: every construction of a transaction inside the package passes row=
    classes = m.transaction_classes()
    n_sites = 0
    for mod in prog.package.modules.values():
        for node in ast.walk(mod.tree):
            if isinstance(node, ast.Call) and isinstance(node.func, ast.Name) and node.func.id in {c.name for c in classes.values()}:
                res = prog.resolve_name(mod.name, node.func.id)
                if not res or res[0] != "class":
                    continue
                n_sites += 1
                from ..loader import call_args

                init_f = prog.lookup_method(res[1], "__init__")
                kws = set(call_args(node, init_f.param_names[1:] if init_f else []))
                has_row = "row" in kws or any(k.arg is None for k in node.keywords)
                rep.check(has_row, rb, mod.name, _qual(node), f"{_qual(node)}: {node.func.id}(...) passes row=", f"{short(node, 100)} constructs a transaction without row=: its id falls back to id(self), a memory address that differs between runs and orders/keys every table built from it", loc(node))
    if n_sites < 2:
        raise AnalysisError(f"found {n_sites} transaction construction sites in src/rp2; expected >= 2 (the parser's)")


def _flows_to_logs_only(site: ast.AST) -> bool:
    if _is_diagnostic(site):
        return True
    st = next((a for a in [site] + list(ancestors(site)) if isinstance(a, ast.stmt)), None)
    if isinstance(st, (ast.Assign, ast.AnnAssign)):
        tgt = st.targets[0] if isinstance(st, ast.Assign) else st.target
        fn = enclosing_function(site)
        if isinstance(tgt, ast.Name) and fn is not None:
            uses = [n for n in ast.walk(fn) if isinstance(n, ast.Name) and n.id == tgt.id and isinstance(n.ctx, ast.Load)]
            return bool(uses) and all(_is_diagnostic(u) or _is_time_delta_for_log(u) for u in uses)
    return False


def _is_time_delta_for_log(use: ast.AST) -> bool:
    st = next((a for a in ancestors(use) if isinstance(a, ast.stmt)), None)
    if isinstance(st, (ast.Assign, ast.AnnAssign)):
        tgt = st.targets[0] if isinstance(st, ast.Assign) else st.target
        fn = enclosing_function(use)
        if isinstance(tgt, ast.Name) and fn is not None:
            uses = [n for n in ast.walk(fn) if isinstance(n, ast.Name) and n.id == tgt.id and isinstance(n.ctx, ast.Load)]
            return bool(uses) and all(_is_diagnostic(u) for u in uses)
    return False


# --------------------------------------------------------------------------- C17.c
def _mutable_value(v: Optional[ast.AST]) -> bool:
    if v is None:
        return False
    if isinstance(v, (ast.Dict, ast.List, ast.Set, ast.ListComp, ast.DictComp, ast.SetComp)):
        return True
    if isinstance(v, ast.Call):
        name = _callee_name(v)
        return name in ("dict", "list", "set", "defaultdict", "OrderedDict", "deque", "AVLTree", "Counter")
    return False


def _attr_mutations(scope: ast.AST, owner_names: Set[str], attr_names: Set[str]):
    """Statements that mutate (not rebind) <owner>.<attr>: subscript store / del / mutating method call / augmented assignment."""
    for n in ast.walk(scope):
        tgt_exprs: List[ast.AST] = []
        if isinstance(n, ast.Assign):
            tgt_exprs = [t.value for t in n.targets if isinstance(t, ast.Subscript)]
        elif isinstance(n, ast.AugAssign):
            tgt_exprs = [n.target.value] if isinstance(n.target, ast.Subscript) else [n.target]
        elif isinstance(n, ast.Delete):
            tgt_exprs = [t.value for t in n.targets if isinstance(t, ast.Subscript)]
        elif isinstance(n, ast.Call) and isinstance(n.func, ast.Attribute) and n.func.attr in MUTATING_METHODS:
            tgt_exprs = [n.func.value]
        for e in tgt_exprs:
            while isinstance(e, ast.Subscript):
                e = e.value
            if isinstance(e, ast.Attribute) and e.attr in attr_names and isinstance(e.value, ast.Name) and e.value.id in owner_names:
                yield n, e.attr


def _rebinds(ci: ClassInfo, attr_names: Set[str]) -> List[Tuple[str, ast.AST]]:
    """(method, statement) that binds self.<attr> to a fresh container (or clears it) at the top level of a method body."""
    out = []
    for fi in ci.methods.values():
        for st in fi.node.body:
            if isinstance(st, (ast.Assign, ast.AnnAssign)):
                for t in st.targets if isinstance(st, ast.Assign) else [st.target]:
                    if isinstance(t, ast.Attribute) and t.attr in attr_names and isinstance(t.value, ast.Name) and t.value.id == "self" and st.value is not None:
                        out.append((fi.name, st))
            if isinstance(st, ast.Expr) and isinstance(st.value, ast.Call) and isinstance(st.value.func, ast.Attribute) and st.value.func.attr == "clear":
                b = st.value.func.value
                if isinstance(b, ast.Attribute) and b.attr in attr_names and isinstance(b.value, ast.Name) and b.value.id == "self":
                    out.append((fi.name, st))
    return out


def check_caches(rep: Report, rc: str, m, modules: Optional[Tuple[str, ...]] = None) -> int:
    """No functools cache whose key (incl. self) is an object with an equality coarser than its state; returns the number of cached functions seen."""
    prog = m.prog
    n = 0
    for fi in prog.iter_functions():
        if modules is not None and fi.module not in modules:
            continue
        decos = [unparse(d) for d in fi.node.decorator_list]
        cached = [d for d in decos if d.split("(")[0].split(".")[-1] in ("lru_cache", "cache", "cached_property", "memoize")]
        if not cached:
            continue
        n += 1
        from ..norm import ann_to_type, class_of

        why = None
        params = list(fi.params)
        for i, p in enumerate(params):
            pc: Optional[ClassInfo] = None
            if i == 0 and fi.cls is not None and not fi.is_staticmethod:
                pc = fi.cls
            else:
                pc = class_of(prog, ann_to_type(prog, fi.module, p.annotation, fi.cls))
            if pc is None:
                continue
            w = coarse_equality(prog, pc)
            if w:
                why = f"parameter '{p.arg}' is a {pc.name}: {w}"
                break
        rep.check(
            why is None,
            rc,
            fi.module,
            fi.qualname,
            f"{fi.qualname}: {cached[0]} keyed by values whose equality covers their state",
            f"{fi.qualname} is memoised with {cached[0]} for the life of the process and {why}: objects of different assets (same row numbers on different sheets) share a cache entry, "
            "so an asset's results depend on which assets were processed before it",
            loc(fi.node),
            definite=True,
        )
    return n


def _check_state(rep: Report, m) -> None:
    prog = m.prog
    rc = rep.rule("C17.c", "no state leaks across assets or runs: caches, class-level and module-level containers, the per-asset engine, shared method plugins", floor=12, definite=True)
    # (1) functools caches
    check_caches(rep, rc, m)
    # (1b) a per-asset / per-run reset must bind the attribute that is read (private names are mangled per class)
    from ..engine import check_private_shadowing

    if check_private_shadowing(rep, rc) == 0:
        rep.ok(rc, "no private attribute name is used by both a class and one of its package base classes", "resets bind the attribute the readers use")
    # (2) class-level mutable containers
    for ci in prog.classes.values():
        if ci.is_enum() or ci.is_namedtuple():
            continue
        shared = {name: st for name, st in ci.class_attrs.items() if _mutable_value(getattr(st, "value", None))}
        if ci.is_dataclass():
            shared = {}
        if not shared:
            continue
        mangled = {}
        for name in shared:
            mangled[name] = name
        owners = {"self", "cls", ci.name}
        muts: Dict[str, List[ast.AST]] = {}
        for fi in ci.methods.values():
            for n, attr in _attr_mutations(fi.node, owners, set(shared)):
                muts.setdefault(attr, []).append(n)
        for sub in prog.subclasses(ci, strict=True):
            for fi in sub.methods.values():
                for n, attr in _attr_mutations(fi.node, owners | {sub.name}, {a for a in shared if not a.startswith("__")}):
                    muts.setdefault(attr, []).append(n)
        for attr, st in shared.items():
            if attr not in muts:
                rep.ok(rc, f"{ci.name}.{attr}: class-level container never mutated in place", "rebinding through self creates an instance attribute")
                continue
            reb = _rebinds(ci, {attr})
            per_instance = any(mname == "__init__" for mname, _ in reb)
            reset_methods = sorted({mname for mname, _ in reb})
            keyed_by_asset = all(_key_mentions_asset(n) for n in muts[attr])
            ok = per_instance or bool(reset_methods) or keyed_by_asset
            how = "re-bound in __init__" if per_instance else (f"re-bound / cleared at the top of {reset_methods}" if reset_methods else ("every key includes the asset" if keyed_by_asset else "never reset"))
            rep.check(
                ok,
                rc,
                ci.module,
                ci.name,
                f"{ci.name}.{attr}: class-level container mutated in place is reset per instance / run / asset or keyed by asset",
                f"{ci.name}.{attr} is a class attribute ({short(st, 60)}) mutated in place by {[short(n, 50) for n in muts[attr][:2]]} and {how}: it is one object for every instance, asset and run in the process, "
                "so what one asset stores is visible while another asset is written (keys such as transactions compare by row number only)",
                loc(st),
                detail=how,
            )
    # (3) module-level containers mutated inside functions; global statements
    for mod in prog.package.modules.values():
        mod_mut = {}
        for st in mod.tree.body:
            if isinstance(st, (ast.Assign, ast.AnnAssign)) and _mutable_value(st.value):
                for t in st.targets if isinstance(st, ast.Assign) else [st.target]:
                    if isinstance(t, ast.Name):
                        mod_mut[t.id] = st
        for fn in [n for n in ast.walk(mod.tree) if isinstance(n, (ast.FunctionDef, ast.AsyncFunctionDef))]:
            local_names = {a.arg for a in fn.args.args + fn.args.kwonlyargs} | {n.id for n in ast.walk(fn) if isinstance(n, ast.Name) and isinstance(n.ctx, ast.Store)}
            for n in ast.walk(fn):
                if isinstance(n, ast.Global):
                    for g in n.names:
                        ok = (mod.name, g) in (("rp2.localization", "_"),)
                        rep.check(ok, rc, mod.name, _qual(n), f"global {g} in {fn.name}", f"{fn.name} rebinds the module-level name '{g}' at run time: module state outlives an asset and a run", loc(n), detail="gettext translator installed once per run from the -g option (an input)")
                tgt = None
                if isinstance(n, ast.Assign):
                    for t in n.targets:
                        if isinstance(t, ast.Subscript):
                            tgt = t.value
                elif isinstance(n, ast.AugAssign) and isinstance(n.target, ast.Subscript):
                    tgt = n.target.value
                elif isinstance(n, ast.Call) and isinstance(n.func, ast.Attribute) and n.func.attr in MUTATING_METHODS:
                    tgt = n.func.value
                while isinstance(tgt, ast.Subscript):
                    tgt = tgt.value
                if isinstance(tgt, ast.Name) and tgt.id in mod_mut and tgt.id not in local_names:
                    rep.violation(rc, mod.name, _qual(n), f"module-level {tgt.id} mutated in {fn.name}", f"{short(n, 80)} mutates the module-level container '{tgt.id}' at run time: it is shared by every asset and run in the process", loc(n))
        for name in sorted(mod_mut):
            rep.ok(rc, f"{mod.name}.{name}: module-level container", "never mutated inside a function of its module")
    # (4) fresh engine per asset
    te = prog.func("rp2.tax_engine", "_create_unfiltered_gain_and_loss_set")
    rep.analysed(te)
    eng_param = next((p.arg for p in te.params if p.annotation is not None and "AccountingEngine" in unparse(p.annotation)), None)
    inits = [n for n in ast.walk(te.node) if isinstance(n, ast.Call) and isinstance(n.func, ast.Attribute) and n.func.attr == "initialize"]
    fresh_ok = False
    detail = "no initialize() call found"
    if len(inits) == 1 and isinstance(inits[0].func.value, ast.Name):
        ename = inits[0].func.value.id
        defs = [n for n in ast.walk(te.node) if isinstance(n, (ast.Assign, ast.AnnAssign)) and any(isinstance(t, ast.Name) and t.id == ename for t in (n.targets if isinstance(n, ast.Assign) else [n.target]))]
        if len(defs) == 1 and isinstance(defs[0].value, ast.Call):
            ctor = unparse(defs[0].value.func)
            fresh_ok = ctor in ("AccountingEngine", f"{eng_param}.__class__", f"type({eng_param})")
            detail = f"engine '{ename}' = {short(defs[0].value, 80)}"
            # every later engine call goes to the fresh object
            others = [n for n in ast.walk(te.node) if isinstance(n, ast.Attribute) and isinstance(n.value, ast.Name) and n.value.id == eng_param and n.attr not in ("__class__", "years_2_methods")]
            if others:
                fresh_ok = False
                detail += f"; but the shared engine is also used: {[short(o, 40) for o in others[:2]]}"
        else:
            detail = f"engine '{ename}' has {len(defs)} definitions"
    rep.check(fresh_ok, rc, te.module, te.qualname, "each asset is matched with an engine object constructed inside the per-asset call", f"{detail}: the engine object handed in by rp2_main is shared by all assets; its lot list, AVL index, partial amounts and heaps must not carry over from the previous asset", loc(te.node))
    eng = prog.cls("rp2.accounting_engine", "AccountingEngine")
    init_m, initialize = eng.methods.get("__init__"), eng.methods.get("initialize")
    if init_m is None or initialize is None:
        raise AnalysisError("AccountingEngine.__init__/initialize not found")
    mutated_fields = {attr for fi in eng.methods.values() for _, attr in _attr_mutations(fi.node, {"self"}, {a for f2 in eng.methods.values() for a in _self_attrs(f2.node)})}
    bound_fresh = set()
    for meth in (init_m, initialize):
        for st in meth.node.body:
            if isinstance(st, (ast.Assign, ast.AnnAssign)) and _mutable_value(st.value):
                for t in st.targets if isinstance(st, ast.Assign) else [st.target]:
                    if isinstance(t, ast.Attribute) and isinstance(t.value, ast.Name) and t.value.id == "self":
                        bound_fresh.add(t.attr)
    for attr in sorted(mutated_fields):
        rep.check(attr in bound_fresh, rc, eng.module, "AccountingEngine.initialize", f"AccountingEngine.{attr} is bound to a fresh container in __init__/initialize", f"AccountingEngine.{attr} is mutated in place but not bound to a new container at the top level of __init__ or initialize(): its content would survive from one use of the engine to the next", loc(initialize.node))
    if len(mutated_fields) < 2:
        raise AnalysisError(f"AccountingEngine: found {len(mutated_fields)} fields mutated in place; expected >= 2 (lot list, AVL index, partial amounts)")
    # (5) shared method plugins are stateless
    aam = prog.cls("rp2.abstract_accounting_method", "AbstractAccountingMethod")
    for ci in [aam] + prog.subclasses(aam, strict=True):
        stores = [n for fi in ci.methods.values() for n in ast.walk(fi.node) if isinstance(n, (ast.Assign, ast.AnnAssign, ast.AugAssign)) for t in (n.targets if isinstance(n, ast.Assign) else [n.target]) if isinstance(t, (ast.Attribute, ast.Subscript)) and unparse(t).startswith(("self.", "cls.", ci.name + "."))]
        cl_mut = [a for a, st in ci.class_attrs.items() if _mutable_value(getattr(st, "value", None))]
        rep.check(not stores and not cl_mut, rc, ci.module, ci.name, f"{ci.module.split('.')[-1]}.{ci.name}: method object carries no state", f"{ci.name} (one instance serves every asset of the run) stores state: {[short(s, 50) for s in stores[:2]] or cl_mut}: what it remembers from one asset would steer the lot selection of the next", loc(ci.node))


def _key_mentions_asset(n: ast.AST) -> bool:
    """Subscript store whose key IS the asset or directly contains it: d[asset], d[(asset, year)], d[_AssetAndYear(asset, year)]."""

    def direct(k: ast.AST) -> bool:
        if isinstance(k, ast.Name):
            return k.id == "asset"
        if isinstance(k, ast.Tuple):
            return any(direct(e) for e in k.elts)
        if isinstance(k, ast.Call) and isinstance(k.func, ast.Name) and k.func.id.lstrip("_")[:1].isupper():  # key object constructor
            return any(direct(a) for a in k.args) or any(direct(kw.value) for kw in k.keywords)
        return False

    if isinstance(n, ast.Assign):
        for t in n.targets:
            if isinstance(t, ast.Subscript):
                return direct(t.slice)
    return False


# --------------------------------------------------------------------------- C17.d / C17.e
def _check_output_dir(rep: Report, m) -> None:
    prog = m.prog
    rd = rep.rule("C17.d", "a pre-existing output file is unlinked and the document is always created from the template, never opened from the old file", floor=4)
    fi = prog.func("rp2.plugin.report.abstract_ods_generator", "AbstractODSGenerator._initialize_output_file")
    rep.analysed(fi)
    news = [n for n in ast.walk(fi.node) if isinstance(n, ast.Call) and unparse(n.func).endswith("newdoc")]
    unlinks = [n for n in ast.walk(fi.node) if isinstance(n, ast.Call) and isinstance(n.func, ast.Attribute) and n.func.attr in ("unlink", "remove")]
    ok_new = len(news) == 1 and any(k.arg == "template" for k in news[0].keywords)
    rep.check(ok_new, rd, fi.module, fi.qualname, "output document = ezodf.newdoc(..., template=<template>)", f"_initialize_output_file creates the document with {[short(n, 80) for n in news] or 'no newdoc call'}; expected a new document from the shipped template", loc(fi.node))
    ok_unlink = bool(unlinks) and bool(news) and all((u.lineno, u.col_offset) < (news[0].lineno, news[0].col_offset) for u in unlinks)
    path_same = False
    if unlinks and news and news[0].args[1:2]:
        ptxt = unparse(news[0].args[1])
        path_same = any(unparse(u.func.value) in ptxt for u in unlinks if isinstance(u.func, ast.Attribute))
    rep.check(ok_unlink and path_same, rd, fi.module, fi.qualname, "an existing output file is unlinked before the new document is created at the same path", "the old output file is not removed (at the path the new document is written to) before newdoc: content of an earlier run could survive", loc(fi.node))
    n_gen = 0
    for mod in prog.package.modules.values():
        if not mod.name.startswith("rp2.plugin.report"):
            continue
        for node in ast.walk(mod.tree):
            if isinstance(node, ast.Call) and unparse(node.func).endswith("opendoc"):
                rep.violation(rd, mod.name, _qual(node), f"opendoc in a report generator: {short(node, 60)}", f"{short(node, 80)} opens an existing document inside a report generator: output would depend on what is already in the output directory", loc(node))
        gens = [c for c in prog.classes.values() if c.module == mod.name and c.name == "Generator"]
        for g in gens:
            gen = g.methods.get("generate")
            if gen is None:
                continue
            calls = [n for n in ast.walk(gen.node) if isinstance(n, ast.Call) and isinstance(n.func, ast.Attribute) and n.func.attr == "_initialize_output_file"]
            saves = [n for n in ast.walk(gen.node) if isinstance(n, ast.Call) and isinstance(n.func, ast.Attribute) and n.func.attr == "save"]
            n_gen += 1
            if not calls and not saves:
                rep.ok(rd, f"{mod.name.split('.')[-1]}: writes no ODS document", "nothing to carry over from an earlier run (other writers are C18.d's)")
                continue
            rep.check(len(calls) == 1 and len(saves) == 1, rd, mod.name, "Generator.generate", f"{mod.name.split('.')[-1]}: one document from _initialize_output_file, saved once", f"{mod.name}: generate() calls _initialize_output_file {len(calls)} time(s) and save() {len(saves)} time(s); expected exactly one fresh document per run", loc(gen.node))
    if n_gen < 3:
        raise AnalysisError(f"found {n_gen} report generators; expected >= 3")


def _check_input_order(rep: Report, m) -> None:
    prog = m.prog
    re_ = rep.rule("C17.e", "row / table / sheet order of the input cannot matter: assets processed in sorted order, entry sets sort by timestamp before every iteration", floor=5)
    from ..engine import check_chronological_input

    check_chronological_input(rep, re_)
    main = prog.func("rp2.rp2_main", "_rp2_main_internal")
    rep.analysed(main)
    loops = [n for n in ast.walk(main.node) if isinstance(n, ast.For) and any(isinstance(c, ast.Call) and _callee_name(c) == "compute_tax" for c in ast.walk(n))]
    if len(loops) != 1 or not isinstance(loops[0].iter, ast.Name):
        raise AnalysisError("_rp2_main_internal: per-asset loop over a named list not found")
    lname = loops[0].iter.id
    sorts = [n for n in ast.walk(main.node) if isinstance(n, ast.Call) and isinstance(n.func, ast.Attribute) and n.func.attr == "sort" and isinstance(n.func.value, ast.Name) and n.func.value.id == lname and n.lineno < loops[0].lineno]
    sorted_defs = [n for n in ast.walk(main.node) if isinstance(n, (ast.Assign, ast.AnnAssign)) and isinstance(n.value, ast.Call) and _callee_name(n.value) == "sorted" and any(isinstance(t, ast.Name) and t.id == lname for t in (n.targets if isinstance(n, ast.Assign) else [n.target]))]
    uncond = [s for s in sorts if not any(isinstance(a, (ast.If, ast.For, ast.While)) for a in ancestors(s) if a is not main.node and not isinstance(a, ast.Try))]
    rep.check(bool(uncond) or bool(sorted_defs), re_, main.module, main.qualname, "assets are processed (and reported) in sorted order", f"the list '{lname}' iterated by the per-asset loop is not sorted unconditionally before the loop: sheet order in the report files would follow the hash order of the configured asset set", loc(loops[0]))
    # the per-asset results are stored under the asset and handed to the generators as one dict (insertion order = sorted order)
    stores = [n for n in ast.walk(loops[0]) if isinstance(n, ast.Assign) and any(isinstance(t, ast.Subscript) and isinstance(t.slice, ast.Name) and isinstance(loops[0].target, ast.Name) and t.slice.id == loops[0].target.id for t in n.targets)]
    rep.check(len(stores) == 1, re_, main.module, main.qualname, "each asset's ComputedData is stored under its own asset, once", f"the per-asset loop stores its result {len(stores)} time(s) under the loop's asset", loc(loops[0]))
    po = prog.func("rp2.ods_parser", "parse_ods")
    rep.analysed(po)
    subs = [n for n in ast.walk(po.node) if isinstance(n, ast.Subscript) and unparse(n.value).endswith(".sheets") and unparse(n.slice) == "asset"]
    rep.check(len(subs) >= 1, re_, po.module, po.qualname, "the asset's sheet is selected by name, not by position", "parse_ods no longer selects the input sheet by the asset's name: results would depend on the order of the sheets in the file", loc(po.node))


def run(rep: Report, tier: str) -> None:
    m = model()
    _check_set_order(rep, m)
    _check_sources(rep, m)
    _check_state(rep, m)
    _check_output_dir(rep, m)
    _check_input_order(rep, m)

"""C18 — no network, no subprocess, writes confined to the output and log directories."""

from __future__ import annotations

import ast
from typing import Any, Dict, List, Optional, Tuple

from ..consts import UNKNOWN, Folder
from ..loader import AnalysisError, ancestors, enclosing_class, enclosing_function, loc, parent, short, unparse
from ..norm import show, subterms
from ..report import Report
from ..rp2model import model

META = {
    "title": "No network, no subprocess, writes confined to the output and log directories",
    "technique": "closed-world who-may-import rule over every module of the package (allow-list with one reason per entry, deny-list of networking / process "
    "facilities, anything else is 'unreviewed'), no-dynamic-escape rule (exec/eval/__import__/os.system..., literal-prefix rule for import_module arguments by def-use), "
    "read-only rule for input handles (open modes, no save on opendoc handles), who-may-write table of filesystem-mutating call sites with def-use of their path arguments",
    "explanation": "every import in src/rp2 (including plugins added later: discovery is by directory walk) is in the reviewed allow-list and none is a networking, "
    "process-spawning or foreign-function facility; there is no exec/eval/compile/__import__/os.system/popen/spawn/fork; every import_module argument has the literal prefix "
    "'rp2.plugin' (constants, f-strings with that leading literal, or names produced by iter_modules over such a package); the profiler hook writes no file; every open() "
    "is read-only except in the config translator, which no other module imports; the input spreadsheet is opened with ezodf.opendoc and never saved; the only "
    "filesystem-mutating call sites are the tabled ones: ./log (logger), the -o directory (mkdir), unlink + newdoc of <output_dir>/<prefix><method>_<report name>, "
    "and save() of documents created by _initialize_output_file.",
    "not_decided": "behaviour of third-party code (ezodf, lxml, babel, pycountry, jsonschema, dateutil, prezzemolo) and of the interpreter at run time — the audit-event half of "
    "the quantifier belongs to dynamic techniques; a -p PREFIX containing '../' can move a report out of the output directory (user-chosen location; reported as a note).",
    "assumptions": ["the allow-listed stdlib / third-party modules do not themselves open network connections or spawn processes for the calls made"],
}

ALLOW: Dict[str, str] = {
    "rp2": "the package itself",
    "typing": "annotations",
    "datetime": "timestamps",
    "pathlib": "path handling",
    "logging": "log files under ./log",
    "enum": "enumerations",
    "os": "path helpers, environment switches (uses checked separately)",
    "sys": "exit status, maxsize",
    "prezzemolo": "AVL tree / to_string helpers (pure)",
    "ezodf": "ODS reading / writing",
    "dataclasses": "value classes",
    "jsonschema": "deprecated JSON config detection",
    "json": "deprecated JSON config detection",
    "decimal": "exact arithmetic",
    "configparser": "INI configuration",
    "babel": "locale validation",
    "argparse": "command line",
    "types": "ModuleType annotation",
    "threading": "Lock for artificial ids",
    "pycountry": "ISO code validation (local database)",
    "pkgutil": "plugin discovery inside the package",
    "itertools": "chain",
    "inspect": "constructor annotations",
    "importlib": "plugin loading (arguments checked separately)",
    "heapq": "candidate heap",
    "gettext": "report translation (local .mo files)",
    "functools": "lru_cache",
    "dateutil": "timestamp parsing",
    "copy": "shallow copies of entry sets",
    "cProfile": "optional profiler (arguments checked separately)",
    "_decimal": "mpdecimal presence probe",
    "collections": "containers",
    "abc": "abstract bases",
    "math": "arithmetic helpers",
    "re": "regular expressions",
    "string": "string helpers",
    "operator": "operator helpers",
    "numbers": "numeric tower",
    "fractions": "exact arithmetic",
    "bisect": "sorted containers",
    "textwrap": "text helpers",
    "__future__": "annotations",
}
DENY = {
    "socket", "ssl", "http", "urllib", "urllib3", "requests", "httpx", "aiohttp", "ftplib", "smtplib", "poplib", "imaplib", "telnetlib", "xmlrpc", "socketserver",
    "asyncio", "subprocess", "multiprocessing", "pty", "webbrowser", "ctypes", "cffi", "platform", "select", "selectors", "nntplib", "ftplib", "paramiko", "grpc",
    "websocket", "websockets", "boto3", "pip", "ensurepip", "venv", "antigravity", "cgi", "wsgiref", "smtpd", "uuid", "getpass", "signal", "concurrent", "sched", "code", "codeop", "runpy", "pdb",
}
DENY_REASON = {
    "platform": "platform.platform()/uname() spawn 'uname -p' through subprocess on Linux",
    "uuid": "uuid.getnode()/uuid1() may spawn ifconfig/ip and read the MAC address",
    "concurrent": "process / thread pools",
    "urllib": "urllib.request opens network connections (only urllib.parse would be harmless; review before allowing)",
}
DYNAMIC = {"exec", "eval", "compile", "__import__", "breakpoint"}
OS_ESCAPES = {"system", "popen", "startfile", "fork", "forkpty", "kill", "posix_spawn", "posix_spawnp"}
FS_MUTATORS_ATTR = {"mkdir", "unlink", "rename", "replace", "write_text", "write_bytes", "touch", "rmdir", "symlink_to", "hardlink_to", "link_to", "chmod", "save", "saveas", "backup", "makedirs", "remove", "removedirs", "rmtree", "copy", "copy2", "copyfile", "copytree", "move", "dump_stats", "mkstemp", "mkdtemp"}


def _qual(node: ast.AST) -> str:
    f, c = enclosing_function(node), enclosing_class(node)
    return f"{c.name + '.' if c else ''}{f.name if f else '<module>'}"


def run(rep: Report, tier: str) -> None:
    m = model()
    prog, norm = m.prog, m.norm
    mods = prog.package.modules

    # ---------------------------------------------------------------- C18.a
    ra = rep.rule("C18.a", "imports: every import of every module is allow-listed; none is a networking / process / FFI facility", floor=100, definite=True)
    for mod in mods.values():
        rep.modules.add(mod.name)
        for node in ast.walk(mod.tree):
            names: List[str] = []
            if isinstance(node, ast.Import):
                names = [a.name for a in node.names]
            elif isinstance(node, ast.ImportFrom):
                if node.level and node.level > 0:
                    names = ["rp2"]
                elif node.module:
                    names = [node.module]
                    if node.module == "os" or node.module.startswith("os."):
                        for a in node.names:
                            if a.name in OS_ESCAPES or a.name.startswith(("exec", "spawn")):
                                rep.violation(ra, mod.name, _qual(node), f"from os import {a.name}", f"'{short(node)}' imports a process-spawning primitive", loc(node))
            for full in names:
                top = full.split(".")[0]
                if top in DENY or full in DENY:
                    rep.violation(ra, mod.name, _qual(node), f"import {full}", f"'{short(node)}' imports {full}: {DENY_REASON.get(top, 'a networking / process-spawning / foreign-function facility')} — RP2 promises that no network connection is opened and no process is spawned", loc(node))
                elif top in ALLOW:
                    rep.ok(ra, f"{mod.name}: import {full}", ALLOW[top])
                else:
                    rep.violation(ra, mod.name, _qual(node), f"import {full}", f"'{short(node)}' imports {full}, which is neither in the reviewed allow-list nor in the deny-list: the privacy claim is closed-world, review the module's effects and add it to the table", loc(node))

    # ---------------------------------------------------------------- C18.b
    rb = rep.rule("C18.b", "no dynamic escape: no exec/eval/__import__/os.system...; import_module arguments carry the literal prefix 'rp2.plugin'; profiler writes no file", floor=6)
    n_dyn = 0
    for mod in mods.values():
        for node in ast.walk(mod.tree):
            if not isinstance(node, ast.Call):
                continue
            fn = unparse(node.func)
            base = fn.split(".")[-1]
            if isinstance(node.func, ast.Name) and node.func.id in DYNAMIC:
                rep.violation(rb, mod.name, _qual(node), short(node, 80), f"{short(node, 80)}: dynamic code execution / import escapes the import allow-list", loc(node))
            elif fn.startswith("os.") and (base in OS_ESCAPES or base.startswith(("exec", "spawn"))):
                rep.violation(rb, mod.name, _qual(node), short(node, 80), f"{short(node, 80)} spawns a process", loc(node))
            elif base == "import_module":
                n_dyn += 1
                ok, why = _import_arg_ok(m, mod, node)
                rep.check(ok, rb, mod.name, _qual(node), f"import_module argument has literal prefix rp2.plugin: {short(node.args[0], 60) if node.args else ''}", f"{short(node, 100)}: {why}", loc(node))
            elif base in ("runctx", "run") and "cProfile" in fn or base in ("runctx",) :
                n_dyn += 1
                first = node.args[0] if node.args else None
                const_ok = isinstance(first, ast.Constant) and isinstance(first.value, str) and first.value.startswith("_rp2_main_internal(")
                no_file = len(node.args) <= 3 and not any(k.arg in ("filename", "sort") for k in node.keywords)
                rep.check(const_ok and no_file, rb, mod.name, _qual(node), "profiler hook runs a constant rp2 call and writes no stats file", f"{short(node, 120)}: the profiler must run the constant '_rp2_main_internal(country)' and must not be given a file name (a stats file would be written outside the output and log directories)", loc(node))
    if n_dyn < 5:
        raise AnalysisError(f"found {n_dyn} import_module / profiler call sites; expected >= 5")
    for mod in mods.values():
        for node in ast.walk(mod.tree):
            if isinstance(node, ast.Attribute) and unparse(node) == "os.environ" or (isinstance(node, ast.Call) and unparse(node.func) == "os.getenv"):
                q = (mod.name, _qual(node))
                allowed = {("rp2.plugin.country.generic", "Generic.__init__"), ("rp2.logger", "create_logger"), ("rp2.rp2_main", "rp2_main")}
                par = parent(node)
                used_as_value_sink = False
                if q == ("rp2.rp2_main", "rp2_main"):
                    # presence test only
                    used_as_value_sink = not (isinstance(par, ast.Compare) and isinstance(par.ops[0], (ast.In, ast.NotIn)))
                rep.check(q in allowed and not used_as_value_sink, rb, mod.name, q[1], f"environment read in a documented place: {mod.name}:{q[1]}", f"{short(par or node, 100)} reads the environment outside the documented switches (generic country plugin, LOG_LEVEL, profiler presence test) or uses the profiler switch's value", loc(node))

    # ---------------------------------------------------------------- C18.c
    rc = rep.rule("C18.c", "inputs are read-only: open() modes, no save on opendoc handles, every save() receiver comes from _initialize_output_file", floor=8)
    for mod in mods.values():
        for node in ast.walk(mod.tree):
            if not isinstance(node, ast.Call):
                continue
            fn = unparse(node.func)
            if fn in ("open", "io.open", "os.open", "codecs.open") or fn.endswith(".open") and fn.split(".")[0] in ("gzip", "bz2", "lzma", "zipfile", "tarfile", "shelve", "dbm"):
                mode = node.args[1] if len(node.args) > 1 else next((k.value for k in node.keywords if k.arg == "mode"), None)
                ro = mode is None or (isinstance(mode, ast.Constant) and isinstance(mode.value, str) and not any(ch in mode.value for ch in "wax+"))
                if ro:
                    rep.ok(rc, f"{mod.name}:{_qual(node)} opens read-only: {short(node, 60)}")
                else:
                    ok = mod.name == "rp2.rp2_configuration_translator"
                    rep.check(ok, rc, mod.name, _qual(node), f"write-mode open only in the config translator: {short(node, 60)}", f"{short(node, 100)} opens a file for writing outside rp2_configuration_translator: the only files RP2 may create are the reports and its logs", loc(node))
            if isinstance(node.func, ast.Attribute) and node.func.attr in ("save", "saveas", "backup"):
                recv = node.func.value
                f = enclosing_function(node)
                ok = False
                if isinstance(recv, ast.Name) and f is not None:
                    defs = [n for n in ast.walk(f) if isinstance(n, (ast.Assign, ast.AnnAssign)) and any(isinstance(t, ast.Name) and t.id == recv.id for t in (n.targets if isinstance(n, ast.Assign) else [n.target])) and n.value is not None]
                    ok = len(defs) == 1 and isinstance(defs[0].value, ast.Call) and unparse(defs[0].value.func) == "self._initialize_output_file" and node.func.attr == "save" and not node.args and not node.keywords
                rep.check(ok, rc, mod.name, _qual(node), f"{_qual(node)}: save() of a document created by _initialize_output_file", f"{short(node, 80)}: the receiver is not (provably) the document created by _initialize_output_file in the same function, or it is saved under another name: the input spreadsheet must never be written", loc(node))
    # translator is imported by nobody
    importers = [mod.name for mod in mods.values() for node in ast.walk(mod.tree) if isinstance(node, (ast.Import, ast.ImportFrom)) and "rp2_configuration_translator" in unparse(node) and mod.name != "rp2.rp2_configuration_translator"]
    rep.check(not importers, rc, "rp2.rp2_configuration_translator", "<module>", "the config translator (the only writer of a non-report file) is imported by no other module", f"rp2_configuration_translator is imported by {importers}: its file-writing code becomes reachable from the tax entry points", "")
    opens = [(mod, node) for mod in mods.values() for node in ast.walk(mod.tree) if isinstance(node, ast.Call) and unparse(node.func).endswith("opendoc")]
    for mod, node in opens:
        f = enclosing_function(node)
        ok = f is not None and isinstance(parent(node), ast.Return)
        rep.check(ok, rc, mod.name, _qual(node), "the input handle is returned as opened (ezodf.opendoc)", f"{short(node, 80)}: the input spreadsheet handle is used for something other than being returned to the parser", loc(node))
    if not opens:
        raise AnalysisError("no ezodf.opendoc call found")

    # ---------------------------------------------------------------- C18.d
    rd = rep.rule("C18.d", "who-may-write table: filesystem-mutating call sites are exactly the tabled ones with the tabled path arguments", floor=6)
    table = {
        ("rp2.logger", "<module>", "mkdir"): lambda n: isinstance(n.func.value, ast.Call) and unparse(n.func.value.func) == "Path" and len(n.func.value.args) == 1 and _folds_to(prog, "rp2.logger", n.func.value.args[0]) == "./log",
        ("rp2.logger", "create_logger", "FileHandler"): lambda n: [unparse(a) for a in n.args] == ["LOG_FILE"] and _log_file_under_log(prog),
        ("rp2.rp2_main", "_setup_paths", "mkdir"): lambda n: unparse(n.func.value) == "output_dir_path" and _defined_as(n, "output_dir_path", "Path(output_dir)"),
        ("rp2.plugin.report.abstract_ods_generator", "AbstractODSGenerator._initialize_output_file", "unlink"): lambda n: unparse(n.func.value) == "output_file_path" and _out_path_ok(n),
        ("rp2.plugin.report.abstract_ods_generator", "AbstractODSGenerator._initialize_output_file", "newdoc"): lambda n: len(n.args) >= 2 and unparse(n.args[1]) == "str(output_file_path)" and _out_path_ok(n) and any(k.arg == "template" for k in n.keywords),
        ("rp2.rp2_configuration_translator", "*", "open"): lambda n: True,
    }
    seen = set()
    untabled = []
    for mod in mods.values():
        for node in ast.walk(mod.tree):
            if not isinstance(node, ast.Call):
                continue
            fn = unparse(node.func)
            base = fn.split(".")[-1]
            kind = None
            if isinstance(node.func, ast.Attribute) and base in FS_MUTATORS_ATTR and base not in ("save", "saveas", "backup", "copy", "replace", "remove", "pop"):
                kind = base
            elif base in ("copy", "replace", "remove", "move") and fn.split(".")[0] in ("shutil", "os"):
                kind = base
            elif isinstance(node.func, ast.Attribute) and base in ("replace", "rename", "remove", "copy") and _is_path_receiver(mod, node.func.value):
                kind = base  # Path.replace / Path.rename move a file: the (possibly relative) target is a write outside the tabled locations
            elif base in ("FileHandler", "RotatingFileHandler", "TimedRotatingFileHandler", "newdoc", "NamedTemporaryFile", "TemporaryDirectory", "mkstemp", "mkdtemp", "basicConfig"):
                kind = base
            if kind is None:
                continue
            q = _qual(node)
            key = (mod.name, q, kind)
            pred = table.get(key)
            if pred is None:
                untabled.append((mod, q, kind, node))
                continue
            seen.add(key)
            rep.check(bool(pred(node)), rd, mod.name, q, f"{kind} in {mod.name}:{q} targets the tabled location", f"{short(node, 120)}: the path argument is no longer the tabled one (log directory / output directory / <output_dir>/<prefix><method>_<name>)", loc(node))
    vanished = {k[2] for k in table if k[1] != "*" and k not in seen}
    for mod, q, kind, node in untabled:
        if kind in vanished:
            # the tabled writer of this kind is gone and an untabled one of the same kind appeared elsewhere: moved (extracted helper, renamed function) or new - not decidable here
            rep.defer_error(f"{loc(node)}: {short(node, 80)} ({kind}) is not a tabled writer while the tabled '{kind}' site is gone: a moved or a new write, not decided for this shape")
            continue
        rep.violation(rd, mod.name, q, f"{kind} in {mod.name}:{q}", f"{short(node, 100)} creates or modifies a file/directory and is not in the who-may-write table: RP2 may only write reports into the output directory and logs under ./log", loc(node), definite=True)
    for key in table:
        if key[1] != "*" and key not in seen:
            rep.note(f"tabled writer {key} not found any more (table entry is stale, harmless)")
    main = prog.func("rp2.rp2_main", "_find_and_run_report_generators")
    g = [n for n in ast.walk(main.node) if isinstance(n, ast.Call) and isinstance(n.func, ast.Attribute) and n.func.attr == "generate"]
    kw = {k.arg: unparse(k.value) for k in g[0].keywords} if g else {}
    rep.check(kw.get("output_dir_path") == "args.output_dir", rd, main.module, main.qualname, "generators write below args.output_dir", f"generators receive output_dir_path={kw.get('output_dir_path')}; expected the -o directory", loc(main.node))
    rep.note("-p PREFIX is concatenated into the file name unchecked: a prefix containing '../' moves the report out of the output directory (user-chosen location, not counted as a violation)")


def _is_path_receiver(mod, recv: ast.AST) -> bool:
    """The receiver of .replace()/.rename()/... is a pathlib path (mypy's type when available, else its spelling)."""
    from .. import typed

    if typed.available():
        try:
            t = typed.type_of(mod.name, recv)
        except Exception:
            t = None
        if t is not None:
            return "pathlib." in t or t.endswith("Path")
    txt = unparse(recv)
    return txt.startswith("Path(") or "path" in txt.lower().split(".")[-1]


def _folds_to(prog, module: str, node: ast.AST):
    """Constant value of an expression (module constants substituted), or UNKNOWN."""
    from ..consts import UNKNOWN, fold

    # a module constant stands for its value only if the module binds it exactly once (a rebinding in an except / if branch makes it a variable)
    tree = prog.package.modules[module].tree
    for nm in {n.id for n in ast.walk(node) if isinstance(n, ast.Name)}:
        if sum(1 for s in ast.walk(tree) if isinstance(s, ast.Name) and s.id == nm and isinstance(s.ctx, ast.Store)) > 1:
            return UNKNOWN
    return fold(prog, module, node)


def _log_file_under_log(prog) -> bool:
    """LOG_FILE is a path directly under ./log: its leading constant part (module constants substituted) starts with './log/' and nothing variable precedes it."""
    from ..consts import UNKNOWN

    stmt = prog.module_assigns.get("rp2.logger", {}).get("LOG_FILE")
    v = getattr(stmt, "value", None)
    if isinstance(v, ast.JoinedStr) and v.values:
        head = ""
        for part in v.values:
            piece = part.value if isinstance(part, ast.Constant) else _folds_to(prog, "rp2.logger", part.value) if isinstance(part, ast.FormattedValue) and part.format_spec is None and part.conversion == -1 else UNKNOWN
            if not isinstance(piece, str):
                break
            head += piece
        return head.startswith("./log/")
    return isinstance(v, ast.Constant) and str(v.value).startswith("./log/")


def _defined_as(node: ast.AST, name: str, text: str) -> bool:
    f = enclosing_function(node)
    if f is None:
        return False
    defs = [n for n in ast.walk(f) if isinstance(n, (ast.Assign, ast.AnnAssign)) and any(isinstance(t, ast.Name) and t.id == name for t in (n.targets if isinstance(n, ast.Assign) else [n.target])) and n.value is not None]
    return len(defs) == 1 and unparse(defs[0].value) == text


def _out_path_ok(node: ast.AST) -> bool:
    """output_file_path = Path(output_dir_path) / Path(f"{output_file_prefix}{accounting_method}_{output_file_name}")"""
    f = enclosing_function(node)
    if f is None:
        return False
    defs = [n for n in ast.walk(f) if isinstance(n, (ast.Assign, ast.AnnAssign)) and any(isinstance(t, ast.Name) and t.id == "output_file_path" for t in (n.targets if isinstance(n, ast.Assign) else [n.target])) and n.value is not None]
    if len(defs) != 1:
        return False
    v = defs[0].value
    return isinstance(v, ast.BinOp) and isinstance(v.op, ast.Div) and unparse(v.left) == "Path(output_dir_path)" and unparse(v.right).startswith("Path(f")


def _import_arg_ok(m, mod, node: ast.Call) -> Tuple[bool, str]:
    if not node.args:
        return False, "import_module without a module argument"
    return _expr_has_plugin_prefix(m, mod, node.args[0], node, 0)


def _literal_prefix(m, mod, expr: ast.AST, at: ast.AST) -> Optional[str]:
    fi = enclosing_function(at)
    cls = enclosing_class(at)
    folder = Folder(m.prog, mod.name)
    v = folder.fold(expr)
    if v is not UNKNOWN and isinstance(v, str):
        return v
    if isinstance(expr, ast.JoinedStr) and expr.values:
        first = expr.values[0]
        if isinstance(first, ast.Constant):
            return str(first.value)
        if isinstance(first, ast.FormattedValue):
            fv = folder.fold(first.value)
            if fv is not UNKNOWN and isinstance(fv, str) and len(expr.values) > 1 and isinstance(expr.values[1], ast.Constant) and str(expr.values[1].value).startswith("."):
                return fv + "."
            if fv is not UNKNOWN and isinstance(fv, str):
                return fv
    if isinstance(expr, ast.BinOp) and isinstance(expr.op, ast.Add):
        return _literal_prefix(m, mod, expr.left, at)
    return None


def _expr_has_plugin_prefix(m, mod, expr: ast.AST, at: ast.AST, depth: int) -> Tuple[bool, str]:
    if depth > 4:
        return False, "def-use chain too long"
    pre = _literal_prefix(m, mod, expr, at)
    if pre is not None:
        ok = pre == "rp2.plugin" or pre.startswith("rp2.plugin.")
        return ok, f"module name starts with the literal {pre!r}; only modules under 'rp2.plugin' may be loaded dynamically"
    if isinstance(expr, ast.Name):
        f = enclosing_function(at)
        if f is None:
            return False, f"{expr.id} is not a local"
        # loop target of `for ... in iter_modules(P.__path__, P.__name__ + ".")` where P = import_module(<ok>)
        for n in ast.walk(f):
            if isinstance(n, ast.For) and any(isinstance(x, ast.Name) and x.id == expr.id for x in ast.walk(n.target)):
                it = n.iter
                if isinstance(it, ast.Call) and unparse(it.func).endswith("iter_modules") and len(it.args) == 2:
                    a0, a1 = unparse(it.args[0]), unparse(it.args[1])
                    pkg = a0.split(".")[0]
                    if a0 == f"{pkg}.__path__" and a1 == f"{pkg}.__name__ + '.'":
                        defs = [d for d in ast.walk(f) if isinstance(d, (ast.Assign, ast.AnnAssign)) and any(isinstance(t, ast.Name) and t.id == pkg for t in (d.targets if isinstance(d, ast.Assign) else [d.target])) and d.value is not None]
                        if defs and all(isinstance(d.value, ast.Call) and unparse(d.value.func).endswith("import_module") and _expr_has_plugin_prefix(m, mod, d.value.args[0], d, depth + 1)[0] for d in defs):
                            return True, ""
                    return False, f"{expr.id} iterates {short(it, 80)}; expected iter_modules(<package>.__path__, <package>.__name__ + '.') of a package loaded from 'rp2.plugin'"
                # loop over a parameter: every call site must pass literals with the prefix
                if isinstance(it, ast.Name) and isinstance(f, ast.FunctionDef) and it.id in [a.arg for a in f.args.args + f.args.kwonlyargs]:
                    sites = []
                    for other in ast.walk(m.prog.package.get(mod.name).tree):
                        if isinstance(other, ast.Call) and isinstance(other.func, ast.Name) and other.func.id == f.name:
                            val = next((k.value for k in other.keywords if k.arg == it.id), None)
                            if val is None:
                                idx = [a.arg for a in f.args.args].index(it.id) if it.id in [a.arg for a in f.args.args] else None
                                val = other.args[idx] if idx is not None and idx < len(other.args) else None
                            sites.append((other, val))
                    if not sites:
                        return False, f"no call site of {f.name} found to bound {it.id}"
                    for site, val in sites:
                        if not isinstance(val, (ast.List, ast.Tuple)):
                            return False, f"{f.name} is called with {it.id}={short(val, 60) if val is not None else None}; expected a list of names under 'rp2.plugin'"
                        for el in val.elts:
                            ok, why = _expr_has_plugin_prefix(m, mod, el, site, depth + 1)
                            if not ok:
                                return False, why
                    return True, ""
        return False, f"the module name {expr.id} is not a literal under 'rp2.plugin' nor a name produced by iter_modules over such a package"
    return False, f"the module name {short(expr, 60)} is not a literal under 'rp2.plugin'"

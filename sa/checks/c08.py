"""C08 — histories that overdraw an account are rejected unless -n is given."""

from __future__ import annotations

import ast
from decimal import Decimal
from typing import Any, List, Optional

from ..consts import UNKNOWN, Folder
from ..loader import AnalysisError, ancestors, loc, short, unparse
from ..norm import Ctx, mk_and, mk_not, show, subterms, tkey
from ..report import Report
from ..symexec import delta_of
from .c07 import BalanceModel, _sorted_by_timestamp

META = {
    "title": "Histories that overdraw an account are rejected unless -n is given",
    "technique": "must-follow path rule over the effect summaries of the balance replay (every debit of a final balance is followed, before the next debit "
    "and before the loop back-edge, by a conditional raise on the slot just debited); normal form of the overdraft predicate (tolerance constant folded, strict "
    "comparison, single escape atom); def-use chain of the -n option from argparse to the predicate; call-chain rule that the check runs for every asset before "
    "any report generator and that no handler on the way swallows the error",
    "explanation": "every statement that lowers a final balance (2 debit sites: transfer source, out-transaction account) is followed on all paths by "
    "'if <updated balance> is not within 1e-10 of zero and < 0 and not allow_negative_balances: raise RP2ValueError(naming exchange and holder)'; no credit-side "
    "or final-only check exists; the replay runs in timestamp order with in-transactions first in a stable sort, so a same-instant credit precedes the debit; "
    "-n is a store_true option (default False) forwarded unchanged to Configuration.allow_negative_balances, the only escape atom; the balance set is built "
    "unconditionally for every asset inside ComputedData before any generator runs and the error reaches the top-level handler that exits non-zero; "
    "with -n the negative balance is reported: the Account Balances table of the full report writes one row per balance of the set whatever its sign.",
    "restated": "RP2Decimal comparison operators quantise to 13 decimals; the parser's crypto-fee split keeps each row's exact instant (C11.e); the running balance is built from the per-class flows of the replay (C07.a)",
    "not_decided": "Decimal.quantize semantics and stability of sorted() are trusted; run-time values.",
    "assumptions": ["Decimal.quantize rounds to the mask's exponent", "sorted() is stable"],
}


def _is_negative(delta) -> bool:
    if delta is None:
        return False
    if delta[0] == "neg":
        return True
    if delta[0] == "add":
        return all(x[0] == "neg" for x in delta[1])
    return False


def run(rep: Report, tier: str) -> None:
    bm = BalanceModel()
    m = bm.m
    prog, norm = m.prog, m.norm
    fi = bm.fi
    rep.analysed(fi)
    ra = rep.rule("C08.a", "every debit of a final balance is followed by a conditional raise on the updated slot, before the next debit / back-edge", floor=2, follows_calls=True)
    rb = rep.rule("C08.b", "overdraft predicate: not within 1e-10 of zero AND < 0 AND not allow_negative_balances", floor=4, follows_calls=True)
    rc = rep.rule("C08.c", "the error names the account (exchange and holder of the debited slot)", floor=2)
    mask = Folder(prog, "rp2.balance").fold(ast.parse("CRYPTO_BALANCE_DECIMAL_MASK", mode="eval").body)
    debit_sites = 0
    seen_sites = set()
    for kind in ("in", "intra", "out"):
        paths = bm.paths_for(kind)
        falls = [p for p in paths if p.exit in ("fall", "continue")]  # every path that reaches the back edge
        raises = [p for p in paths if p.exit == "raise"]
        for p in falls:
            evs = p.events
            for i, e in enumerate(evs):
                if e[0] != "store" or bm.role_of(e[1]) != "final":
                    continue
                d = delta_of(e[3], e[1], e[2])
                site = e[5]
                if d is None:
                    if id(site) not in seen_sites:
                        seen_sites.add(id(site))
                        rep.violation(
                            ra,
                            fi.module,
                            fi.qualname,
                            f"final balance is updated additively by the flow ({kind})",
                            f"{short(site, 100)} stores {show(e[3])[:200]} into a final balance: the quantity the overdraft check sees is no longer the running sum of the account's flows "
                            "(overdrafts can build up unnoticed or be reported on sound histories)",
                            loc(site),
                        )
                    continue
                if not _is_negative(d):
                    continue  # credit
                if id(site) in seen_sites:
                    continue
                seen_sites.add(id(site))
                debit_sites += 1
                newval = e[3]
                first = min(j for j, x in enumerate(evs) if any(tkey(s) == tkey(newval) for s in _tuples(x)))
                # next debit of a final balance
                nxt = len(evs)
                for j in range(i + 1, len(evs)):
                    if evs[j][0] == "store" and bm.role_of(evs[j][1]) == "final" and _is_negative(delta_of(evs[j][3], evs[j][1], evs[j][2])):
                        nxt = j
                        break
                checks_on_fall = [j for j in range(first, nxt) if evs[j][0] == "cond" and any(tkey(s) == tkey(newval) for s in _tuples(evs[j][1]))]
                # matching raise path: shares the events up to the first appearance of the new value, then raises before the next debit
                match = None
                for rp in raises:
                    revs = rp.events
                    if len(revs) <= first or [tkey(x[:3]) for x in revs[:first]] != [tkey(x[:3]) for x in evs[:first]]:
                        continue
                    tail = revs[first:]
                    if any(x[0] == "store" and bm.role_of(x[1]) == "final" and x[5] is not site and _is_negative(delta_of(x[3], x[1], x[2])) for x in tail):
                        continue
                    if any(x[0] == "cond" and any(tkey(s2) == tkey(newval) for s2 in _tuples(x[1])) for x in tail):
                        match = rp
                        break
                rep.check(
                    bool(checks_on_fall) and match is not None,
                    ra,
                    fi.module,
                    fi.qualname,
                    f"debit of final[{kind} source account] is guarded by an overdraft check",
                    f"the statement {short(site)} lowers a final balance and no conditional raise on the updated balance is reached before the next debit or the end of the iteration: "
                    "a transient overdraft at this transaction would go unnoticed",
                    loc(site),
                    detail=short(site, 100),
                )
                if not checks_on_fall or match is None:
                    continue
                tail = match.events[first:]
                conds = [x[1] if x[2] else mk_not(x[1]) for x in tail if x[0] == "cond" and not _is_dispatch(bm, x[1])]
                cond = mk_and(conds)
                # what the public property configuration.allow_negative_balances evaluates to (C08.e decides that this is the -n flag as given)
                allow = norm.eval(ast.parse("configuration.allow_negative_balances", mode="eval").body, norm.ctx_for(fi, subst_locals=False))[0]
                zero = ("const", Decimal(0))
                want = mk_and(
                    [
                        ("cmp", "!=", ("xcall", "quantize", newval, (("const", mask),), ()), zero),
                        ("cmp", "<", newval, zero),
                        mk_not(allow),
                    ]
                )
                rep.check(
                    tkey(cond) == tkey(want),
                    rb,
                    fi.module,
                    fi.qualname,
                    f"overdraft predicate for the {kind} debit",
                    f"the rejection after {short(site, 80)} happens under {show(cond)[:500]}; expected: (updated balance quantized to the tolerance != 0) and (updated balance < 0) and not configuration.allow_negative_balances",
                    loc(site),
                )
                rz = [x for x in match.events if x[0] == "raise"]
                msg = rz[-1][1] if rz else ("unk", "")
                key = e[2]
                parts = [v for _, v in key[2]] if key[0] == "new" else [key]
                named = all(any(tkey(s) == tkey(part) for s in _tuples(msg, skip_old=True)) for part in parts)
                is_value_error = msg[0] == "new" and msg[1].endswith(":RP2ValueError")
                rep.check(named and is_value_error, rc, fi.module, fi.qualname, f"error for the {kind} debit names exchange and holder", f"the error raised after {short(site, 80)} is {show(msg)[:300]}; it must be an RP2ValueError whose message interpolates the exchange and the holder of the overdrawn account", loc(match.exit_node))
        # no rejection on credit-only paths (too strict): IN transactions never raise on balance
        if kind == "in":
            rep.check(not raises, rb, fi.module, fi.qualname, "no balance check on the credit side", "replaying an IN transaction can raise: a history in which no account goes negative could be rejected", loc(bm.replay))
    if debit_sites < 2:
        raise AnalysisError(f"found {debit_sites} debit sites of final balances; expected >= 2 (transfer source, out-transaction account)")
    ok_mask = mask is not UNKNOWN and isinstance(mask, Decimal) and mask.as_tuple().exponent == -10 and mask == 1
    rep.check(ok_mask, rb, "rp2.balance", "CRYPTO_BALANCE_DECIMAL_MASK", "tolerance mask folds to 1e-10 quantum", f"the tolerance mask folds to {mask!r}; the statement's tolerance is 1e-10 (ten decimal places)", loc(bm.replay))
    # final-only / post-loop checks are not a substitute; also nothing after the loop may raise on balances
    # (a credit refilling the account later must not hide the transient overdraft: guaranteed by C08.a's per-debit rule)

    # ---------------------------------------------------------------- C08.d
    # what is debited is what leaves the account: the per-class flows of the replay are C07.a's obligation; restated because the overdraft test is only as
    # right as the amounts it adds up (a debit taken from an optional, exchange-supplied total under-counts the outflow)
    from . import c07 as _c07

    rj = rep.rule("C08.j", "the running balance the overdraft test sees is built from the per-class flows (C07.a restated)", floor=2)
    sub7 = Report("C07", tier)
    _c07.run(sub7, tier)
    rep.absorb(sub7, rj, ("C07.a",), "balance replay flows")
    rd = rep.rule("C08.d", "replay in chronological order, in-transactions first in a stable sort", floor=2)
    it = bm.replay_iterable()
    from .c07 import replay_order

    sorted_ok, first_src = replay_order(m, fi, bm.replay)
    rep.check(sorted_ok, rd, fi.module, fi.qualname, "replay list = sorted(..., key=timestamp)", "the replay does not iterate sorted(<all transactions>, key=<timestamp>): overdrafts must be judged in chronological, not sheet, order", loc(bm.replay))
    first_in = first_src is not None and unparse(first_src).endswith("unfiltered_in_transaction_set")
    rep.check(first_in, rd, fi.module, fi.qualname, "in-transactions come first in the list handed to the stable sort", "the concatenation handed to sorted() does not start with the in-transactions: a buy and a sell at the same instant would be replayed debit-first and rejected", loc(bm.replay))

    # ---------------------------------------------------------------- C08.e
    re_ = rep.rule("C08.e", "-n plumbing: argparse store_true (default False) -> Configuration(allow_negative_balances=args...) -> validated field -> property", floor=5)
    main_mod = "rp2.rp2_main"
    setup = prog.func(main_mod, "_setup_argument_parser")
    rep.analysed(setup)
    opt = None
    for c in ast.walk(setup.node):
        if isinstance(c, ast.Call) and isinstance(c.func, ast.Attribute) and c.func.attr == "add_argument":
            flags = [a.value for a in c.args if isinstance(a, ast.Constant) and isinstance(a.value, str)]
            if "-n" in flags:
                opt = (c, flags)
    if opt is None:
        raise AnalysisError("no argparse option with flag -n in _setup_argument_parser")
    c, flags = opt
    kws = {k.arg: k.value for k in c.keywords}
    act = kws.get("action")
    rep.check(isinstance(act, ast.Constant) and act.value == "store_true" and "default" not in kws, re_, main_mod, setup.qualname, "-n is store_true with default False", f"-n is declared as {short(c)}; expected action='store_true' and no other default (negative balances are rejected unless the switch is given)", loc(c))
    long_flags = [f for f in flags if f.startswith("--")]
    dest = kws["dest"].value if isinstance(kws.get("dest"), ast.Constant) else (long_flags[0][2:].replace("-", "_") if long_flags else None)
    internal = prog.func(main_mod, "_rp2_main_internal")
    rep.analysed(internal)
    ictx = norm.ctx_for(internal, subst_locals=False)
    cfg_new = None
    for n in ast.walk(internal.node):
        if isinstance(n, ast.Call):
            t = norm.term(n, ictx)
            if t[0] == "new" and t[1].endswith(":Configuration"):
                cfg_new = (n, t)
    if cfg_new is None:
        raise AnalysisError("_rp2_main_internal constructs no Configuration")
    kw = dict(cfg_new[1][2])
    got = kw.get("allow_negative_balances")
    want = ("attr", ("sym", "args"), dest)
    rep.check(got is not None and tkey(got) == tkey(want), re_, main_mod, internal.qualname, "Configuration(allow_negative_balances=args.<dest of -n>)", f"Configuration receives allow_negative_balances={show(got) if got else '<default>'}; expected args.{dest} (the parsed -n switch)", loc(cfg_new[0]))
    cfg = prog.cls("rp2.configuration", "Configuration")
    init = m.init_of(cfg)
    dflt = init.param_defaults().get("allow_negative_balances")
    rep.check(isinstance(dflt, ast.Constant) and dflt.value is False, re_, cfg.module, init.qualname, "Configuration default is False", f"Configuration.__init__ default for allow_negative_balances is {short(dflt) if dflt is not None else None}", loc(init.node))
    defs = m.field_defs(cfg).get("Configuration.__allow_negative_balances", [])
    from ..norm import strip_validators

    rep.check(len(defs) == 1 and tkey(strip_validators(defs[0][1])) == tkey(("sym", "allow_negative_balances")) and defs[0][0] == ("const", True), re_, cfg.module, init.qualname, "field = validated parameter, unconditionally", f"Configuration.__allow_negative_balances is defined as {[(show(g), show(v)) for g, v, _ in defs]}", loc(init.node))
    prop = prog.func(cfg.module, "Configuration.allow_negative_balances")
    pt = norm.inline(prop, ("sym", "configuration"), {}, Ctx(prop.module, cfg))
    rep.check(pt == ("fld", ("sym", "configuration"), "Configuration.__allow_negative_balances"), re_, cfg.module, prop.qualname, "property returns the field", f"Configuration.allow_negative_balances normalises to {show(pt)}", loc(prop.node))

    # ---------------------------------------------------------------- C08.f
    rf = rep.rule("C08.f", "the balance set is built unconditionally for every asset before any generator; the error is not swallowed", floor=4)
    chain = [
        ("rp2.computed_data", "ComputedData.__init__", ":BalanceSet", "new"),
        ("rp2.tax_engine", "compute_tax", ":ComputedData", "new"),
        (main_mod, "_rp2_main_internal", "rp2.tax_engine:compute_tax", "call"),
    ]
    for mod, qual, target, kind in chain:
        f = prog.func(mod, qual)
        rep.analysed(f)
        ctx = norm.ctx_for(f, subst_locals=False)
        sites = []
        for n in ast.walk(f.node):
            if isinstance(n, ast.Call):
                t = norm.term(n, ctx)
                if (kind == "new" and t[0] == "new" and t[1].endswith(target)) or (kind == "call" and (t[0] == "call" and t[1] == target or _calls_func(prog, f, n, target))):
                    sites.append(n)
        if not sites:
            raise AnalysisError(f"{qual}: no call/construction of {target} found")
        for n in sites:
            cond_anc = [a for a in ancestors(n) if isinstance(a, (ast.If, ast.IfExp, ast.While))]
            inside = [a for a in cond_anc if a is not f.node]
            swallow = _swallowing_handlers(n)
            rep.check(not inside and not swallow, rf, mod, qual, f"{target.split(':')[-1]} reached unconditionally from {qual}, error propagates", f"{short(n, 80)} is conditional ({[short(a.test, 40) for a in inside if hasattr(a, 'test')]}) or sits under a handler that swallows the error ({[short(h, 60) for h in swallow]}): an overdrawn history could still produce reports", loc(n))
    # generator call is after and outside the per-asset loop
    loops = [n for n in ast.walk(internal.node) if isinstance(n, ast.For) and any(isinstance(c, ast.Call) and _calls_func(prog, internal, c, "rp2.tax_engine:compute_tax") for c in ast.walk(n))]
    gens = [n for n in ast.walk(internal.node) if isinstance(n, ast.Call) and _calls_func(prog, internal, n, f"{main_mod}:_find_and_run_report_generators")]
    if len(loops) != 1 or not gens:
        raise AnalysisError("per-asset loop or generator call not found in _rp2_main_internal")
    loop = loops[0]
    for gcall in gens:
        after = gcall.lineno > loop.end_lineno and not any(a is loop for a in ancestors(gcall))
        rep.check(after, rf, main_mod, internal.qualname, "report generators run after the per-asset loop", "the report generators are invoked inside or before the per-asset loop: a report could be written before a later asset's overdraft is detected", loc(gcall))

    rh = rep.rule("C08.h", "the overdraft test's comparisons: RP2Decimal operators quantise to 13 decimals; is_equal_within_precision quantises to the given mask", floor=8)
    from .. import engine

    engine.check_decimal_comparisons(rep, rh)

    ri = rep.rule("C08.i", "the fee-only disposal of a crypto-fee acquisition and the acquisition itself keep the row's exact instant (C11.e restated): 'at any moment' is judged on the spreadsheet's timestamps", floor=20)
    from . import c11

    c11.check_split(rep, ri)

    # ---------------------------------------------------------------- C08.g
    # 'with -n the run proceeds and reports the negative balance': the Account Balances table of the full report writes one row per
    # balance of the set, whatever its sign (no row is skipped), the Final Balance column shows the balance's own final_balance
    from . import c13

    rg = rep.rule("C08.g", "with -n the negative balance is reported: the Account Balances table has one row per balance of the set, no sign filter", floor=8)
    fr = c13.FullReport()
    c13.check_writer(rep, fr, "__generate_account_balances", rg, rg)
    # ... and the record that carries the balance to the report accepts a negative figure: its amounts are validated as decimals, not as positive decimals
    bal = prog.cls("rp2.balance", "Balance")
    post = bal.methods.get("__post_init__") or bal.methods.get("__init__")
    if post is None:
        raise AnalysisError("Balance has neither __post_init__ nor __init__")
    rep.analysed(post)
    signed = [n for n in ast.walk(post.node) if isinstance(n, ast.Call) and isinstance(n.func, ast.Attribute) and n.func.attr.startswith("type_check_positive") and any("balance" in unparse(a) for a in n.args)]
    for n in signed:
        rep.violation(rg, post.module, post.qualname, f"Balance amounts accept negative values: {short(n, 60)}", f"{short(n, 100)} rejects a negative amount: with -n an account that ends below zero cannot be put into the balance set, so the run aborts instead of reporting the negative balance", loc(n), definite=True)
    if not signed:
        rep.ok(rg, "Balance validates its four amounts as plain decimals (negative values representable)")


def _is_dispatch(bm, cond) -> bool:
    """isinstance(<tx>, <class>) dispatch conditions of the replay loop (not part of the overdraft predicate)."""
    t = cond[1] if cond[0] in ("truthy", "not") else cond
    t = t[1] if t[0] == "truthy" else t
    return t[0] == "xcall" and t[1] == "isinstance"


def _tuples(t: Any, skip_old: bool = False):
    if isinstance(t, tuple):
        if skip_old and t and t[0] == "old":
            return  # the account inside a dictionary read is not a mention of the account in the message
        yield t
        for x in t:
            if isinstance(x, tuple):
                yield from _tuples(x, skip_old)


def _calls_func(prog, f, call: ast.Call, target_fq: str) -> bool:
    if isinstance(call.func, ast.Name):
        res = prog.resolve_name(f.module, call.func.id)
        return bool(res and res[0] == "func" and res[1].fq == target_fq)
    return False


def _swallowing_handlers(node: ast.AST) -> List[ast.ExceptHandler]:
    """Handlers of enclosing try blocks (node in the try body) that can catch RP2ValueError and neither re-raise nor exit."""
    from ..paths import terminates

    out = []
    child = node
    for anc in ancestors(node):
        if isinstance(anc, ast.Try) and any(child is s or child in ast.walk(s) for s in anc.body):
            for h in anc.handlers:
                names = unparse(h.type) if h.type is not None else "BaseException"
                catches = any(x in names for x in ("Exception", "RP2ValueError", "RP2Error", "BaseException"))
                if catches and not terminates(h.body):
                    out.append(h)
        child = anc
    return out

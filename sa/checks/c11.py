"""C11 — parsed transactions equal the spreadsheet rows for any column layout."""

from __future__ import annotations

import ast
import re
from typing import Any, Dict, List, Optional, Tuple

from ..consts import UNKNOWN, fold_module_const
from ..loader import AnalysisError, ancestors, loc, short, unparse
from ..norm import Ctx, show, subterms, tkey
from ..paths import enumerate_paths
from ..report import Report
from ..rp2model import model
from ..symexec import SPath, SymExec

META = {
    "title": "Parsed transactions equal the spreadsheet rows for any column layout",
    "technique": "table agreement between the header keyword tables and the constructors' signatures, comprehension normal form of the argument pack, format-spec rule on the "
    "float->decimal conversion, exactly-one-transaction path rules on the row loop and on the row handler (no break/continue/early return), keyword-forwarding rule on the "
    "crypto-fee split, counter rule on artificial ids",
    "explanation": "for each table kind the header keyword set equals the constructor's parameters (minus configuration/row/from_lot), mandatory parameters are keywords, and the "
    "EntrySetType tested, the argument-pack getter, the class name given to the numeric conversion and the class instantiated all belong to the same kind; the pack maps every "
    "configured keyword to the cell at its own column and reads no other column; every RP2Decimal-annotated parameter is converted through a fixed-point format with >= 11 "
    "fractional digits into a string handed to RP2Decimal (None stays None); inside a table every data row reaches exactly one row handler call with its own values and row "
    "number, the loop has no break/continue/return, the handler adds exactly one transaction per row (plus one artificial fee-only disposal on the crypto-fee split), the "
    "artificial list is drained into the set of each transaction's class; the split forwards every field of the acquisition unchanged except crypto_fee=None and extended notes, "
    "and builds a FEE out-transaction of zero amount and the crypto fee at the same instant/account/price with a fresh strictly negative id.",
    "restated": 'documented defaults of empty optional cells per class and per combination of supplied columns, with constructor read order (C04.b)',
    "not_decided": "what ezodf returns for a cell, LibreOffice's rendering of blank rows, documented defaults of empty-string cells.",
    "assumptions": ["ezodf yields every row of the sheet once, in order", "format(float, '.11f') is the correctly rounded fixed-point rendering"],
}

OP = "rp2.ods_parser"
CFG = "rp2.configuration"
KINDS = {"in": ("IN", "InTransaction", "in_header"), "out": ("OUT", "OutTransaction", "out_header"), "intra": ("INTRA", "IntraTransaction", "intra_header")}
NON_HEADER_PARAMS = {"self", "configuration", "row", "from_lot"}


def _calls_new_helper(p) -> bool:
    return p.has(lambda e: isinstance(e, tuple) and e and e[0] == "newcall")


def find_row_loop(rep: Report, rule: str, prog, po):
    """The loop of parse_ods over the rows of the asset's sheet: `for .. in [enumerate(]<sheet>.rows()[)]`, or the same through a generator helper of the
    parser module that hands on the rows of its argument. A helper that can stop before its source is exhausted (return / break inside its loop) is a
    definite finding: everything below that point is never parsed. Returns (loop, helper FuncInfo or None)."""
    for n in po.node.body:
        if not isinstance(n, ast.For):
            continue
        it = n.iter
        if isinstance(it, ast.Call) and isinstance(it.func, ast.Name) and it.func.id == "enumerate" and len(it.args) == 1:
            it = it.args[0]
        if "rows()" in unparse(it):
            return n, None
        if isinstance(it, ast.Call) and isinstance(it.func, ast.Name) and len(it.args) == 1 and not it.keywords:
            h = prog.functions.get(f"{po.module}:{it.func.id}")
            if h is None or not any(isinstance(x, (ast.Yield, ast.YieldFrom)) for x in ast.walk(h.node)) or len(h.param_names) != 1:
                continue
            src = h.param_names[0]
            inner = [x for x in ast.walk(h.node) if isinstance(x, ast.For) and unparse(x.iter) == f"{src}.rows()"]
            yf = [x for x in ast.walk(h.node) if isinstance(x, ast.YieldFrom) and unparse(x.value) == f"{src}.rows()"]
            if len(inner) + len(yf) != 1:
                continue
            rep.analysed(h)
            stops = [x for x in ast.walk(h.node) if isinstance(x, (ast.Return, ast.Break))] + [x for x in ast.walk(h.node) if isinstance(x, ast.Raise) and "StopIteration" in unparse(x)]
            skips = [x for x in ast.walk(h.node) if isinstance(x, ast.Continue)]
            yields = [x for x in ast.walk(h.node) if isinstance(x, ast.Yield)]
            hands_on = bool(yf) or (len(yields) == 1 and isinstance(yields[0].value, ast.Name) and isinstance(inner[0].target, ast.Name) and yields[0].value.id == inner[0].target.id
                                    and not any(isinstance(a, (ast.If, ast.Try, ast.While)) for a in ancestors(yields[0]) if a is not h.node and a is not inner[0]))
            for x in stops:
                rep.violation(rule, h.module, h.qualname, f"row source {h.qualname} ends before the sheet does", f"parse_ods reads its rows through {h.qualname}, which stops at line {x.lineno} ({short(x, 40)}) before {src}.rows() is exhausted: tables, stray data and structural faults below that point are never parsed - a malformed sheet is accepted and reports are written", loc(x), definite=True)
            if not stops:
                rep.check(hands_on and not skips, rule, h.module, h.qualname, f"row source {h.qualname} hands on every row", f"{h.qualname} does not yield every row of {src}.rows() unconditionally: skipped rows are never examined by the parser", loc(h.node), definite=True)
            return n, h
    raise AnalysisError("row loop of parse_ods not found")


def _drains_by_class(m, po, drain: ast.For) -> bool:
    """Every path of the drain loop's body either adds this transaction to the set of its own class (exactly one add_entry, on the set keyed by the
    EntrySetType of the class the path established by isinstance) or raises having excluded all three classes; all three classes are served."""
    from ..symexec import SPath, SymExec

    se = SymExec(m.norm, m.norm.ctx_for(po, subst_locals=False), inline_helpers=False)
    init = SPath()
    t = ("sym", "t")
    init.vars[drain.target.id] = (t, ("cls", "rp2.abstract_transaction:AbstractTransaction"))
    want = {"rp2.in_transaction:InTransaction": "IN", "rp2.out_transaction:OutTransaction": "OUT", "rp2.intra_transaction:IntraTransaction": "INTRA"}
    served = set()

    def inst(c):  # class name of an 'isinstance(t, C)' test
        if c[0] == "truthy" and c[1][0] == "xcall" and c[1][1] == "isinstance" and len(c[1][3]) == 2 and c[1][3][0] == t and c[1][3][1][0] == "sym" and str(c[1][3][1][1]).startswith("class:"):
            return c[1][3][1][1][len("class:") :]
        return None

    for p in se.run(drain.body, init):
        conds = p.conds()
        pos = [inst(c) for c in conds if inst(c)]
        neg = [inst(c[1]) for c in conds if c[0] == "not" and inst(c[1])]
        if len(pos) + len(neg) != len(conds):
            return False  # a further condition decides where (or whether) the transaction goes
        adds = [dict(e[1][2]) for e in p.calls() if e[1][0] == "call" and e[1][1].endswith("TransactionSet.add_entry")]
        if p.exit == "raise":
            if pos or adds or set(neg) != set(want):
                return False
            continue
        if p.exit != "fall" or len(pos) != 1 or pos[0] not in want or len(adds) != 1:
            return False
        a = adds[0]
        key = a.get("self")
        if a.get("entry") != t or not (isinstance(key, tuple) and key[0] == "old" and key[1] == ("sym", "unfiltered_transaction_sets") and key[2][0] == "const" and getattr(key[2][1], "member", None) == want[pos[0]]):
            return False
        served.add(pos[0])
    return served == set(want)


def run(rep: Report, tier: str) -> None:
    m = model()
    prog, norm = m.prog, m.norm
    classes = m.transaction_classes()

    # ---------------------------------------------------------------- C11.a
    ra = rep.rule("C11.a", "header keyword tables == constructor parameters; kind agreement in _create_transaction", floor=9)
    headers = fold_module_const(prog, CFG, "_HEADER_COLUMNS")
    if headers is UNKNOWN or not isinstance(headers, dict):
        raise AnalysisError("_HEADER_COLUMNS is not constant-foldable")
    for kind, (est, cname, hkey) in KINDS.items():
        ci = classes[kind]
        init = m.init_of(ci)
        rep.analysed(init)
        params = [p for p in init.param_names if p not in NON_HEADER_PARAMS]
        kws = set(headers.get(hkey, ()))
        rep.check(kws == set(params), ra, CFG, "_HEADER_COLUMNS", f"{hkey} keywords == {cname} constructor parameters", f"{hkey} allows {sorted(kws)}; {cname}.__init__ takes {sorted(params)}: a keyword without a parameter raises TypeError for every input, a parameter without a keyword can never be supplied (only in table: {sorted(kws - set(params))}, only in constructor: {sorted(set(params) - kws)})", loc(init.node))
        mandatory = [p for p in params if p not in init.param_defaults()]
        rep.check(set(mandatory) <= kws, ra, CFG, "_HEADER_COLUMNS", f"{cname}: mandatory parameters are header keywords", f"mandatory parameters {sorted(set(mandatory) - kws)} of {cname} cannot be configured", loc(init.node))
    ct = prog.func(OP, "_create_transaction")
    rep.analysed(ct)
    branches = _kind_branches(ct)
    for kind, (est, cname, hkey) in KINDS.items():
        b = branches.get(est)
        if b is None:
            rep.violation(ra, OP, ct.qualname, f"_create_transaction handles {est}", f"_create_transaction has no branch for EntrySetType.{est}", loc(ct.node))
            continue
        txt = " ".join(unparse(s) for s in b)
        getter = f"configuration.get_{kind}_table_constructor_argument_pack(row_values)"
        conv = f"_process_constructor_argument_pack(configuration, argument_pack, internal_id, '{cname}')"
        new = f"transaction = {cname}(**argument_pack)"
        ok = getter in txt and conv in txt and new in txt
        rep.check(ok, ra, OP, ct.qualname, f"{est}: pack getter, numeric-conversion class and instantiated class are all {cname}", f"the {est} branch of _create_transaction is [{txt[:260]}]; expected {getter}, then {conv}, then {new} (a crossed kind reads another table's columns or leaves numbers unconverted)", loc(b[0]))
    cfg = prog.cls(CFG, "Configuration")
    for kind, (est, cname, hkey) in KINDS.items():
        g = prog.func(CFG, f"Configuration.get_{kind}_table_constructor_argument_pack")
        want = f"return self.__get_table_constructor_argument_pack(data, '{kind}', self.__{hkey})"
        rep.check([unparse(s) for s in g.body] == [want], ra, CFG, g.qualname, f"{kind} pack is built from the {hkey} map", f"{g.qualname} is {[unparse(s) for s in g.body]}; expected {want}", loc(g.node))
        d = m.field_defs(cfg).get(f"Configuration.__{hkey}", [])
        vals = [show(v) for _, v, _ in d]
        ok = len(d) == 2 and any("_validate_header_section" in v and f"normalized_section_name" in v for v in vals)
        rep.check(ok, ra, CFG, "Configuration.__init__", f"{hkey} map comes from _validate_header_section of its own section", f"Configuration.__{hkey} is defined as {vals}", loc(cfg.node))

    # ---------------------------------------------------------------- C11.b
    rb = rep.rule("C11.b", "argument pack maps each configured keyword to the cell at its own column; header map validated", floor=5)
    gp = prog.func(CFG, "Configuration.__get_table_constructor_argument_pack")
    rep.analysed(gp)
    comps = [n for n in ast.walk(gp.node) if isinstance(n, ast.DictComp)]
    ok = False
    desc = "no dict comprehension"
    if len(comps) == 1 and len(comps[0].generators) == 1:
        c = comps[0]
        g = c.generators[0]
        desc = unparse(c)
        if isinstance(g.target, ast.Tuple) and len(g.target.elts) == 2 and not g.ifs:
            k, v = unparse(g.target.elts[0]), unparse(g.target.elts[1])
            ok = unparse(g.iter) == "header.items()" and unparse(c.key) == k and unparse(c.value) == f"data[{v}]"
    rep.check(ok, rb, CFG, gp.qualname, "pack = {keyword: data[column] for keyword, column in header.items()}", f"the argument pack is built as {desc}; expected every keyword of the header map paired with the cell at that keyword's own column (an offset or a crossed pair reads the wrong column)", loc(gp.node))
    rets = [n for n in ast.walk(gp.node) if isinstance(n, ast.Return) and n.value is not None]
    direct = bool(comps) and len(rets) == 1 and rets[0].value is comps[0]  # `return {…}` without a local in between
    rep.check(direct or (len(rets) == 1 and isinstance(rets[0].value, ast.Name) and any(isinstance(n, (ast.Assign, ast.AnnAssign)) and n.value is comps[0] for n in ast.walk(gp.node)) if comps else False), rb, CFG, gp.qualname, "the pack is returned unmodified", "the argument pack is modified between the comprehension and the return", loc(gp.node))
    check_header_validation(rep, rb)


    # ---------------------------------------------------------------- C11.c
    rc = rep.rule("C11.c", "numbers: RP2Decimal-annotated parameters are converted through a fixed-point format with >= 11 fractional digits into a string", floor=5)
    pp = prog.func(OP, "_process_constructor_argument_pack")
    rep.analysed(pp)
    convs = [n for n in ast.walk(pp.node) if isinstance(n, ast.Call) and unparse(n.func) == "RP2Decimal"]
    ok = False
    desc = ""
    if len(convs) == 1 and len(convs[0].args) == 1 and isinstance(convs[0].args[0], ast.JoinedStr):
        js = convs[0].args[0]
        fv = [v for v in js.values if isinstance(v, ast.FormattedValue)]
        lits = [v for v in js.values if isinstance(v, ast.Constant)]
        if len(fv) == 1 and not lits and fv[0].format_spec is not None:
            spec = unparse(fv[0].format_spec).strip("f'\"")
            spec = "".join(str(v.value) for v in fv[0].format_spec.values if isinstance(v, ast.Constant))
            desc = spec
            mm = re.fullmatch(r"\.(\d+)f", spec)
            ok = bool(mm) and int(mm.group(1)) >= 11 and unparse(fv[0].value) == "value"
    rep.check(ok, rc, OP, pp.qualname, "float -> f'{value:.Nf}' (N >= 11) -> RP2Decimal", f"the numeric conversion is {short(convs[0], 80) if convs else 'missing'} (format spec '{desc}'); expected a fixed-point format with at least 11 fractional digits ('.11f'): significant-digit ('g') or shorter formats silently round amounts such as 43210.12345678", loc(convs[0]) if convs else loc(pp.node))
    assign = next((n for n in ast.walk(pp.node) if isinstance(n, ast.Assign) and convs and convs[0] in list(ast.walk(n.value))), None)
    ok = assign is not None and unparse(assign.targets[0]) == "argument_pack[numeric_parameter]" and unparse(assign.value).startswith("None if value is None else ") and "value = argument_pack[numeric_parameter]" in unparse(pp.node)
    rep.check(ok, rc, OP, pp.qualname, "converted value replaces the same parameter; None stays None", "the converted number is not stored back under the same parameter of the pack (or empty cells no longer stay None)", loc(pp.node))
    loops = [n for n in ast.walk(pp.node) if isinstance(n, ast.For)]
    ok = len(loops) == 1 and unparse(loops[0].iter) == "numeric_parameters" and "numeric_parameters: List[str] = _get_decimal_constructor_argument_names(class_name)" in unparse(pp.node) and not any(isinstance(n, (ast.Break, ast.Continue)) for n in ast.walk(loops[0]))
    rep.check(ok, rc, OP, pp.qualname, "every decimal parameter of the class is converted (no break/continue)", "the conversion loop no longer covers every name returned by _get_decimal_constructor_argument_names(class_name)", loc(pp.node))
    gd = prog.func(OP, "_get_decimal_constructor_argument_names")
    ok = "parameter_type in [RP2Decimal, Optional[RP2Decimal]]" in unparse(gd.node) and "inspect.getfullargspec(class_to_inspect.__init__)" in unparse(gd.node)
    rep.check(ok, rc, OP, gd.qualname, "decimal parameters = constructor annotations RP2Decimal / Optional[RP2Decimal]", "_get_decimal_constructor_argument_names no longer selects exactly the parameters annotated RP2Decimal or Optional[RP2Decimal] of the class's __init__", loc(gd.node))
    for kind, ci in classes.items():
        init = m.init_of(ci)
        for p in init.params:
            ann = unparse(p.annotation) if p.annotation is not None else ""
            if "RP2Decimal" in ann:
                rep.check(ann in ("RP2Decimal", "Optional[RP2Decimal]"), rc, ci.module, init.qualname, f"{ci.name}.{p.arg} annotation is recognised by the parser", f"{ci.name}.__init__ parameter {p.arg} is annotated '{ann}': the parser only converts parameters annotated exactly RP2Decimal or Optional[RP2Decimal]; this one would arrive as a float", loc(init.node))

    # ---------------------------------------------------------------- C11.d
    rd = rep.rule("C11.d", "no row skipped or read twice: one handler call per data row, no break/continue/return in the row loop, handler adds exactly one transaction", floor=8)
    po = prog.func(OP, "parse_ods")
    rep.analysed(po)
    loop, via = find_row_loop(rep, rd, prog, po)
    rep.check((unparse(loop.iter) == "enumerate(input_sheet.rows())" or via is not None) and unparse(loop.target) == "(i, row)", rd, OP, po.qualname, "row loop enumerates every row of the asset's sheet", f"the row loop is 'for {unparse(loop.target)} in {unparse(loop.iter)}'", loc(loop))
    exits = [n for n in ast.walk(loop) if isinstance(n, (ast.Break, ast.Continue, ast.Return))]
    for n in exits:
        rep.violation(rd, OP, po.qualname, f"{type(n).__name__.lower()} inside the row loop", f"the row loop of parse_ods contains '{type(n).__name__.lower()}' under [{' and '.join(short(t, 50) for t, _ in _conds(n, loop))}]: rows after that point (or this row) are never examined — tables further down are silently dropped and structural faults there go unnoticed", loc(n), definite=True)
    if not exits:
        rep.ok(rd, "row loop has no break / continue / return (only raise ends it early)")
    calls = [n for n in ast.walk(loop) if isinstance(n, ast.Call) and isinstance(n.func, ast.Name) and n.func.id == "_create_and_process_transaction"]
    def _arg_text(a: ast.AST) -> str:
        if isinstance(a, ast.Name):
            defs = [n for n in ast.walk(loop) if isinstance(n, (ast.Assign, ast.AnnAssign)) and getattr(n, "value", None) is not None and unparse(n.targets[0] if isinstance(n, ast.Assign) else n.target) == a.id]
            idx = loop.target.elts[0].id if isinstance(loop.target, ast.Tuple) and loop.target.elts and isinstance(loop.target.elts[0], ast.Name) else "i"
            if len(defs) == 1 and unparse(defs[0].value) in (f"{idx} + 1", f"1 + {idx}") and defs[0] in loop.body and defs[0].lineno < a.lineno:
                return "i + 1"  # the row number computed once per iteration
        return unparse(a)

    ok = len(calls) == 1 and [_arg_text(a) for a in calls[0].args] == ["configuration", "row_values", "current_table_type", "i + 1", "unfiltered_transaction_sets", "artificial_transaction_list"]
    rep.check(ok, rd, OP, po.qualname, "data rows are handed to the handler with this row's values and number (i + 1)", f"handler call is {short(calls[0], 160) if calls else 'missing'}; expected this iteration's row_values and i + 1", loc(calls[0]) if calls else loc(loop))
    if calls:
        conds = [unparse(t) if pol else f"not ({unparse(t)})" for t, pol in _conds(calls[0], loop)]
        # the same condition however it is factored (one `elif a and b`, or `elif a:` with a nested `elif b:`): required atoms present, every other atom
        # one of the exclusions that precede the data branch
        atoms = set()
        for t, pol in _conds(calls[0], loop):
            parts = t.values if pol and isinstance(t, ast.BoolOp) and isinstance(t.op, ast.And) else [t]
            for part in parts:
                atoms.add(unparse(part) if pol else f"not ({unparse(part)})")
        required = {"current_table_type is not None", "current_table_row_count > 1"}
        allowed = {"not (_is_table_begin(cell0_value))", "not (_is_table_end(cell0_value))", "not (current_table_row_count == 1)", "not (current_table_type is not None and current_table_row_count == 1)"}
        rep.check(required <= atoms and atoms - required <= allowed and not any("try" in c for c in conds), rd, OP, po.qualname, "handler runs for every row past the header inside a table", f"the handler call is guarded by {conds}; expected exactly 'inside a table and past the header row' after the begin/end tokens were excluded", loc(calls[0]))
        in_try = any(isinstance(a, ast.Try) for a in ancestors(calls[0]) if a is not po.node)
        rep.check(not in_try, rd, OP, po.qualname, "handler call is not wrapped in a try block", "the data-row handler call sits inside a try block: a malformed row could be swallowed instead of failing the run", loc(calls[0]))
    rv = [n for n in loop.body if isinstance(n, (ast.Assign, ast.AnnAssign)) and "row_values" in unparse(n.targets[0] if isinstance(n, ast.Assign) else n.target)]
    ok = len(rv) == 1 and unparse(rv[0].value) == "[cell.value for cell in row]"
    rep.check(ok, rd, OP, po.qualname, "row_values are this row's cell values, all of them", f"row_values is {short(rv[0].value, 80) if rv else 'missing'}; expected [cell.value for cell in row]", loc(loop))
    last = loop.body[-1]
    rep.check(unparse(last) in ("current_table_row_count += 1", "current_table_row_count = current_table_row_count + 1", "current_table_row_count = 1 + current_table_row_count"), rd, OP, po.qualname, "row counter advances once per row on every path", "the per-table row counter is not advanced unconditionally at the end of each iteration (header/data classification would drift)", loc(last))
    reset = [n for n in ast.walk(loop) if isinstance(n, ast.Assign) and unparse(n) == "current_table_row_count = 0"]
    rep.check(len(reset) == 1, rd, OP, po.qualname, "row counter restarts at each table begin", "the per-table row counter is not reset exactly once (at table begin)", loc(loop))
    check_handler_paths(rep, rd)
    drain = [n for n in po.node.body if isinstance(n, ast.For) and unparse(n.iter) == "artificial_transaction_list"]
    ok = len(drain) == 1 and drain[0].lineno > loop.end_lineno and isinstance(drain[0].target, ast.Name) and not drain[0].orelse
    if ok:
        ok = _drains_by_class(m, po, drain[0])
    rep.check(ok, rd, OP, po.qualname, "artificial transactions are drained after the loop into the set of their own class", "the artificial-transaction list is not drained completely, after the row loop, into the IN/OUT/INTRA set matching each transaction's class", loc(po.node))

    # ---------------------------------------------------------------- C11.e
    from . import c04

    rf = rep.rule("C11.f", "empty optional cells default as documented: per class and per combination of supplied / absent optional columns (C04.b restated, incl. constructor read order)", floor=20, follows_calls=True)
    for kind, fn in (("in", c04._check_in), ("out", c04._check_out), ("intra", c04._check_intra)):
        fn(rep, rf, m, classes[kind])
        c04._check_read_order(rep, rf, m, classes[kind])
    _check_row_predicates(rep, m)
    check_split(rep, rep.rule("C11.e", "crypto-fee split: acquisition forwarded field by field (crypto_fee=None), FEE out-transaction of the crypto fee with a fresh negative id", floor=20))


def _check_row_predicates(rep: Report, m, rule_id: str = "") -> None:
    """The row loop classifies each row by its first cell: empty, table begin, table end, else header/data. A first cell is empty exactly when it holds
    None or the empty string: any wider notion (falsy, blank-looking) turns a valid data row whose first mandatory field is 0 into an error or a skipped row."""
    from ..norm import Ctx, show, tkey

    rg = rule_id or rep.rule("C11.g", "row classification: a first cell is 'empty' exactly when it is None or the empty string; the end keyword is compared for equality; a table begins at the IN / OUT / INTRA keyword (any case)", floor=3)
    prog, norm = m.prog, m.norm
    v = ("sym", "v")
    f = prog.func(OP, "_is_empty")
    rep.analysed(f)
    t = norm.inline(f, None, {f.param_names[0]: (v, ("prim", "str"))}, Ctx(f.module, None))
    # decided by evaluating the normal form on one representative of every kind of cell value the reader can produce (ezodf gives None, str, float, bool)
    reps = [(None, True), ("", True), (" ", False), ("0", False), ("x", False), (0.0, False), (0, False), (1.5, False), (False, False), (True, False)]
    wrong, unknown = [], []
    for val, want in reps:
        got = _eval_pred(t, val)
        if got is _UNK:
            unknown.append(val)
        elif bool(got) != want:
            wrong.append((val, bool(got)))
    if unknown and not wrong:
        rep.defer_error(f"{loc(f.node)}: _is_empty normalises to {show(t)[:160]}, which the row-predicate rule cannot evaluate for first-cell values {unknown!r}")
    else:
        rep.check(
            not wrong,
            rg,
            OP,
            f.qualname,
            "_is_empty(v) <=> v is None or v == '' (evaluated on None, '', blank and non-blank strings, zero and non-zero numbers, booleans)",
            f"_is_empty normalises to {show(t)[:200]}, which gives {wrong!r} (value, verdict); expected True exactly for None and '': with a wider test a data row whose first column holds 0 "
            "(a mandatory numeric field mapped to column 0) or a blank-looking string is taken for an empty row and the sheet is rejected, with a narrower one blank separator rows are taken for data",
            loc(f.node),
        )
    f = prog.func(OP, "_is_table_end")
    rep.analysed(f)
    t = norm.inline(f, None, {f.param_names[0]: (v, ("prim", "str"))}, Ctx(f.module, None))
    ok = t[0] == "cmp" and t[1] == "==" and v in (t[2], t[3]) and any(x[0] == "const" and isinstance(x[1], str) and x[1] for x in (t[2], t[3]))
    rep.check(ok, rg, OP, f.qualname, "_is_table_end(v) <=> v == <keyword>", f"_is_table_end normalises to {show(t)[:200]}; expected equality with the end-of-table keyword", loc(f.node))
    f = prog.func(OP, "_is_table_begin")
    rep.analysed(f)
    t = norm.inline(f, None, {f.param_names[0]: (v, ("prim", "str"))}, Ctx(f.module, None))
    reps = [(w, True) for w in ("in", "IN", "In", "out", "OUT", "intra", "INTRA", "Intra")] + [(w, False) for w in ("mixed", "MIXED", "TABLE END", "table end", "", "x", "inn", " in", None, 0.0, 5)]
    wrong, unknown = [], []
    for val, want in reps:
        got = _eval_pred(t, val, prog)
        if got is _UNK:
            unknown.append(val)
        elif bool(got) != want:
            wrong.append((val, bool(got)))
    if unknown and not wrong:
        rep.defer_error(f"{loc(f.node)}: _is_table_begin normalises to {show(t)[:160]}, which the row-predicate rule cannot evaluate for first-cell values {unknown!r}")
    else:
        rep.check(not wrong, rg, OP, f.qualname, "_is_table_begin(v) <=> v is the IN, OUT or INTRA keyword in any case (evaluated on the keywords, MIXED, TABLE END, other strings, None, numbers)", f"_is_table_begin normalises to {show(t)[:200]}, which gives {wrong!r} (value, verdict); expected True exactly for the IN / OUT / INTRA keywords: a table would not be recognised, or an ordinary first cell would open one", loc(f.node))


_UNK = object()
_TYPES = {"str": str, "int": int, "float": float, "bool": bool}


def _eval_pred(t, val, prog=None):
    """Value of a normal-form term when the symbol v holds ``val`` (a concrete representative); _UNK when a construct is not modelled."""
    if prog is not None:
        return _EvalWithEnums(prog).ev(t, val)
    return _ev(t, val, None)


class _EvalWithEnums:
    def __init__(self, prog) -> None:
        self.prog = prog

    def ev(self, t, val):
        return _ev(t, val, self.prog)


def _ev(t, val, prog):
    k = t[0]
    if k == "const":
        return t[1]
    if k == "sym":
        return val if t[1] == "v" else _UNK
    if k == "not":
        x = _ev(t[1], val, prog)
        return _UNK if x is _UNK else (not x)
    if k in ("and", "or"):
        xs = [_ev(x, val, prog) for x in t[1]]
        decisive = (lambda x: not x) if k == "and" else (lambda x: bool(x))
        if any(x is not _UNK and decisive(x) for x in xs):
            return k == "or"
        return _UNK if any(x is _UNK for x in xs) else (k == "and")
    if k == "truthy":
        x = _ev(t[1], val, prog)
        return _UNK if x is _UNK else bool(x)
    if k == "ite":
        c = _ev(t[1], val, prog)
        if c is _UNK:
            return _UNK
        return _ev(t[2] if c else t[3], val, prog)
    if k == "cmp":
        a, b = _ev(t[2], val, prog), _ev(t[3], val, prog)
        if a is _UNK or b is _UNK:
            return _UNK
        try:
            return {"==": lambda: a == b, "!=": lambda: a != b, "is": lambda: a is b, "is not": lambda: a is not b, "in": lambda: a in b, "not in": lambda: a not in b}[t[1]]()
        except (KeyError, TypeError):
            return _UNK
    if k == "fstr":
        out = ""
        for x in t[1]:
            if isinstance(x, str):
                out += x
                continue
            y = _ev(x, val, prog)
            if y is _UNK:
                return _UNK
            out += str(y)
        return out
    if k == "tuple":
        xs = [_ev(x, val, prog) for x in t[1]]
        return _UNK if any(x is _UNK for x in xs) else tuple(xs)
    if k == "sub" and prog is not None and t[1][0] == "sym" and str(t[1][1]).startswith("class:"):
        key = _ev(t[2], val, prog)
        if key is _UNK or not isinstance(key, str):
            return _UNK
        from ..consts import enum_members

        ci = prog.classes.get(t[1][1][len("class:"):])
        hit = [e for e in enum_members(prog, ci)] if ci is not None else []
        hit = [e for e in hit if e.member == key]
        return hit[0] if hit else _UNK  # Enum[<unknown name>] raises KeyError: not a value
    if k == "xcall":
        name, recv, args = t[1], t[2], t[3]
        if name == "isinstance" and len(args) == 2:
            a = _ev(args[0], val, prog)
            types = [args[1]] if args[1][0] == "sym" else list(args[1][1]) if args[1][0] == "tuple" else []
            if a is _UNK or not types or not all(x[0] == "sym" and x[1] in _TYPES for x in types):
                return _UNK
            return isinstance(a, tuple(_TYPES[x[1]] for x in types))
        if name in ("strip", "lstrip", "rstrip", "lower", "upper", "casefold") and recv is not None and not args:
            a = _ev(recv, val, prog)
            return getattr(a, name)() if isinstance(a, str) else _UNK
        if name in ("len", "str", "bool") and recv is None and len(args) == 1:
            a = _ev(args[0], val, prog)
            try:
                return _UNK if a is _UNK else {"len": len, "str": str, "bool": bool}[name](a)
            except TypeError:
                return _UNK
    return _UNK


def check_handler_paths(rep: Report, rd: str) -> None:
    """Every non-raising path of the row handler adds exactly one transaction (shared with C03: no taxable row is dropped)."""
    m = model()
    prog = m.prog
    # handler
    h = prog.func(OP, "_create_and_process_transaction")
    rep.analysed(h)
    from .. import delegation

    known = set(delegation.table().get("defined", []))
    new_helpers = {f.node.name for f in prog.functions.values() if f.module == OP and f.cls is None and f.node.name not in known}

    def ev(node: ast.AST):
        out = []
        for c in ast.walk(node):
            if isinstance(c, ast.Call) and isinstance(c.func, ast.Attribute) and c.func.attr == "add_entry":
                out.append(("add", unparse(c.func.value)))
            if isinstance(c, ast.Call) and isinstance(c.func, ast.Name) and c.func.id in new_helpers:
                out.append(("newcall", c.func.id))  # a module-level helper the reference tree does not define: the adding may have moved there
            if isinstance(c, ast.Call) and isinstance(c.func, ast.Attribute) and c.func.attr == "append" and "artificial" in unparse(c.func.value):
                out.append(("artificial", unparse(c.func.value)))
        return out or None

    for p in enumerate_paths(h.node.body, ev):
        if p.exit in ("raise", "exit"):
            continue
        adds = [e for e in p.events if e[0] == "add"]
        arts = [e for e in p.events if e[0] == "artificial"]
        ok = len(adds) == 1 and len(arts) <= 1 and p.exit in ("fall", "return")
        rep.check(ok, rd, OP, h.qualname, f"handler path ({'split' if arts else 'plain'}) adds exactly one transaction" + ("" if ok else f" [{len(adds)} adds, exit {p.exit}]"), f"a path of _create_and_process_transaction (exit '{p.exit}' at {loc(p.exit_node) if p.exit_node else 'end'}) adds {len(adds)} transaction(s) to the sets and {len(arts)} to the artificial list; every parsed row must become exactly one transaction (rows must never be skipped, e.g. as 'duplicates')", loc(h.node), definite=p.exit != "fall" and not adds and not _calls_new_helper(p))  # an explicit return / continue that leaves without adding is a located construct - unless the path hands the row to a helper the reference tree does not know (the adding may have moved there)
        if adds and not arts:
            rep.check(adds[0][1] == "unfiltered_transaction_sets[current_table_type]", rd, OP, h.qualname, "plain path adds to the set of the current table", f"the transaction is added to {adds[0][1]}; expected unfiltered_transaction_sets[current_table_type]", loc(h.node))
    first = h.body[0] if h.body else None
    ok = isinstance(first, (ast.Assign, ast.AnnAssign)) and unparse(first.value) == "_create_transaction(configuration, current_table_type, internal_id, row_values)"
    rep.check(ok, rd, OP, h.qualname, "the row becomes a transaction of the current table's kind with its own row number", f"the handler starts with {short(first, 120) if first else None}", loc(h.node))


def _conds(node: ast.AST, stop: ast.AST):
    from ..paths import path_condition

    return path_condition(node, stop)


def _kind_branches(ct) -> Dict[str, List[ast.stmt]]:
    out: Dict[str, List[ast.stmt]] = {}
    for n in ast.walk(ct.node):
        if isinstance(n, ast.If):
            t = unparse(n.test)
            mm = re.fullmatch(r"entry_set_type == EntrySetType\.(\w+)", t)
            if mm:
                out[mm.group(1)] = n.body
    return out


def check_split(rep: Report, rule: str) -> None:
    """R-FORWARD on the crypto-fee split of _create_and_process_transaction (shared with C04: exchange-supplied fiat values must survive the split)."""
    m = model()
    prog, norm = m.prog, m.norm
    h = prog.func(OP, "_create_and_process_transaction")
    ctx = norm.ctx_for(h, subst_locals=False)
    ctx.vars["transaction"] = (("sym", "t"), ("cls", "rp2.in_transaction:InTransaction"))
    ctx.vars["notes"] = (("sym", "notes"), ("prim", "str"))
    news = []
    for n in ast.walk(h.node):
        if isinstance(n, ast.Call):
            t = norm.term(n, ctx)
            if t[0] == "new" and t[1].endswith((":InTransaction", ":OutTransaction")):
                news.append((n, t))
    ins = [x for x in news if x[1][1].endswith(":InTransaction")]
    outs = [x for x in news if x[1][1].endswith(":OutTransaction")]
    if len(ins) != 1 or len(outs) != 1:
        raise AnalysisError(f"crypto-fee split: expected one InTransaction and one OutTransaction construction, found {len(ins)} / {len(outs)}")
    T = ("sym", "t")
    spec_ctx = Ctx(OP, None, None, {"t": (T, ("cls", "rp2.in_transaction:InTransaction")), "configuration": (("sym", "configuration"), ("cls", f"{CFG}:Configuration")), "internal_id": (("sym", "internal_id"), ("prim", "int"))})

    def exp(src: str):
        return norm.term(ast.parse(src, mode="eval").body, spec_ctx)

    in_node, in_t = ins[0]
    kw = dict(in_t[2])
    in_cls = prog.cls("rp2.in_transaction", "InTransaction")
    params = [p for p in m.init_of(in_cls).param_names if p not in ("self", "from_lot")]
    want_in = {
        "configuration": "configuration",
        "timestamp": 'f"{t.timestamp}"',
        "asset": "t.asset",
        "exchange": "t.exchange",
        "holder": "t.holder",
        "transaction_type": "t.transaction_type.value",
        "spot_price": "t.spot_price",
        "crypto_in": "t.crypto_in",
        "crypto_fee": "None",
        "fiat_in_no_fee": "t.fiat_in_no_fee",
        "fiat_in_with_fee": "t.fiat_in_with_fee",
        "fiat_fee": "t.fiat_fee",
        "row": "internal_id",
        "unique_id": "t.unique_id",
    }
    for p in params:
        if p == "notes":
            ok = kw.get("notes") is not None and any(s == ("sym", "notes") or (s[0] == "fld" and s[2].endswith("__notes")) for s in subterms(kw["notes"]))
            rep.check(ok, rule, OP, h.qualname, "split acquisition keeps (extended) notes", f"the re-created acquisition gets notes={show(kw.get('notes'))[:100] if kw.get('notes') else None}", loc(in_node))
            continue
        if p not in want_in:
            rep.note(f"InTransaction parameter '{p}' has no forwarding spec in the crypto-fee split (new parameter?)")
            continue
        got = kw.get(p)
        want = exp(want_in[p])
        default_ok = got is None and p == "crypto_fee" and False
        rep.check(
            got is not None and tkey(got) == tkey(want),
            rule,
            OP,
            h.qualname,
            f"split acquisition: {p} <- {want_in[p]}",
            f"the re-created acquisition receives {p}={show(got)[:120] if got is not None else '<not forwarded: constructor default>'}; expected {want_in[p]} "
            + ("(the coin fee is modelled by the artificial disposal, so the acquisition itself carries none)" if p == "crypto_fee" else "(a field that is not forwarded is recomputed from amount x spot price: exchange-supplied values and the cost basis change)"),
            loc(in_node),
        )
    out_node, out_t = outs[0]
    ko = dict(out_t[2])
    want_out = {
        "configuration": "configuration",
        "timestamp": 'f"{t.timestamp}"',
        "asset": "t.asset",
        "exchange": "t.exchange",
        "holder": "t.holder",
        "spot_price": "t.spot_price",
        "crypto_fee": "t.crypto_fee",
        "unique_id": "t.unique_id",
    }
    for p, src in want_out.items():
        got = ko.get(p)
        rep.check(got is not None and tkey(got) == tkey(exp(src)), rule, OP, h.qualname, f"artificial disposal: {p} <- {src}", f"the artificial fee-only disposal receives {p}={show(got)[:120] if got is not None else None}; expected {src} (same instant, account and price as the acquisition; the fee is what leaves the holder)", loc(out_node))
    tt = ko.get("transaction_type")
    rep.check(tt == ("const", "fee"), rule, OP, h.qualname, "artificial disposal is FEE-typed", f"the artificial disposal has transaction_type={show(tt) if tt else None}; expected TransactionType.FEE.value", loc(out_node))
    z = ko.get("crypto_out_no_fee")
    rep.check(z is not None and z[0] == "const" and z[1] == 0, rule, OP, h.qualname, "artificial disposal has zero outgoing amount besides the fee", f"crypto_out_no_fee={show(z) if z else None}; expected ZERO", loc(out_node))
    row = ko.get("row")
    ok = row is not None and row[0] == "call" and row[1].endswith("Configuration.get_new_artificial_id")
    rep.check(ok, rule, OP, h.qualname, "artificial disposal gets a fresh artificial id", f"the artificial disposal has row={show(row)[:100] if row else None}; expected configuration.get_new_artificial_id(): transactions compare and hash by this id, so reusing the acquisition's row makes the two collide (set membership, report link tables)", loc(out_node))
    for extra in ("crypto_out_with_fee", "fiat_out_no_fee", "fiat_fee"):
        rep.check(extra not in ko, rule, OP, h.qualname, f"artificial disposal leaves {extra} to be derived", f"the artificial disposal is given {extra}={show(ko.get(extra))[:80] if ko.get(extra) else None}", loc(out_node))
    gid = prog.func(CFG, "Configuration.get_new_artificial_id")
    txt = [unparse(s) for s in gid.body]
    ok = any("with self.__lock" in t and "self.__artificial_id_counter -= 1" in t and "result = self.__artificial_id_counter" in t for t in txt) and txt[-1] == "return result"
    d = m.field_defs(prog.cls(CFG, "Configuration")).get("Configuration.__artificial_id_counter", [])
    ok = ok and len(d) == 1 and d[0][1] == ("const", 0)
    rep.check(ok, rule, CFG, gid.qualname, "artificial ids are strictly negative and decreasing (counter from 0, -= 1 under the lock)", "get_new_artificial_id no longer hands out -1, -2, ... from a counter that starts at 0 and is decremented under the lock: artificial ids could collide with sheet rows or with each other", loc(gid.node))
    # the split is taken exactly when a crypto fee is defined
    ifs = [n for n in h.node.body if isinstance(n, ast.If)]
    pos = "isinstance(transaction, InTransaction) and transaction.is_crypto_fee_defined"
    neg = "not isinstance(transaction, InTransaction) or not transaction.is_crypto_fee_defined"
    ok = len(ifs) == 1 and unparse(ifs[0].test) == pos
    if len(ifs) == 1 and unparse(ifs[0].test) == neg:
        # guard-clause form: the plain add sits under the negated condition and ends in return, the split follows
        body_txt = " ".join(unparse(s) for s in ifs[0].body)
        ok = "add_entry(transaction)" in body_txt and isinstance(ifs[0].body[-1], ast.Return) and not ifs[0].orelse
    rep.check(ok, rule, OP, h.qualname, "split taken exactly for in-transactions with a crypto fee", f"the split condition is {short(ifs[0].test, 120) if ifs else None}", loc(h.node))
    p = prog.func("rp2.in_transaction", "InTransaction.is_crypto_fee_defined")
    t = norm.inline(p, T, {}, Ctx(p.module, p.cls))
    rep.check(t == ("cmp", ">", ("fld", T, "InTransaction.__crypto_fee"), ("const", __import__("decimal").Decimal(0))), rule, p.module, p.qualname, "is_crypto_fee_defined <=> crypto_fee > 0", f"is_crypto_fee_defined normalises to {show(t)}", loc(p.node))


def check_header_validation(rep: Report, rb: str) -> None:
    """Header sections: negative / duplicate / non-integer columns and unknown keywords raise; the map stores int(column) unchanged (shared with C12.d)."""
    m = model()
    prog = m.prog
    vh = prog.func(CFG, "Configuration._validate_header_section")
    rep.analysed(vh)
    vtxt = unparse(vh.node)
    guards = {
        "negative column rejected": "if column_value < 0:",
        "duplicate column rejected": "if column_value in column_to_header:",
        "unknown keyword rejected": "if header not in _HEADER_COLUMNS[normalized_section_name]:",
        "non-integer column rejected": "except ValueError as exc:",
    }
    for what, needle in guards.items():
        rep.check(needle in vtxt, rb, CFG, vh.qualname, f"header section: {what}", f"_validate_header_section no longer contains '{needle}'", loc(vh.node))
    stmts = [unparse(n) for n in ast.walk(vh.node) if isinstance(n, (ast.Assign, ast.AnnAssign))]
    ok = "header_2_column[header.strip()] = column_value" in stmts and "column_value: int = int(column.strip())" in stmts
    rep.check(ok, rb, CFG, vh.qualname, "header map stores int(column) under the keyword", "_validate_header_section no longer stores header_2_column[header] = int(column) unchanged (an off-by-one here shifts every field by one column)", loc(vh.node))


"""C10 — date filters only hide rows; they never change the figures shown."""

from __future__ import annotations

import ast
import datetime
from typing import Any, Dict, List, Optional, Tuple

from ..loader import AnalysisError, ancestors, enclosing_function, loc, parent, short, unparse
from ..norm import FLIP, NEGATE, Ctx, mk_not, show, strip_validators, subterms, tkey
from ..paths import terminates
from ..report import Report
from ..rp2model import model

META = {
    "title": "Date filters only hide rows; they never change the figures shown",
    "technique": "comparison-polarity rule over every comparison of an entry's own calendar date with a from/to bound (role decided from what the guarded "
    "branch does), who-may-read rule (lot matching reads only unfiltered members and MIN/MAX windows), view rule for duplicate() plus a state-ownership rule for "
    "the containers _sort_entries recomputes on shallow copies, def-use of the window arguments through InputData / ComputedData",
    "explanation": "at each of the anchored window sites (entry-set iterator, fraction numbering, average price, yearly sums, sold percentage, balances) an entry is "
    "excluded exactly when its own timestamp.date() > to_date or < from_date (both bounds inclusive, the entry's own calendar date, no time-zone conversion), and any "
    "other comparison with a bound found in the tree follows the same polarity; tax_engine / accounting_engine read only unfiltered InputData members, build their sets "
    "with MIN_DATE..MAX_DATE and use configuration.from/to_date only as arguments of ComputedData; duplicate() is a shallow copy that changes only the two bounds and "
    "re-sorts, and every container that a _sort_entries override fills up to the to-date is rebound to a fresh object first (copies never share window-dependent state); "
    "ComputedData and InputData obtain their filtered sets only through duplicate() with their own bounds; balances, average price, running sums and yearly sums take no from-date.",
    "not_decided": "equality of figures between a filtered and an unfiltered run as run-time values; the in-lot 'sold %' legitimately depends on the window.",
    "assumptions": ["copy.copy makes a shallow copy sharing attribute objects", "datetime.date() is the calendar date in the datetime's own zone"],
}

# anchored window sites: (module, qualname) -> bounds that must be enforced there
ANCHORS = {
    ("rp2.abstract_entry_set", "EntrySetIterator.__next__"): ("to", "from"),
    ("rp2.gain_loss_set", "GainLossSet._sort_entries"): ("to",),
    ("rp2.computed_data", "ComputedData._compute_price_per_unit"): ("to",),
    ("rp2.computed_data", "ComputedData._create_yearly_gain_loss_list"): ("to",),
    ("rp2.computed_data", "ComputedData.__init__"): ("to", "from"),
    ("rp2.balance", "BalanceSet.__init__"): ("to",),
}


def _bound_kind(t) -> Optional[str]:
    """'to' / 'from' when the term is a to/from date bound (parameter, field or property of a set / configuration)."""
    s = show(t)
    if t[0] in ("sym", "fld", "attr"):
        last = (t[1] if t[0] == "sym" else t[2]).split(".")[-1].lstrip("_")
        if last in ("to_date",):
            return "to"
        if last in ("from_date",):
            return "from"
    return None


def _is_entry_date(t) -> Tuple[bool, str]:
    """(is <x>.timestamp.date(), problem) — the entry's own calendar date, no conversion in between."""
    if not (t[0] == "xcall" and t[1] == "date" and t[2] is not None):
        return False, ""
    recv = t[2]
    conv = [s for s in subterms(recv) if s[0] == "xcall" and s[1] in ("astimezone", "replace", "utcoffset", "fromtimestamp")]
    if conv:
        return True, f"the compared date is {show(t)[:160]}: converting the timestamp before taking the date moves entries near midnight across the window bound"
    is_ts = (recv[0] == "fld" and recv[2].endswith("__timestamp")) or (recv[0] == "virt" and recv[1] == "timestamp") or (recv[0] == "attr" and recv[2] == "timestamp")
    if not is_ts:
        return True, f"the compared date is {show(t)[:160]}; expected the entry's own timestamp.date()"
    return True, ""


def _atoms(t) -> List[Any]:
    if t[0] in ("or", "and"):
        out = []
        for x in t[1]:
            out.extend(_atoms(x))
        return out
    return [t]


def _tests_of(fn: ast.AST):
    """(test expression, excludes_when_true) for every branching position of a function."""
    for node in ast.walk(fn):
        if isinstance(node, ast.If):
            if terminates(node.body):
                last = node.body[-1]
                keeps = isinstance(last, ast.Return) and last.value is not None and not (isinstance(last.value, ast.Constant) and last.value.value is None)
                yield node.test, (not keeps)
            else:
                yield node.test, False
        elif isinstance(node, (ast.ListComp, ast.GeneratorExp, ast.SetComp, ast.DictComp)):
            for g in node.generators:
                for c in g.ifs:
                    yield c, False
        elif isinstance(node, ast.While):
            yield node.test, False


def _window_comparisons(m, fi) -> List[Tuple[ast.AST, Any, str, Any, Any, str]]:
    """[(test node, atom, bound kind, date term, bound term, operator under which the entry is EXCLUDED, structure ok)]"""
    norm = m.norm
    ctx = norm.ctx_for(fi, subst_locals=True)
    out = []
    for test, excl_true in _tests_of(fi.node):
        if not any(isinstance(n, ast.Compare) for n in ast.walk(test)):
            continue
        t = norm.cond(test, ctx)
        # exclusion tests are disjunctions of exclusion atoms, inclusion tests conjunctions of inclusion atoms
        if excl_true:
            atoms, structure_ok = (list(t[1]), True) if t[0] == "or" else ([t], t[0] != "and")
            if t[0] == "and":
                atoms = list(t[1])
        else:
            atoms, structure_ok = (list(t[1]), True) if t[0] == "and" else ([t], t[0] != "or")
            if t[0] == "or":
                atoms = list(t[1])
        for a in atoms:
            if a[0] != "cmp" or a[1] not in ("<", "<=", ">", ">="):
                continue
            l, r = a[2], a[3]
            for date_t, bound_t, op in ((l, r, a[1]), (r, l, FLIP[a[1]])):
                kind = _bound_kind(bound_t)
                is_date, _ = _is_entry_date(date_t)
                if kind and (is_date or _mentions_timestamp(date_t)):
                    excl_op = op if excl_true else NEGATE[op]
                    out.append((test, a, kind, date_t, bound_t, excl_op, structure_ok))
                    break
    return out


def _mentions_timestamp(t) -> bool:
    return any((s[0] == "fld" and s[2].endswith("__timestamp")) or (s[0] == "virt" and s[1] == "timestamp") for s in subterms(t))


def run(rep: Report, tier: str) -> None:
    m = model()
    prog, norm = m.prog, m.norm

    # ---------------------------------------------------------------- C10.a
    ra = rep.rule("C10.a", "window comparisons: excluded iff own timestamp.date() > to_date or < from_date (inclusive bounds, own calendar date)", floor=8)
    seen_nodes = set()
    for (mod, qual), bounds in ANCHORS.items():
        fi = prog.func(mod, qual)
        rep.analysed(fi)
        comps = _window_comparisons(m, fi)
        for kind in bounds:
            mine = [c for c in comps if c[2] == kind]
            if not mine:
                missing_bound(rep, ra, m, fi, kind, f"{qual}: {kind}-date bound enforced on the entry's calendar date", "entries outside the window would be processed here, or the bound is applied to something other than the entry's own calendar date")
                continue
            for c in mine:
                _judge(rep, ra, m, fi, c)
                seen_nodes.add(id(c[0]))
    # every other comparison with a bound anywhere in the tree follows the same polarity
    for fi in prog.iter_functions():
        if (fi.module, fi.qualname) in ANCHORS or fi.name in ("__str__", "__repr__"):
            continue
        for c in _window_comparisons(m, fi):
            if id(c[0]) in seen_nodes:
                continue
            _judge(rep, ra, m, fi, c)
    # Configuration: from > to rejected (inclusive: equal bounds are a valid one-day window)
    cfg_init = prog.func("rp2.configuration", "Configuration.__init__")
    ok = False
    for guard, node in m.raises_in(cfg_init, early_exits=False):
        for a in _atoms(guard):
            if a[0] == "cmp" and {_bound_kind(a[2]), _bound_kind(a[3])} == {"from", "to"}:
                op = a[1] if _bound_kind(a[2]) == "from" else FLIP[a[1]]
                ok = op == ">"
    rep.check(ok, ra, cfg_init.module, cfg_init.qualname, "from_date > to_date is rejected, from_date == to_date is a valid window", "Configuration.__init__ does not reject exactly from_date > to_date (a one-day window from == to must stay valid)", loc(cfg_init.node))

    # ---------------------------------------------------------------- C10.b
    rb = rep.rule("C10.b", "lot matching ignores the window: only unfiltered members, MIN/MAX windows, bounds only forwarded to ComputedData", floor=4)
    for mod in ("rp2.tax_engine", "rp2.accounting_engine", "rp2.abstract_accounting_method"):
        module = prog.package.get(mod)
        bad = []
        n = 0
        for node in ast.walk(module.tree):
            if isinstance(node, ast.Attribute):
                if node.attr.startswith("filtered_") or node.attr in ("from_date", "to_date"):
                    f = enclosing_function(node)
                    n += 1
                    if node.attr in ("from_date", "to_date") and f is not None and f.name == "compute_tax" and _is_computed_data_arg(node):
                        continue
                    bad.append(node)
                elif node.attr.startswith("unfiltered_"):
                    n += 1
        for node in bad:
            f = enclosing_function(node)
            rep.violation(rb, mod, f.name if f else "<module>", short(node), f"{short(parent(node) or node, 100)} reads a window-dependent value ({node.attr}) inside the lot-matching code: matching must always start from the beginning of the history", loc(node))
        if not bad:
            rep.ok(rb, f"{mod}: no filtered_* member or from/to date read (except ComputedData arguments)", f"{n} InputData/Configuration window-related reads examined")
    te = prog.func("rp2.tax_engine", "_create_unfiltered_gain_and_loss_set")
    ctx = norm.ctx_for(te, subst_locals=False)
    found = False
    for n in ast.walk(te.node):
        if isinstance(n, ast.Call):
            t = norm.term(n, ctx)
            if t[0] == "new" and t[1].endswith(":GainLossSet"):
                kw = dict(t[2])
                init = prog.func("rp2.gain_loss_set", "GainLossSet.__init__")
                d = init.param_defaults()
                fd = kw.get("from_date") or norm.term(d["from_date"], Ctx(init.module, init.cls))
                td = kw.get("to_date") or norm.term(d["to_date"], Ctx(init.module, init.cls))
                found = True
                rep.check(fd == ("const", datetime.date(1970, 1, 1)) and td == ("const", datetime.date(9999, 12, 31)), rb, te.module, te.qualname, "gain/loss set is built unfiltered (MIN_DATE..MAX_DATE)", f"the gain/loss set is created with window {show(fd)}..{show(td)}; expected MIN_DATE..MAX_DATE", loc(n))
    if not found:
        raise AnalysisError("GainLossSet construction not found in _create_unfiltered_gain_and_loss_set")

    rf_ = rep.rule("C10.f", "the to-date filters, it does not cut short: a walk over entries sorted by instant that tests each entry's own (local) date must skip late entries, not stop at the first one", floor=1)
    check_monotone_cut(rep, rf_, m)
    check_iterator_extent(rep, ra, m)
    check_cut_kinds(rep, rf_, m)

    # the window travels unchanged and uncrossed: -f/-t -> Configuration(from_date=, to_date=) -> compute_tax -> ComputedData(from_date, to_date) / InputData
    re_ = rep.rule("C10.e", "window plumbing: each bound is forwarded under its own name from the command line to Configuration, ComputedData and InputData", floor=5)
    ct = prog.func("rp2.tax_engine", "compute_tax")
    rets = [n for n in ast.walk(ct.node) if isinstance(n, ast.Return) and n.value is not None]
    t = norm.term(rets[0].value, norm.ctx_for(ct, subst_locals=False)) if rets else ("unk", "")
    kwd = dict(t[2]) if t[0] == "new" and t[1].endswith(":ComputedData") else {}
    cfg = ("sym", "configuration")
    for b in ("from_date", "to_date"):
        got = kwd.get(b)
        rep.check(got == ("fld", cfg, f"Configuration.__{b}"), re_, ct.module, ct.qualname, f"ComputedData({b}=configuration.{b})", f"compute_tax builds ComputedData with {b}={show(got) if got else None}; expected configuration.{b} (a crossed or duplicated bound changes which rows every report shows)", loc(ct.node))
    for modname, qual, ctor in (("rp2.rp2_main", "_rp2_main_internal", "Configuration"), ("rp2.ods_parser", "parse_ods", "InputData")):
        f = prog.func(modname, qual)
        rep.analysed(f)
        calls = [n for n in ast.walk(f.node) if isinstance(n, ast.Call) and isinstance(n.func, ast.Name) and n.func.id == ctor]
        if len(calls) != 1:
            raise AnalysisError(f"{qual}: expected exactly one {ctor}(...) construction, found {len(calls)}")
        callee = prog.func({"Configuration": "rp2.configuration", "InputData": "rp2.input_data"}[ctor], f"{ctor}.__init__")
        params = callee.param_names[1:]
        bound = {params[i]: a for i, a in enumerate(calls[0].args) if i < len(params)}
        bound.update({k.arg: k.value for k in calls[0].keywords if k.arg})
        for b in ("from_date", "to_date"):
            txt = unparse(bound[b]) if b in bound else None
            ok = txt is not None and txt.split(".")[-1] == b and txt.split(".")[0] in ("args", "configuration")
            rep.check(ok, re_, modname, qual, f"{ctor}({b}=<...>.{b})", f"{qual} constructs {ctor} with {b}={txt}; expected the {b} of the command line / configuration under its own name", loc(calls[0]))

    # ---------------------------------------------------------------- C10.c
    rc = rep.rule("C10.c", "filters are views: duplicate() = shallow copy + bounds + re-sort; window-dependent containers are rebound per copy; filtered sets come from duplicate()", floor=10)
    dup = prog.func("rp2.abstract_entry_set", "AbstractEntrySet.duplicate")
    rep.analysed(dup)
    body = dup.body
    txt = [unparse(s) for s in body]
    copy_ok = any(isinstance(s, (ast.Assign, ast.AnnAssign)) and isinstance(s.value, ast.Call) and unparse(s.value) == "copy(self)" for s in body)
    res_name = next((s.target.id if isinstance(s, ast.AnnAssign) else s.targets[0].id for s in body if isinstance(s, (ast.Assign, ast.AnnAssign)) and isinstance(s.value, ast.Call) and unparse(s.value) == "copy(self)"), None)
    sets = {unparse(s.targets[0]): unparse(s.value) for s in body if isinstance(s, ast.Assign) and len(s.targets) == 1 and isinstance(s.targets[0], ast.Attribute)}
    want_sets = {f"{res_name}._from_date": "from_date", f"{res_name}._to_date": "to_date"}
    rep.check(copy_ok and sets == want_sets, rc, dup.module, dup.qualname, "duplicate(): copy(self), then only the two bounds are changed", f"duplicate() assigns {sets} on a {'shallow copy' if copy_ok else 'non-copy'}; expected exactly the two bounds on copy(self) — entries must not be rebuilt or pruned", loc(dup.node))
    resort = any(isinstance(s, ast.Expr) and unparse(s.value) == f"{res_name}._force_sort()" for s in body)
    ret = any(isinstance(s, ast.Return) and unparse(s.value) == res_name for s in body)
    rep.check(resort and ret, rc, dup.module, dup.qualname, "duplicate(): re-sorts the copy and returns it", "duplicate() no longer forces a re-sort of the copy (window-dependent fields would be stale) or does not return the copy", loc(dup.node))
    check_per_copy_state(rep, rc)
    # filtered sets are produced only by duplicate() with the owner's bounds
    cd = prog.cls("rp2.computed_data", "ComputedData")
    defs = m.field_defs(cd)
    dupcall = lambda base_t: ("call", "rp2.abstract_entry_set:AbstractEntrySet.duplicate", (("from_date", ("sym", "from_date")), ("self", base_t), ("to_date", ("sym", "to_date"))))  # noqa: E731
    want = {
        "ComputedData.__filtered_taxable_event_set": dupcall(("sym", "unfiltered_taxable_event_set")),
        "ComputedData.__filtered_gain_loss_set": dupcall(("sym", "unfiltered_gain_loss_set")),
        "ComputedData.__filtered_in_transaction_set": ("fld", ("sym", "input_data"), "InputData.__filtered_in_transaction_set"),
        "ComputedData.__filtered_out_transaction_set": ("fld", ("sym", "input_data"), "InputData.__filtered_out_transaction_set"),
        "ComputedData.__filtered_intra_transaction_set": ("fld", ("sym", "input_data"), "InputData.__filtered_intra_transaction_set"),
    }
    for f_, w in want.items():
        d = defs.get(f_, [])
        rep.check(len(d) == 1 and tkey(d[0][1]) == tkey(w) and d[0][0] == ("const", True), rc, cd.module, "ComputedData.__init__", f"{f_.split('.__')[1]} is a duplicate()/filtered view with this object's bounds", f"{f_} is defined as {[show(v)[:200] for _, v, _ in d]}; expected {show(w)[:200]}", loc(cd.node))
    idc = prog.cls("rp2.input_data", "InputData")
    idefs = m.field_defs(idc)
    for k in ("in", "out", "intra"):
        f_ = f"InputData.__filtered_{k}_transaction_set"
        w = dupcall(("fld", ("sym", "self"), f"InputData.__unfiltered_{k}_transaction_set"))
        d = idefs.get(f_, [])
        rep.check(len(d) == 1 and tkey(d[0][1]) == tkey(w), rc, idc.module, "InputData.__init__", f"InputData filtered_{k} = unfiltered_{k}.duplicate(own bounds)", f"{f_} is defined as {[show(v)[:200] for _, v, _ in d]}; expected {show(w)[:200]}", loc(idc.node))
        u = idefs.get(f"InputData.__unfiltered_{k}_transaction_set", [])
        ok = len(u) == 1 and tkey(strip_validators(u[0][1])) == tkey(("sym", f"unfiltered_{k}_transaction_set"))
        rep.check(ok, rc, idc.module, "InputData.__init__", f"InputData unfiltered_{k} is the set handed in", f"InputData.__unfiltered_{k}_transaction_set is {[show(v)[:160] for _, v, _ in u]}", loc(idc.node))
    # parse_ods hands configuration's bounds to InputData and builds its sets unfiltered
    po = prog.func("rp2.ods_parser", "parse_ods")
    rets = [n for n in ast.walk(po.node) if isinstance(n, ast.Return) and n.value is not None]
    t = norm.term(rets[-1].value, norm.ctx_for(po, subst_locals=False)) if rets else ("unk", "")
    kw = dict(t[2]) if t[0] == "new" else {}
    cfgs = ("sym", "configuration")
    rep.check(kw.get("from_date") == ("fld", cfgs, "Configuration.__from_date") and kw.get("to_date") == ("fld", cfgs, "Configuration.__to_date"), rc, po.module, po.qualname, "parse_ods passes configuration.from_date / to_date to InputData", f"parse_ods builds InputData with from_date={show(kw.get('from_date')) if kw.get('from_date') else None}, to_date={show(kw.get('to_date')) if kw.get('to_date') else None}", loc(po.node))
    pctx = norm.ctx_for(po, subst_locals=False)
    n_sets = 0
    for n in ast.walk(po.node):
        if isinstance(n, ast.Call):
            tt = norm.term(n, pctx)
            if tt[0] == "new" and tt[1].endswith(":TransactionSet"):
                n_sets += 1
                k2 = dict(tt[2])
                rep.check(k2.get("from_date", ("const", datetime.date(1970, 1, 1))) == ("const", datetime.date(1970, 1, 1)) and k2.get("to_date", ("const", datetime.date(9999, 12, 31))) == ("const", datetime.date(9999, 12, 31)), rc, po.module, po.qualname, f"parsed {show(k2.get('entry_set_type'))} table is collected unfiltered", f"a parsed table is collected into a set with window {show(k2.get('from_date')) if k2.get('from_date') else 'MIN'}..{show(k2.get('to_date')) if k2.get('to_date') else 'MAX'}", loc(n))
    if n_sets < 3:
        raise AnalysisError("parse_ods builds fewer than 3 TransactionSets")

    # ---------------------------------------------------------------- C10.d
    rd = rep.rule("C10.d", "balances, average price and yearly sums take the to-date only (no from-date reaches them)", floor=3)
    init = prog.func("rp2.computed_data", "ComputedData.__init__")
    ictx = norm.ctx_for(init, subst_locals=False)
    checks = {
        ":BalanceSet": ("new", {"to_date": ("sym", "to_date"), "input_data": ("sym", "input_data")}),
        "ComputedData._compute_price_per_unit": ("call", {"to_date": ("sym", "to_date"), "unfiltered_in_transaction_set": ("fld", ("sym", "input_data"), "InputData.__unfiltered_in_transaction_set")}),
    }
    for n in ast.walk(init.node):
        if not isinstance(n, ast.Call):
            continue
        t = norm.term(n, ictx)
        for key, (kind, wkw) in checks.items():
            if t[0] == kind and t[1].endswith(key):
                kw = dict(t[2])
                ok = all(tkey(kw.get(k, ("unk", ""))) == tkey(v) for k, v in wkw.items()) and not any(_bound_kind(v) == "from" for v in kw.values())
                rep.check(ok, rd, init.module, init.qualname, f"{key.split('.')[-1].lstrip(':')} receives to_date and unfiltered input only", f"{short(n, 100)} receives {dict((k, show(v)[:60]) for k, v in kw.items())}; expected only the to-date and unfiltered input (all history up to the to-date)", loc(n))
    check_numbering_from_history_start(rep, rd)
    # the yearly sums are built from the unfiltered fractions (the from-date only selects which years are shown): a from-date-filtered set handed to the
    # summing helper drops the fractions of the first shown year that lie before the from-date (definite: the argument itself is the defect)
    for n in ast.walk(init.node):
        if isinstance(n, ast.Call) and isinstance(n.func, ast.Attribute) and n.func.attr == "_create_yearly_gain_loss_list" and n.args:
            a0 = norm.term(n.args[0], norm.ctx_for(init, subst_locals=True))
            filtered = [s_ for s_ in subterms(a0) if s_[0] == "fld" and "filtered" in s_[2] and "unfiltered" not in s_[2]] + [s_ for s_ in subterms(a0) if s_[0] in ("call", "xcall") and str(s_[1]).endswith("duplicate")]
            rep.check(not filtered, rd, init.module, init.qualname, "yearly sums are computed over the unfiltered fractions", f"{short(n, 100)} sums {show(a0)[:120]}: a set that was cut at the from-date loses the fractions of the first shown year that lie before it - the yearly line of that year is short or missing while the detail rows stay right", loc(n), definite=True)
    ppu = prog.func("rp2.computed_data", "ComputedData._compute_price_per_unit")
    rep.check("from_date" not in ppu.param_names, rd, ppu.module, ppu.qualname, "average price takes no from-date", "average price now takes a from-date", loc(ppu.node))


def check_numbering_from_history_start(rep: Report, rule: str) -> None:
    """'fraction k of n' of a lot / an event counts every fraction from the beginning of history (up to the to-date): the from-date only hides rows,
    it never reaches the numbering done in an entry set's _sort_entries."""
    m = model()
    prog = m.prog
    base = prog.cls("rp2.abstract_entry_set", "AbstractEntrySet")
    seen = 0
    for ci in prog.subclasses(base):
        so = ci.methods.get("_sort_entries")
        if so is None:
            continue
        seen += 1
        rep.analysed(so)
        uses = [n for n in ast.walk(so.node) if isinstance(n, ast.Attribute) and n.attr in ("from_date", "_from_date")]
        rep.check(not uses, rule, so.module, so.qualname, f"{ci.name}._sort_entries numbers / orders entries without the from-date", f"{ci.name}._sort_entries reads the from-date ({short(parent(uses[0]) or uses[0], 80) if uses else ''}): the fraction numbers and per-type counts of a filtered set would restart at the window start instead of counting the whole history up to the to-date (a lot sold 1/3 before and 2/3, 3/3 inside the window would be shown as 1/2, 2/2)", loc(uses[0]) if uses else loc(so.node), definite=True)
    if seen < 2:
        raise AnalysisError("expected _sort_entries in AbstractEntrySet and GainLossSet")


def check_per_copy_state(rep: Report, rc: str) -> None:
    m = model()
    prog = m.prog
    base = prog.cls("rp2.abstract_entry_set", "AbstractEntrySet")
    n_over = 0
    for ci in prog.subclasses(base):
        so = ci.methods.get("_sort_entries")
        if so is None:
            continue
        n_over += 1
        rep.analysed(so)
        window_dep = any(isinstance(n, ast.Attribute) and n.attr in ("to_date", "from_date", "_to_date", "_from_date") for n in ast.walk(so.node))
        if not window_dep:
            rep.ok(rc, f"{ci.name}._sort_entries does not depend on the window", "in-place work on shared containers is window-independent")
            continue
        # containers mutated in place
        mutated: Dict[str, ast.AST] = {}
        for n in ast.walk(so.node):
            tgt = None
            if isinstance(n, (ast.Assign, ast.AugAssign)):
                for t in n.targets if isinstance(n, ast.Assign) else [n.target]:
                    if isinstance(t, ast.Subscript):
                        tgt = t.value
            elif isinstance(n, ast.Delete):
                for t in n.targets:
                    if isinstance(t, ast.Subscript):
                        tgt = t.value
            elif isinstance(n, ast.Call) and isinstance(n.func, ast.Attribute) and n.func.attr in ("clear", "append", "update", "pop", "setdefault", "add", "extend", "remove", "insert", "popitem"):
                tgt = n.func.value
            if isinstance(tgt, ast.Attribute) and isinstance(tgt.value, ast.Name) and tgt.value.id == "self":
                mutated.setdefault(tgt.attr, n)
        for attr, site in sorted(mutated.items()):
            rebinds = [s for s in so.node.body if isinstance(s, (ast.Assign, ast.AnnAssign)) and any(isinstance(t, ast.Attribute) and isinstance(t.value, ast.Name) and t.value.id == "self" and t.attr == attr for t in (s.targets if isinstance(s, ast.Assign) else [s.target])) and isinstance(s.value, (ast.Dict, ast.DictComp, ast.List, ast.ListComp, ast.Set, ast.SetComp, ast.Call))]
            fresh = bool(rebinds) and min(s.lineno for s in rebinds) < site.lineno
            rep.check(
                fresh,
                rc,
                so.module,
                so.qualname,
                f"{ci.name}.{attr} is rebound to a fresh container before it is filled",
                f"{ci.name}._sort_entries fills self.{attr} in place ({short(site, 70)}) without first rebinding it to a fresh container at the top of the method: duplicate() makes shallow copies, "
                "so the filtered and the unfiltered set share the object and whichever sorts last overwrites the other's window-dependent data (fraction counts shown with -t would include history after the to-date)",
                loc(site),
            )
    if n_over < 2:
        raise AnalysisError("expected _sort_entries in AbstractEntrySet and GainLossSet")


def _is_computed_data_arg(node: ast.Attribute) -> bool:
    p = parent(node)
    return isinstance(p, ast.Call) and unparse(p.func) == "ComputedData" or (isinstance(p, ast.keyword) and isinstance(parent(p), ast.Call) and unparse(parent(p).func) == "ComputedData")


def _judge(rep: Report, rule: str, m, fi, c) -> None:
    node, cmp_t, kind, date_t, bound_t, excl_op, structure_ok = c
    is_date, problem = _is_entry_date(date_t)
    where = loc(node)
    want = ">" if kind == "to" else "<"
    ok_op = excl_op == want
    ok_date = is_date and not problem
    msg = []
    if not ok_op:
        msg.append(f"an entry is excluded when its date {excl_op} {kind}_date; both bounds are inclusive, so exclusion must be exactly '{want}' (an entry dated on the bound would be treated wrongly)")
    if not ok_date:
        msg.append(problem or f"the value compared with the {kind}-date is {show(date_t)[:160]}, not an entry's own timestamp.date() (instant-based or converted comparisons disagree with the calendar-date window near midnight / across UTC offsets)")
    if not structure_ok:
        msg.append(f"the window comparison is combined with other conditions in {short(node, 100)} so that the bound is not applied to every entry")
    rep.check(ok_op and ok_date and structure_ok, rule, fi.module, fi.qualname, f"{fi.qualname}: {kind}-bound comparison {short(node, 70)}", "; ".join(msg), where, detail=f"excluded iff date {excl_op} {kind}_date", definite=True)


def missing_bound(rep: Report, rule: str, m, fi, kind: str, construct: str, consequence: str) -> None:
    """A function that must enforce a window bound on the entry's own calendar date has no '<own date> REL <bound>' comparison.

    Positively wrong shapes are violations: the bound does not occur in the function at all; the bound is turned into an instant
    (datetime.combine(bound, ...)) and compared with timestamps; the bound is located by bisection with the wrong side
    (bisect_left for the inclusive to-date, bisect_right for the inclusive from-date).  Any other way of using the bound is an
    unknown idiom: the verdict is withheld (exit 2)."""
    name = f"{kind}_date"
    uses = [n for n in ast.walk(fi.node) if (isinstance(n, ast.Name) and n.id.lstrip("_") == name) or (isinstance(n, ast.Attribute) and n.attr.lstrip("_") == name)]
    where = loc(fi.node)
    derived = set()
    if not uses and fi.cls is not None:
        # the bound may be pre-digested elsewhere in the class: fields assigned from an expression that mentions the bound, helper methods that use it
        def mentions(node: ast.AST) -> bool:
            return any((isinstance(x, ast.Name) and x.id.lstrip("_") == name) or (isinstance(x, ast.Attribute) and x.attr.lstrip("_") == name) for x in ast.walk(node))

        for other in fi.cls.methods.values():
            for n in ast.walk(other.node):
                if isinstance(n, (ast.Assign, ast.AnnAssign)) and n.value is not None and mentions(n.value):
                    for t in n.targets if isinstance(n, ast.Assign) else [n.target]:
                        if isinstance(t, ast.Attribute) and isinstance(t.value, ast.Name) and t.value.id == "self":
                            derived.add(unparse(t))
        helpers = [n for n in ast.walk(fi.node) if isinstance(n, ast.Call) and isinstance(n.func, ast.Attribute) and isinstance(n.func.value, ast.Name) and n.func.value.id == "self" and n.func.attr in fi.cls.methods and mentions(fi.cls.methods[n.func.attr].node)]
        used_derived = [n for n in ast.walk(fi.node) if isinstance(n, ast.Attribute) and unparse(n) in derived]
        if helpers and not used_derived:
            raise AnalysisError(f"{where}: {fi.qualname} delegates the {kind}-date test to {[short(h, 40) for h in helpers][:2]}: helper-based window tests are not interpreted; cannot decide")
        if used_derived:
            uses = used_derived
    if not uses:
        rep.violation(rule, fi.module, fi.qualname, construct, f"{fi.qualname} does not use the {kind}-date at all (nor a field or helper of its class derived from it): {consequence}", where)
        return
    # bound converted to an instant and compared with timestamps
    for n in ast.walk(fi.node):
        if isinstance(n, (ast.Assign, ast.AnnAssign)) and n.value is not None and any(u in list(ast.walk(n.value)) for u in uses):
            for t in n.targets if isinstance(n, ast.Assign) else [n.target]:
                derived.add(unparse(t))
    for n in ast.walk(fi.node):
        if isinstance(n, ast.Compare):
            sides = [n.left] + list(n.comparators)
            txt = [unparse(x) for x in sides]
            has_bound = any(t in derived or any(u in list(ast.walk(x)) for u in uses) for t, x in zip(txt, sides))
            ts_side = [t for t in txt if "timestamp" in t and ".date()" not in t and t not in derived]
            conv_side = [t for t in txt if "timestamp" in t and ".date()" in t and any(k in t for k in ("astimezone", "replace(", "utc"))]
            if has_bound and (ts_side or conv_side):
                rep.violation(rule, fi.module, fi.qualname, construct, f"{fi.qualname} enforces the {kind}-date by {short(n, 100)}: the bound is applied to an instant / a converted date, not to the entry's own timestamp.date(), so entries within their UTC offset of midnight on the boundary day fall on the wrong side: {consequence}", loc(n), definite=True)
                return
    scopes = [fi.node] + ([o.node for o in fi.cls.methods.values() if o is not fi] if fi.cls is not None and derived else [])
    for n in (x for sc in scopes for x in ast.walk(sc)):
        if isinstance(n, ast.Call) and unparse(n.func).split(".")[-1] in ("bisect_left", "bisect_right", "bisect"):
            mentions_bound = any((isinstance(x, ast.Name) and x.id.lstrip("_") == name) or (isinstance(x, ast.Attribute) and x.attr.lstrip("_") == name) for x in ast.walk(n))
            if mentions_bound or any(u in list(ast.walk(n)) for u in uses) or any(unparse(a) in derived for a in n.args):
                side = unparse(n.func).split(".")[-1]
                wrong = (kind == "to" and side == "bisect_left") or (kind == "from" and side in ("bisect_right", "bisect"))
                if wrong:
                    rep.violation(rule, fi.module, fi.qualname, construct, f"{fi.qualname} locates the {kind}-date with {short(n, 80)}: both bounds are inclusive, so the to-date needs bisect_right and the from-date bisect_left; entries dated exactly on the {kind}-date are cut off: {consequence}", loc(n), definite=True)
                    return
                # right side of the bisection: accepted when the bisected list is the list of the entries' own calendar dates
                from ..loader import enclosing_function as _ef

                arg0 = n.args[0] if n.args else None
                fn = _ef(n)
                src = arg0
                if isinstance(arg0, ast.Name) and fn is not None:
                    defs = [a for a in ast.walk(fn) if isinstance(a, (ast.Assign, ast.AnnAssign)) and a.value is not None and any(isinstance(t, ast.Name) and t.id == arg0.id for t in (a.targets if isinstance(a, ast.Assign) else [a.target]))]
                    src = defs[0].value if len(defs) == 1 else None
                if isinstance(src, ast.ListComp) and unparse(src.elt).endswith(".timestamp.date()") and "astimezone" not in unparse(src.elt):
                    rep.ok(rule, f"{construct} (bisection over the entries' own dates, {side})", short(n, 80))
                    return
    rep.defer_error(f"{where}: {fi.qualname} uses the {kind}-date ({[short(u, 30) for u in uses][:3]}) but not in a comparison with an entry's timestamp.date(), nor in a shape known to be wrong: cannot decide whether the window is applied on the entry's own calendar date")
    return


def check_iterator_window(rep: Report, rule: str, m, consequence: str) -> None:
    """Shared obligation: the entry-set iterator (the only producer of the filtered views every consumer iterates) applies both window
    bounds inclusively on the entry's own calendar date."""
    it = m.prog.func("rp2.abstract_entry_set", "EntrySetIterator.__next__")
    rep.analysed(it)
    comps = _window_comparisons(m, it)
    for kind in ("to", "from"):
        mine = [c for c in comps if c[2] == kind]
        if not mine:
            missing_bound(rep, rule, m, it, kind, f"iterator enforces the {kind}-date on the entry's calendar date", consequence)
        for c in mine:
            _judge(rep, rule, m, it, c)
    check_iterator_extent(rep, rule, m)


def check_iterator_extent(rep: Report, rule: str, m) -> None:
    """The iterator walks the set's list by index up to a size it takes from the set: that size must be the length of the very list it indexes
    (a 'number of entries inside the window' would stop the walk before the last in-window entries when earlier entries precede the from-date)."""
    prog, norm = m.prog, m.norm
    base = prog.cls("rp2.abstract_entry_set", "AbstractEntrySet")
    cnt = base.methods.get("count")
    if cnt is None:
        return  # no such property in this shape: nothing to restate
    rep.analysed(cnt)
    t = norm.inline(cnt, ("sym", "s"), {}, Ctx(cnt.module, base))
    want = ("xcall", "len", None, (("fld", ("sym", "s"), "AbstractEntrySet._entry_list"),), ())
    rep.check(
        tkey(t) == tkey(want),
        rule,
        cnt.module,
        cnt.qualname,
        "entry-set size = length of the entry list (the bound of every index walk over it)",
        f"AbstractEntrySet.count evaluates to {show(t)[:200]}; expected len(self._entry_list): the set's iterator (and is_empty) use it as the bound of an index walk over the whole time-sorted list, "
        "so a smaller number ends the walk before the last entries of the window",
        loc(cnt.node),
        definite=t[0] != "call",
    )


CUT_SITES = (
    ("rp2.abstract_entry_set", "EntrySetIterator.__next__"),
    ("rp2.gain_loss_set", "GainLossSet._sort_entries"),
    ("rp2.computed_data", "ComputedData._create_yearly_gain_loss_list"),
)


def check_cut_kinds(rep: Report, rule: str, m) -> None:
    """Detail rows (iterator), fraction numbering and yearly lines are all cut at the to-date over the same time-sorted sequence. With mixed UTC offsets the
    entries' own dates are not monotonic in that order, so 'stop at the first entry after the to-date' and 'skip entries after the to-date' select different
    entries: the three sites must treat a late entry the same way, or the summary and the detail table disagree."""
    kinds = {}
    for mod, qual in CUT_SITES:
        fi = m.prog.func(mod, qual)
        rep.analysed(fi)
        found = None
        for n in ast.walk(fi.node):
            if isinstance(n, ast.If) and "to_date" in unparse(n.test) and ".date()" in unparse(n.test) and not n.orelse and n.body:
                last = n.body[-1]
                found = "stop" if isinstance(last, (ast.Break, ast.Raise, ast.Return)) else "skip" if isinstance(last, ast.Continue) else None
                if found:
                    kinds[qual] = (found, n)
                    break
        if found is None:
            rep.note(f"{qual}: the to-date is not applied in the 'if <date> > to_date: break/continue/raise' form: cut kinds not compared")
            return
    distinct = {k for k, _ in kinds.values()}
    if len(distinct) == 1:
        rep.ok(rule, f"all to-date cuts over the time-sorted sequence {next(iter(distinct))} at the first late entry", ", ".join(kinds))
        return
    odd = [q for q, (k, _) in kinds.items() if k == "skip"] if sum(1 for k, _ in kinds.values() if k == "skip") <= 1 else [q for q, (k, _) in kinds.items() if k == "stop"]
    for q in odd:
        k, node = kinds[q]
        mod = next(mo for mo, qq in CUT_SITES if qq == q)
        rep.violation(rule, mod, q, f"to-date cut kind of {q}", f"{q} {k}s at an entry dated after the to-date ({short(node, 80)}) while {[(qq, kk) for qq, (kk, _) in kinds.items() if qq != q]}: when local dates are not monotonic in time order "
                      "(mixed UTC offsets around the to-date) the sites select different entries - fractions in the detail table that no yearly line counted, or the reverse", loc(node), definite=True)


def check_monotone_cut(rep: Report, rule: str, m) -> None:
    """A to-date cut that *stops* the walk (break / StopIteration / return) at the first entry whose own calendar date is after the to-date equals a filter
    only if own dates never decrease along the walk. The walks are over lists sorted by instant; own (local) dates are monotonic in instant order only when
    all timestamps share one UTC offset. With mixed offsets an entry inside the window that sorts after a late one is never reached."""
    sites = list(CUT_SITES) + [("rp2.balance", "BalanceSet.__init__")]
    for mod, qual in sites:
        fi = m.prog.func(mod, qual)
        rep.analysed(fi)
        hit = None
        for n in ast.walk(fi.node):
            if isinstance(n, ast.If) and "to_date" in unparse(n.test) and ".date()" in unparse(n.test) and not n.orelse and n.body:
                hit = n
                break
        if hit is None:
            rep.note(f"{qual}: no 'if <own date> > to_date: ...' statement: whether the to-date stops or filters the walk is not read from this shape (the window comparisons themselves are judged by the other rules)")
            continue
        last = hit.body[-1]
        if isinstance(last, ast.Continue):
            rep.ok(rule, f"{qual}: entries after the to-date are skipped, the walk goes on", short(hit, 80))
            continue
        rep.violation(
            rule,
            mod,
            qual,
            f"to-date cut stops the walk: {qual}",
            f"{qual} ends its walk over the time-sorted entries at the first one whose own date is after the to-date ({short(hit, 90)}): own (local) dates are not monotonic in instant order "
            "when UTC offsets differ, so an entry dated inside the window that sorts after it is dropped (e.g. to-date 2021-12-31: 2022-01-01 00:20 +01:00 sorts before 2021-12-31 22:15 -08:00)",
            loc(hit),
            definite=True,
        )

"""C09 — later transactions never change results already computed for earlier periods."""

from __future__ import annotations

from ..report import Report
from ..rp2model import model
from .. import engine
from . import c10

META = {
    "title": "Later transactions never change results already computed for earlier periods",
    "technique": "order-preservation rule on the lot index key (UTC conversion, fixed-width pattern, padded id, same builder for lots and events), bounded-access rule on "
    "every read of the shared lot list inside the candidate machinery, must-precede rule (upper index set from the AVL-found index before every seek), "
    "comparison-polarity rule at every to-date cut, sorted-iteration rule for the engine's inputs, per-copy state rule for window-dependent containers",
    "explanation": "the candidate window of a disposal never extends past it: lots are keyed by (UTC instant, zero-padded id) with a fixed-width, most-significant-first "
    "pattern, the event's lookup key comes from the same builder with the maximal disambiguator, the upper index found for the event is installed before every seek and "
    "every read of the shared lot list is bounded by it; every to-date cut (iterator, fraction numbering, yearly sums, average price, balances) stops strictly after the "
    "to-date on the entry's own calendar date, and the containers numbered up to the to-date are per copy; the engine consumes both inputs through time-sorted iterators.",
    "restated": "lots keep the exact instant of their row through the parser's crypto-fee split (C11.e)",
    "not_decided": "the property itself, a relation between two whole runs: these clauses remove the known ways a later transaction can leak backwards (peeking window, "
    "inclusive/exclusive slip, unsorted input, shared window-dependent state); they do not prove non-interference of the matcher state (e.g. heap duplicates).",
    "assumptions": ["prezzemolo AVLTree.find_max_value_less_than returns the greatest key <= argument", "list.sort is stable"],
}


def run(rep: Report, tier: str) -> None:
    m = model()
    ra = rep.rule("C09.a", "candidate window never extends past the disposal: order-preserving key, bounded list access, set_to_index before every seek", floor=14)
    engine.check_key_builder(rep, ra)
    engine.check_candidate_window(rep, ra)
    rb = rep.rule("C09.b", "every to-date cut stops strictly after the to-date on the entry's own calendar date; numbered containers are per copy", floor=6)
    seen = set()
    for (mod, qual), bounds in c10.ANCHORS.items():
        if "to" not in bounds:
            continue
        fi = m.prog.func(mod, qual)
        rep.analysed(fi)
        comps = [c for c in c10._window_comparisons(m, fi) if c[2] == "to"]
        if not comps:
            c10.missing_bound(rep, rb, m, fi, "to", f"{qual}: to-date cut on the entry's calendar date", "a run limited by -t would include later history here (or cut it at another instant than the truncated history would)")
        for c in comps:
            c10._judge(rep, rb, m, fi, c)
    c10.check_per_copy_state(rep, rb)
    from . import c11

    rd = rep.rule("C09.d", "lots keep the exact instant of their spreadsheet row through the parser's crypto-fee split (C11.e restated): a back-dated lot would become a candidate of an earlier disposal", floor=20)
    c11.check_split(rep, rd)
    from .c17 import check_caches

    re_ = rep.rule("C09.e", "the matcher keeps no memo keyed by lots or events (their equality is the row id: rows of another asset, or of the longer history, would answer) (C17.c restated)", floor=0)
    if check_caches(rep, re_, m, ("rp2.abstract_accounting_method", "rp2.accounting_engine", "rp2.tax_engine", "rp2.plugin.accounting_method.fifo", "rp2.plugin.accounting_method.lifo", "rp2.plugin.accounting_method.hifo", "rp2.plugin.accounting_method.lofo", "rp2.in_transaction", "rp2.abstract_transaction")) == 0:
        rep.ok(re_, "no functools cache in the lot-matching modules")
    rc = rep.rule("C09.c", "the engine consumes events and lots through time-sorted entry-set iterators over the unfiltered sets", floor=4)
    engine.check_chronological_input(rep, rc)

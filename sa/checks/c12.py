"""C12 — malformed or contradictory input is rejected, never silently processed."""

from __future__ import annotations

import ast
import re
from typing import Any, Dict, List, Optional, Tuple

from ..loader import AnalysisError, ancestors, enclosing_class, enclosing_function, loc, parent, short, unparse
from ..norm import Ctx, show, strip_validators, subterms, tkey
from ..paths import terminates
from ..report import Report
from ..rp2model import model

META = {
    "title": "Malformed or contradictory input is rejected, never silently processed",
    "technique": "handler classification over every except clause (re-raise / convert / exit non-zero / confirmed-benign table keyed by function and caught type, with "
    "the set of calls the try body may cover), parameter->field sanitiser rule over every constructor (each field is the result of a validator of the kind the statement "
    "demands), located-guard rule for the dedicated value checks and the sheet-structure state machine, option-table rule for the command line, must-exit-non-zero rule "
    "for the top-level handler and every sys.exit, no-early-exit rule for the row loop",
    "explanation": "no except handler in src/rp2 swallows an error except the five confirmed-benign ones (end of lot iterator, end of taxable events, 'not JSON => try INI', "
    "header-row probe, missing optional country report package), whose try bodies still cover only the calls they covered when confirmed; every constructor parameter of the "
    "transaction classes, Configuration, Balance, InputData and the entry sets reaches its field only through the validator the statement demands (time-zone-aware parser, "
    "membership in the configured assets/exchanges/holders, transaction type parser plus per-class allowed set, positive / non-zero decimals, zero spot price rejected where "
    "required, sent >= received, not both fee kinds, fee-typed out with zero amount); the eight sheet-structure faults, the row/sheet asset mismatch, the class/table mismatch "
    "and the missing sheet raise; unknown, repeated or empty config parts raise; -m is restricted to the country's validated methods, defaults to 'not given' and conflicts "
    "with an [accounting_methods] section by exit 1; everything from Configuration(...) to the generator call sits in one try whose handler exits non-zero, every sys.exit "
    "carries a non-zero constant, generators run only after all assets are computed, and the row loop cannot stop before the end of the sheet.",
    "restated": "each data row is added to its set as soon as it is read, so the structure guards that test a set's emptiness see it (C11.d)",
    "not_decided": "completeness of the guard set beyond the fault classes the statement lists; the header-row heuristic (a first data row that fails to parse is taken for a header: by design upstream).",
    "assumptions": ["argparse rejects values outside choices with exit status 2", "SystemExit is not caught by 'except Exception'"],
}

# (module, qualname, caught type) -> (reason, maximum set of callee names the try body may contain)
BENIGN_HANDLERS: Dict[Tuple[str, str, str], Tuple[str, set]] = {
    ("rp2.accounting_engine", "AccountingEngine.initialize", "StopIteration"): ("end of the acquired-lot iterator ends the loading loop", {"next", "append", "insert_node", "_get_avl_node_key", "_AcquiredLotAndIndex"}),
    ("rp2.tax_engine", "_create_unfiltered_gain_and_loss_set", "TaxableEventsExhaustedException"): ("end of the taxable events ends the matching loop", None),
    ("rp2.configuration", "Configuration.__init__", "json.JSONDecodeError"): ("not JSON => continue with the INI parser (valid JSON raises: deprecated format)", {"load", "validate", "RP2ValueError"}),
    ("rp2.ods_parser", "parse_ods", "Exception"): ("header-row probe: a second table row that does not parse as data is the header", {"_create_transaction"}),
    ("rp2.rp2_main", "_find_and_run_report_generators", "ModuleNotFoundError"): ("optional country-specific report package is absent", {"import_module"}),
}


def _qual(node: ast.AST) -> str:
    f, c = enclosing_function(node), enclosing_class(node)
    return f"{c.name + '.' if c else ''}{f.name if f else '<module>'}"


def _handler_outcome(h: ast.ExceptHandler) -> str:
    """raise / exit / swallow"""
    if terminates(h.body):
        last = h.body[-1]
        if isinstance(last, ast.Raise):
            return "raise"
        if isinstance(last, ast.Expr) and "exit" in unparse(last):
            return "exit"
        if isinstance(last, (ast.Continue, ast.Break, ast.Return)):
            return "swallow"
        return "raise"
    return "swallow"


def run(rep: Report, tier: str) -> None:
    m = model()
    prog, norm = m.prog, m.norm

    # ---------------------------------------------------------------- C12.a
    ra = rep.rule("C12.a", "no swallowed error: every except handler re-raises, converts, exits non-zero or is in the confirmed-benign table", floor=18)
    seen_benign = set()
    for mod in prog.package.modules.values():
        for node in ast.walk(mod.tree):
            if not isinstance(node, ast.Try):
                continue
            for h in node.handlers:
                caught = unparse(h.type) if h.type is not None else "BaseException"
                q = _qual(node)
                outcome = _handler_outcome(h)
                if outcome in ("raise", "exit"):
                    ok_exit = True
                    if outcome == "exit":
                        last = h.body[-1]
                        arg = last.value.args[0] if isinstance(last.value, ast.Call) and last.value.args else None
                        ok_exit = isinstance(arg, ast.Constant) and isinstance(arg.value, int) and arg.value != 0
                    rep.check(ok_exit, ra, mod.name, q, f"{mod.name}:{q} except {caught}: {outcome}", f"handler 'except {caught}' in {q} exits with a zero / non-constant status", loc(h))
                    continue
                key = (mod.name, q, caught)
                entry = BENIGN_HANDLERS.get(key)
                if entry is None:
                    rep.violation(ra, mod.name, q, f"except {caught} in {mod.name}:{q} swallows the error", f"'except {caught}' in {q} neither re-raises nor exits (body: {short(h.body[0], 80) if h.body else ''}): an error raised in [{short(node.body[0], 80)} ...] would be skipped, defaulted or partially processed instead of failing the run", loc(h))
                    continue
                reason, allowed = entry
                seen_benign.add(key)
                callees = {(_callee_name(c)) for s in node.body for c in ast.walk(s) if isinstance(c, ast.Call)}
                if allowed is not None:
                    grown = sorted(c for c in callees if c not in allowed and not _is_plain_record(prog, c))
                    rep.check(not grown, ra, mod.name, q, f"benign handler except {caught} in {q} still covers only the confirmed calls", f"the try body guarded by the tabled-benign 'except {caught}' in {q} now also covers {grown}: errors of those calls would be swallowed ({reason})", loc(node), definite=_any_known(grown) or not (set(allowed) - callees))  # a new name standing where a confirmed one vanished may be a rename: not a positive finding
                else:
                    rep.ok(ra, f"benign handler except {caught} in {q}", reason)
    for key in BENIGN_HANDLERS:
        if key not in seen_benign:
            rep.note(f"tabled benign handler {key} no longer exists (stale table entry, harmless)")

    # ---------------------------------------------------------------- C12.b
    rb = rep.rule("C12.b", "every constructor parameter reaches its field only through the validator the statement demands", floor=40, follows_calls=True)
    _check_validators(rep, rb, m)

    # ---------------------------------------------------------------- C12.c
    rc = rep.rule("C12.c", "sheet structure guards: eight state x token faults, asset / class mismatch, missing sheet", floor=12)
    _check_structure(rep, rc, m)
    _check_tokens(rep, rc, m)

    # the repeated-table guard asks "is this table's set already non-empty?": every data row must therefore be in its set before the next row is read
    from . import c11

    rf = rep.rule("C12.f", "each data row is added to its table's set as soon as it is read (C11.d restated): the structure guards that test a set's emptiness see every earlier row", floor=8)
    sub11 = Report("C11", tier)
    c11.run(sub11, tier)
    rep.absorb(sub11, rf, ("C11.d",), "row loop")

    # ---------------------------------------------------------------- C12.d
    rd = rep.rule("C12.d", "config and command line: unknown/repeated/empty parts raise; -m restricted, defaults to 'not given', conflicts with the config section", floor=14)
    _check_config_cli(rep, rd, m)

    # ---------------------------------------------------------------- C12.e
    re_ = rep.rule("C12.e", "exit status and no report: one try around the whole run -> exit non-zero; every sys.exit non-zero; generators after all assets", floor=6)
    _check_exit(rep, re_, m)


def _callee_name(c: ast.Call) -> str:
    f = c.func
    if isinstance(f, ast.Attribute):
        return f.attr
    if isinstance(f, ast.Name):
        return f.id
    return unparse(f)


# parameter -> required validator (suffix of the validating callee) [+ required keyword constants]
def _V(name: str, **kw: Any):
    return (name, kw)


SPECS = {
    ("rp2.abstract_entry", "AbstractEntry"): {"configuration": _V("Configuration.type_check"), "asset": _V("Configuration.type_check_asset")},
    ("rp2.abstract_transaction", "AbstractTransaction"): {
        "timestamp": _V("Configuration.type_check_timestamp_from_string"),
        "transaction_type": _V("TransactionType.type_check_from_string"),
        "spot_price": _V("Configuration.type_check_positive_decimal"),
        "row": _V("Configuration.type_check_internal_id"),
        "unique_id": _V("Configuration.type_check_string_or_integer"),
        "notes": _V("Configuration.type_check_string"),
    },
    ("rp2.in_transaction", "InTransaction"): {
        "exchange": _V("Configuration.type_check_exchange"),
        "holder": _V("Configuration.type_check_holder"),
        "crypto_fee": _V("Configuration.type_check_positive_decimal"),
        "fiat_fee": _V("Configuration.type_check_positive_decimal"),
        "fiat_in_no_fee": _V("Configuration.type_check_positive_decimal", non_zero=True),
        "fiat_in_with_fee": _V("Configuration.type_check_positive_decimal", non_zero=True),
        "from_lot": _V("InTransaction.type_check"),
    },
    ("rp2.out_transaction", "OutTransaction"): {
        "exchange": _V("Configuration.type_check_exchange"),
        "holder": _V("Configuration.type_check_holder"),
        "crypto_out_with_fee": _V("Configuration.type_check_positive_decimal", non_zero=True),
        "fiat_out_no_fee": _V("Configuration.type_check_positive_decimal", non_zero=True),
        "fiat_fee": _V("Configuration.type_check_positive_decimal"),
    },
    ("rp2.intra_transaction", "IntraTransaction"): {
        "from_exchange": _V("Configuration.type_check_exchange"),
        "from_holder": _V("Configuration.type_check_holder"),
        "to_exchange": _V("Configuration.type_check_exchange"),
        "to_holder": _V("Configuration.type_check_holder"),
        "crypto_sent": _V("Configuration.type_check_positive_decimal", non_zero=True),
        "crypto_received": _V("Configuration.type_check_positive_decimal"),
    },
    ("rp2.configuration", "Configuration"): {
        "configuration_path": _V("Configuration.type_check_string"),
        "country": _V("AbstractCountry.type_check"),
        "allow_negative_balances": _V("Configuration.type_check_bool"),
    },
    ("rp2.input_data", "InputData"): {
        "asset": _V("Configuration.type_check_string"),
        "unfiltered_in_transaction_set": _V("TransactionSet.type_check", allow_empty=False),
        "unfiltered_out_transaction_set": _V("TransactionSet.type_check", allow_empty=True),
        "unfiltered_intra_transaction_set": _V("TransactionSet.type_check", allow_empty=True),
    },
    ("rp2.abstract_entry_set", "AbstractEntrySet"): {
        "configuration": _V("Configuration.type_check"),
        "entry_set_type": _V("EntrySetType.type_check_from_string"),
        "asset": _V("Configuration.type_check_asset"),
    },
    ("rp2.gain_loss", "GainLoss"): {
        "crypto_amount": _V("Configuration.type_check_positive_decimal", non_zero=True),
        "taxable_event": _V("AbstractTransaction.type_check"),
    },
}


def _is_plain_record(prog, name: str) -> bool:
    """A NamedTuple / dataclass of the package without an __init__ of its own: constructing it evaluates its arguments and nothing else."""
    cands = [c for c in prog.classes.values() if c.name == name]
    return bool(cands) and all((c.is_namedtuple() or c.is_dataclass()) and "__init__" not in c.methods and "__post_init__" not in c.methods for c in cands)


def _any_known(names) -> bool:
    """At least one of the names is a function / class that exists in the reference tree (a callee that is merely renamed or newly extracted is not a positive finding)."""
    from ..delegation import table

    known = set(table().get("defined", []))
    return any(n in known or "." in str(n) for n in names) if known else True


def _validated_uses(m, ci, param: str) -> List[Tuple[str, Dict[str, Any], ast.AST]]:
    """[(validator fq, constant kwargs, node)] for calls in __init__ that validate ``param`` (value/instance argument is the parameter)."""
    init = m.init_of(ci)
    ctx = m.norm.ctx_for(init, subst_locals=False)
    out = []
    for n in ast.walk(init.node):
        if isinstance(n, ast.Call):
            t = m.norm.term(n, ctx)
            if t[0] == "call" and ".type_check" in t[1]:
                kw = dict(t[2])
                val = kw.get("value", kw.get("instance", kw.get("transaction_type", kw.get("entry_set_type"))))
                if val == ("sym", param):
                    consts = {k: v[1] for k, v in kw.items() if v[0] == "const" and k not in ("name",)}
                    fq = t[1]
                    # `SomeClass.type_check(name, x)` tests isinstance(x, cls): the class that validates is the receiver, wherever the classmethod is inherited from
                    if fq.endswith(".type_check") and isinstance(n.func, ast.Attribute) and isinstance(n.func.value, ast.Name) and n.func.value.id[:1].isupper():
                        impl = m.prog.functions.get(fq)
                        if impl is not None and "isinstance(instance, cls)" in unparse(impl.node):
                            fq = fq.rsplit(":", 1)[0] + ":" + n.func.value.id + ".type_check"
                    out.append((fq, consts, n, []))
            elif t[0] == "ite":
                # a helper that was interpreted (not itself a validator, e.g. 'validate unless absent, else default'): the validators it reaches, with the
                # conditions under which it reaches them
                for fq, consts, conds in _validators_in_term(t, param, []):
                    out.append((fq, consts, n, conds))
    return out


def _validators_in_term(t, param: str, conds: list):
    if not isinstance(t, tuple) or not t:
        return
    if t[0] == "call" and ".type_check" in t[1]:
        kw = dict(t[2])
        val = kw.get("value", kw.get("instance", kw.get("transaction_type", kw.get("entry_set_type"))))
        if val == ("sym", param):
            yield t[1], {k: v[1] for k, v in kw.items() if v[0] == "const" and k not in ("name",)}, list(conds)
        return
    if t[0] == "ite":
        yield from _validators_in_term(t[2], param, conds + [t[1]])
        yield from _validators_in_term(t[3], param, conds + [("not", t[1])])


def _truthiness_guards(node: ast.AST, stop: ast.AST, param: str) -> List[ast.AST]:
    """Tests on the way from ``node`` up to ``stop`` (if statements, conditional expressions, and/or) that test the bare truthiness of ``param``."""
    from ..loader import parent

    def bare(t: ast.AST) -> bool:
        if isinstance(t, ast.UnaryOp) and isinstance(t.op, ast.Not):
            return bare(t.operand)
        if isinstance(t, ast.BoolOp):
            return any(bare(v) for v in t.values)
        return isinstance(t, ast.Name) and t.id == param

    out: List[ast.AST] = []
    cur, prev = parent(node), node
    while cur is not None and cur is not stop:
        if isinstance(cur, (ast.If, ast.IfExp, ast.While)) and prev is not cur.test and bare(cur.test):
            out.append(cur.test)
        if isinstance(cur, ast.BoolOp) and any(bare(v) for v in cur.values if v is not prev):
            out.append(cur)
        prev, cur = cur, parent(cur)
    return out


def _check_validators(rep: Report, rule: str, m) -> None:
    prog, norm = m.prog, m.norm
    for (mod, cname), spec in SPECS.items():
        ci = prog.cls(mod, cname)
        init = m.init_of(ci)
        rep.analysed(init)
        defs = m.field_defs(ci)
        for param, (validator, kwreq) in spec.items():
            if param not in init.param_names:
                rep.violation(rule, mod, init.qualname, f"{cname}.{param} parameter exists", f"{cname}.__init__ no longer takes '{param}' (spec row is stale or the field became unvalidated)", loc(init.node))
                continue
            uses = _validated_uses(m, ci, param)
            good = [u for u in uses if u[0].endswith(validator) and all(u[1].get(k) == v for k, v in kwreq.items())]
            need = f"{validator}({', '.join(f'{k}={v}' for k, v in kwreq.items())})" if kwreq else validator
            rep.check(bool(good), rule, mod, init.qualname, f"{cname}.{param} is validated by {need}", f"parameter '{param}' of {cname} is validated by {[(u[0].split(':')[-1], u[1]) for u in uses] or 'nothing'}; the statement requires {need} (unknown names, naive timestamps, non-positive or zero amounts would be accepted)", loc(init.node))
            # every field assigned from the parameter takes the validator's result, not the raw parameter
            raw = []
            for fld, ds in defs.items():
                for g, v, node in ds:
                    if any(s == ("sym", param) for s in subterms(v)) and not any(s[0] == "call" and ".type_check" in s[1] and ("sym", param) in [x for _, x in s[2]] for s in subterms(v)):
                        # raw flow: allowed only when a dominating validator call exists (validated earlier, then stored)
                        earlier = [u for u in good if u[2].lineno < node.lineno]
                        if not earlier:
                            raw.append((fld, node))
            # a validator that must reject zero has to run whenever the parameter is supplied: a truthiness test on the parameter
            # ('x if param else default', 'if param:') treats a supplied 0 like 'not supplied' and skips the rejection
            if kwreq.get("non_zero") is True or validator.endswith(("type_check_exchange", "type_check_holder", "type_check_asset")):
                for u in good:
                    tests = _truthiness_guards(u[2], init.node, param) + [c for c in u[3] if ("truthy", ("sym", param)) in subterms(c)]
                    rep.check(
                        not tests,
                        rule,
                        mod,
                        init.qualname,
                        f"{cname}.{param}: the validator runs for every supplied value (guard is 'is None', not truthiness)",
                        f"the validation of '{param}' in {cname}.__init__ is reached only when {[short(t, 60) if isinstance(t, ast.AST) else show(t)[:60] for t in tests]} is truthy: a supplied value of 0 (or an empty string) is then treated as 'not supplied' and silently "
                        f"replaced by a computed default instead of being rejected by {need}",
                        loc(u[2]),
                    )
            rep.check(not raw, rule, mod, init.qualname, f"{cname}.{param} is stored only after validation", f"field(s) {[f for f, _ in raw]} of {cname} are assigned from the raw parameter '{param}' before/without validation", loc(raw[0][1]) if raw else loc(init.node))
    # amount validators that depend on the type (case split)
    inn = prog.cls("rp2.in_transaction", "InTransaction")
    d = m.field_defs(inn).get("InTransaction.__crypto_in", [])
    staking = next((x for x in m.tt_members() if x.member == "STAKING"), None)
    strict = [v for g, v, _ in d if v[0] == "call" and v[1].endswith("type_check_positive_decimal") and dict(v[2]).get("non_zero") == ("const", True) and "!=" in show(g)]
    loose = [(g, v) for g, v, _ in d if not (v[0] == "call" and v[1].endswith("type_check_positive_decimal") and dict(v[2]).get("non_zero") == ("const", True))]
    ok = len(strict) == 1 and len(loose) == 1 and loose[0][0] == ("cmp", "==", ("fld", ("sym", "self"), "AbstractTransaction.__transaction_type"), ("const", staking)) and loose[0][1][0] == "call" and loose[0][1][1].endswith("type_check_decimal")
    rep.check(ok, rule, inn.module, "InTransaction.__init__", "crypto_in: positive and non-zero except for STAKING", f"InTransaction.__crypto_in is defined as {[(show(g)[:60], show(v)[:90]) for g, v, _ in d]}; non-positive acquisitions must be rejected for every type but STAKING", loc(inn.node))
    out = prog.cls("rp2.out_transaction", "OutTransaction")
    od = m.field_defs(out)
    fee = next((x for x in m.tt_members() if x.member == "FEE"), None)
    is_fee = ("cmp", "==", ("fld", ("sym", "self"), "AbstractTransaction.__transaction_type"), ("const", fee))
    not_fee = ("cmp", "!=", is_fee[2], is_fee[3])

    def nz(defs, guard, want_nz):
        return any((g == guard or (g[0] == "and" and guard in g[1])) and v[0] == "call" and v[1].endswith("type_check_positive_decimal") and (dict(v[2]).get("non_zero") == ("const", True)) == want_nz for g, v, _ in defs)

    a, f = od.get("OutTransaction.__crypto_out_no_fee", []), od.get("OutTransaction.__crypto_fee", [])
    ok = nz(a, not_fee, True) and nz(a, is_fee, False) and nz(f, is_fee, True) and nz(f, not_fee, False) and len(a) == 2 and len(f) == 2
    rep.check(ok, rule, out.module, "OutTransaction.__init__", "out amounts: non-zero amount unless fee-typed; non-zero fee when fee-typed", f"crypto_out_no_fee: {[(show(g)[:40], show(v)[:80]) for g, v, _ in a]}; crypto_fee: {[(show(g)[:40], show(v)[:80]) for g, v, _ in f]}", loc(out.node))
    # dedicated guards located by normal form (orientation-insensitive, exact atom sets)
    Z0 = ("const", __import__("decimal").Decimal(0))
    SP = ("sym", "spot_price")
    SELF = ("sym", "self")
    TYPE = ("fld", SELF, "AbstractTransaction.__transaction_type")
    FEE = ("const", fee)

    def cmp(a, op, b):
        return ("cmp", op, a, b)

    guards = {
        ("rp2.in_transaction", "InTransaction"): [
            ("zero spot price rejected", [cmp(SP, "==", Z0)]),
            ("both crypto_fee and fiat_fee rejected", [cmp(("sym", "crypto_fee"), "is not", ("const", None)), cmp(("sym", "fiat_fee"), "is not", ("const", None))]),
        ],
        ("rp2.out_transaction", "OutTransaction"): [
            ("zero spot price rejected unless fee-typed", [cmp(SP, "==", Z0), cmp(TYPE, "!=", FEE)]),
            ("fee-typed with non-zero amount rejected", [cmp(("fld", SELF, "OutTransaction.__crypto_out_no_fee"), "!=", Z0), cmp(TYPE, "==", FEE)]),
        ],
        ("rp2.intra_transaction", "IntraTransaction"): [
            ("more received than sent rejected", [cmp(("fld", SELF, "IntraTransaction.__crypto_sent"), "<", ("fld", SELF, "IntraTransaction.__crypto_received"))]),
        ],
        ("rp2.configuration", "Configuration"): [("from_date > to_date rejected", [cmp(("fld", SELF, "Configuration.__from_date"), ">", ("fld", SELF, "Configuration.__to_date"))])],
    }
    for (mod, cname), items in guards.items():
        ci = prog.cls(mod, cname)
        rs = m.raises_in(m.init_of(ci), early_exits=False)
        for what, want_atoms in items:
            ok = any(_same_atoms(_implied_atoms(g), want_atoms) for g, _ in rs)
            rep.check(ok, rule, mod, f"{cname}.__init__", f"{cname}: {what}", f"{cname}.__init__ has no raise exactly under '{' and '.join(show(a) for a in want_atoms)}' ({what}); guards: {[show(g)[:80] for g, _ in rs]}", loc(ci.node), reads_shape=True)
    intra = prog.cls("rp2.intra_transaction", "IntraTransaction")
    rs = m.raises_in(m.init_of(intra), early_exits=False)
    ok = any("IntraTransaction.__crypto_fee] != D0" in show(g) and "spot_price is None" in show(g) and "(spot_price == D0)" in show(g) for g, _ in rs)
    rep.check(ok, rule, intra.module, "IntraTransaction.__init__", "IntraTransaction: missing/zero spot price rejected when there is a fee", f"guards: {[show(g)[:90] for g, _ in rs]}", loc(intra.node))
    # validators themselves: membership / tz / sign
    cfg = prog.cls("rp2.configuration", "Configuration")
    for name, fld in (("type_check_exchange", "__exchanges"), ("type_check_holder", "__holders"), ("type_check_asset", "__assets")):
        f = cfg.methods[name]
        rs = m.raises_in(f, early_exits=False)
        ok = any(show(g) == f"(value not in self.[Configuration.{fld}])" for g, _ in rs) and [unparse(s) for s in f.body][-1] == "return value"
        rep.check(ok, rule, cfg.module, f.qualname, f"{name}: value must be in the configured {fld.strip('_')}", f"{name} no longer raises exactly when the value is not in self.{fld}", loc(f.node))
    f = cfg.methods["type_check_positive_decimal"]
    rs = [show(g) for g, _ in m.raises_in(f, early_exits=False)]
    ok = any(g.endswith("< D0)") for g in rs) and any("non_zero" in g and "== D0" in g for g in rs)
    rep.check(ok, rule, cfg.module, f.qualname, "type_check_positive_decimal: negative rejected; zero rejected when non_zero", f"type_check_positive_decimal guards are {rs}", loc(f.node))
    f = cfg.methods["type_check_decimal"]
    rs = [show(g) for g, _ in m.raises_in(f, early_exits=False)]
    rep.check(any("isinstance(value, class:rp2.rp2_decimal:RP2Decimal)" in g for g in rs), rule, cfg.module, f.qualname, "type_check_decimal: non-RP2Decimal rejected", f"type_check_decimal guards are {rs}", loc(f.node))
    tt = prog.func("rp2.entry_types", "TransactionType.type_check_from_string")
    rs = [show(g) for g, _ in m.raises_in(tt, early_exits=False)]
    rep.check(any("has_value" in g or "_transaction_type_values" in g or ("not in {" in g and "'airdrop'" in g) for g in rs), rule, tt.module, tt.qualname, "unknown transaction type strings rejected", f"TransactionType.type_check_from_string guards are {rs}", loc(tt.node))


def _implied_atoms(g) -> List[Any]:
    """Atoms of a guard; the elif-chain residue '(b is not None) or (a is None)' implied by the other atoms is dropped."""
    atoms = list(g[1]) if g[0] == "and" else [g]
    return [a for a in atoms if a[0] != "or"]


def _same_atoms(have: List[Any], want: List[Any]) -> bool:
    from ..norm import FLIP

    def key(a):
        if a[0] == "cmp" and a[1] in FLIP and tkey(a[2]) > tkey(a[3]):
            a = ("cmp", FLIP[a[1]], a[3], a[2])
        return tkey(a)

    return sorted(key(a) for a in have) == sorted(key(a) for a in want)


def _check_structure(rep: Report, rule: str, m) -> None:
    prog, norm = m.prog, m.norm
    po = prog.func("rp2.ods_parser", "parse_ods")
    rep.analysed(po)
    saved = set(norm.opaque_funcs)
    norm.opaque_funcs |= {f"rp2.ods_parser:{n}" for n in ("_is_table_begin", "_is_table_end", "_is_empty", "_get_entry_set_type")}
    try:
        rs = [(show(g), n) for g, n in m.raises_in(po, early_exits=False)]
    finally:
        norm.opaque_funcs.clear()
        norm.opaque_funcs |= saved
    def atoms(g: str):
        return g

    inside, outside = "(current_table_type is not None)", "(current_table_type is None)"
    B, E, Z = "_is_table_begin(cell_value=cell0_value)", "_is_table_end(cell_value=cell0_value)", "_is_empty(cell_value=cell0_value)"

    def pos(g: str, a: str) -> bool:
        return a in g and ("not " + a) not in g

    def neg(g: str, a: str) -> bool:
        return ("not " + a) in g

    faults = {
        "nested table begin inside a table": lambda g: inside in g and pos(g, B) and "unfiltered_transaction_sets" not in g,
        "empty first cell inside a table": lambda g: inside in g and pos(g, Z),
        "TABLE END outside a table": lambda g: outside in g and pos(g, E),
        "data outside a table": lambda g: outside in g and neg(g, Z) and neg(g, B),
        "repeated table of a kind already filled": lambda g: pos(g, B) and "unfiltered_transaction_sets" in g and ("!= 0" in g or "not " in g),
        "data row where the header is expected": lambda g: "current_table_row_count == 1" in g,
        "missing TABLE END at end of sheet": lambda g: g == inside,
        "IN table missing or empty": lambda g: "EntrySetType.IN" in g and "== 0" in g and B not in g,
        "sheet missing": lambda g: "sheets.names()" in g and "not in" in g,
    }
    for what, pred in faults.items():
        ok = any(pred(g) for g, _ in rs)
        rep.check(ok, rule, po.module, po.qualname, f"parse_ods raises: {what}", f"parse_ods has no raise for '{what}'; guards found: {[g[:90] for g, _ in rs]}", loc(po.node))
    # the state variable is only set by begin / end tokens
    sets = sorted(unparse(n) for n in ast.walk(po.node) if isinstance(n, ast.Assign) and unparse(n.targets[0]) == "current_table_type")
    rep.check(sets == ["current_table_type = None", "current_table_type = _get_entry_set_type(cell0_value)"], rule, po.module, po.qualname, "table state changes only at begin / end tokens", f"current_table_type is assigned by {sets}", loc(po.node))
    ae = prog.func("rp2.abstract_entry_set", "AbstractEntrySet.add_entry")
    rs = [show(g) for g, _ in m.raises_in(ae, early_exits=False)]
    need = {
        "row asset differs from its sheet": lambda g: "AbstractEntrySet.__asset" in g and "!=" in g,
        "non-IN class in IN set": lambda g: "EntrySetType.IN" in g and "InTransaction" in g,
        "non-OUT class in OUT set": lambda g: "EntrySetType.OUT" in g and "OutTransaction" in g,
        "non-INTRA class in INTRA set": lambda g: "EntrySetType.INTRA" in g and "IntraTransaction" in g,
    }
    for what, pred in need.items():
        rep.check(any(pred(g) for g in rs), rule, ae.module, ae.qualname, f"add_entry raises: {what}", f"AbstractEntrySet.add_entry has no raise for '{what}' (guards: {[g[:70] for g in rs]})", loc(ae.node))
    # the row loop cannot end before the sheet does (shared with C11.d)
    from . import c11 as _c11

    loops = [_c11.find_row_loop(rep, rule, prog, po)[0]]
    exits = [n for n in ast.walk(loops[0]) if isinstance(n, (ast.Break, ast.Continue, ast.Return))]
    rep.check(not exits, rule, po.module, po.qualname, "the row loop examines every row to the end of the sheet", f"the row loop of parse_ods contains {[type(n).__name__.lower() for n in exits]}: structural faults after that point (data outside a table, repeated tables, dangling TABLE END) are never examined", loc(exits[0]) if exits else loc(loops[0]))


def _check_named_asset(rep: Report, rule: str, m, main, loop) -> None:
    """An asset named with -a reaches the parser as given (so that one the configuration does not list is rejected by parse_ods' type_check_asset,
    C12.b): on the path where args.asset is set, the list the per-asset loop iterates is exactly [args.asset]; without -a it is the configured assets."""
    from ..symexec import SPath, SymExec

    if loop is None or not isinstance(loop.iter, ast.Name):
        rep.defer_error(f"{loc(main.node)}: {main.qualname}: the per-asset loop does not iterate a list held in a local: -a handling not decided for this shape")
        return
    name = loop.iter.id
    blk = getattr(parent(loop), "body", [])
    if loop not in blk:
        rep.defer_error(f"{loc(loop)}: {main.qualname}: per-asset loop not found in a statement block: -a handling not decided for this shape")
        return
    i = blk.index(loop)
    first = next((k for k, st in enumerate(blk[:i]) if any(isinstance(n, ast.Name) and n.id == name and isinstance(n.ctx, ast.Store) for n in ast.walk(st))), None)
    if first is None:
        rep.defer_error(f"{loc(loop)}: {main.qualname}: '{name}' is not bound in the block of the per-asset loop: -a handling not decided for this shape")
        return
    se = SymExec(m.norm, m.norm.ctx_for(main, subst_locals=False), inline_helpers=False)
    given = ("attr", ("sym", "args"), "asset")
    configured = ("fld", ("sym", "configuration"), "Configuration.__assets")
    counts = {"given": 0, "all": 0}
    for p in se.run(blk[first:i], SPath()):
        if p.exit != "fall":
            continue
        val = p.vars.get(name, (None,))[0]
        conds = p.conds()
        has = ("truthy", given) in conds or ("cmp", "is not", given, ("const", None)) in conds
        has_not = ("not", ("truthy", given)) in conds or ("cmp", "is", given, ("const", None)) in conds
        cases = [(has, has_not, val)]
        if not has and not has_not and val is not None:
            # the same decision written as a conditional expression (possibly inside sorted(...) / list(...))
            inner, wrap = val, []
            while inner[0] == "xcall" and inner[1] in ("sorted", "list") and inner[2] is None and len(inner[3]) == 1 and not inner[4]:
                wrap.append(inner[1])
                inner = inner[3][0]
            if inner[0] == "ite" and inner[1] in (("truthy", given), ("cmp", "is not", given, ("const", None))):
                cases = [(True, False, inner[2]), (False, True, inner[3])]
        for has, has_not, val in cases:
            _judge_asset_list(rep, rule, main, loop, has, has_not, val, given, configured, counts)
    n_given, n_all = counts["given"], counts["all"]
    if n_given == 0 and n_all == 0:
        return
    if not (n_given and n_all):
        rep.violation(rule, main.module, main.qualname, "both 'asset named' and 'all configured assets' are handled", f"paths that build the asset list: with -a {n_given}, without {n_all}", loc(loop))


def _judge_asset_list(rep, rule, main, loop, has, has_not, val, given, configured, counts) -> None:
    if has:
        counts["given"] += 1
        ok = val in (("list", (given,)), ("xcall", "sorted", None, (("list", (given,)),), ()))
        rep.check(ok, rule, main.module, main.qualname, "-a ASSET: the asset processed is the one named, as given", f"with -a the per-asset loop iterates {show(val)[:160] if val else None}; expected [args.asset]: a name the configuration does not list (a typo, wrong case, a comma list) must reach parse_ods and be rejected there, not be filtered away (no asset processed, empty reports, exit 0)", loc(loop))
    elif has_not:
        counts["all"] += 1
        ok = val is not None and configured in list(subterms(val)) and given not in list(subterms(val))
        rep.check(ok, rule, main.module, main.qualname, "no -a: every configured asset is processed", f"without -a the per-asset loop iterates {show(val)[:160] if val else None}; expected the configured assets", loc(loop))
    else:
        rep.violation(rule, main.module, main.qualname, "the asset list is decided on whether -a was given", f"the list of assets to process is {show(val)[:200] if val else None} on a path that does not test args.asset: expected [args.asset] when -a is given (an unknown name must be rejected by the parser, not filtered away) and the configured assets otherwise", loc(loop))


def _check_config_cli(rep: Report, rule: str, m) -> None:
    prog = m.prog
    cfg_init = prog.func("rp2.configuration", "Configuration.__init__")
    rep.analysed(cfg_init)
    rs = [(show(g), n) for g, n in m.raises_in(cfg_init, early_exits=False)]
    gtxt = [g for g, _ in rs]
    # the 'repeated section' raises of a last branch written as a guard clause (`else: if not name == X: raise ...; if seen: raise ...`) are
    # conditioned on having passed the guard: for those predicates the guards with early exits accounted for count as well
    gtxt_after_exits = gtxt + [show(g) for g, _ in m.raises_in(cfg_init, early_exits=True)]
    for what, pred in {
        "unknown section": lambda g: all(f"!= '{k}'" in g for k in ("general", "in_header", "out_header", "intra_header", "accounting_methods")),
        "repeated general section": lambda g: "== 'general'" in g and "Configuration.__assets" in g,
        "repeated in_header": lambda g: "== 'in_header'" in g and "bool(self.[Configuration.__in_header])" in g,
        "repeated out_header": lambda g: "== 'out_header'" in g and "bool(self.[Configuration.__out_header])" in g,
        "repeated intra_header": lambda g: "== 'intra_header'" in g and "bool(self.[Configuration.__intra_header])" in g,
        "repeated accounting_methods": lambda g: "== 'accounting_methods'" in g and "Configuration.__years_2_accounting_method_names" in g,
        "no assets": lambda g: g == "not bool(self.[Configuration.__assets])",
        "no exchanges": lambda g: g == "not bool(self.[Configuration.__exchanges])",
        "no holders": lambda g: g == "not bool(self.[Configuration.__holders])",
        "empty in_header": lambda g: g == "not bool(self.[Configuration.__in_header])",
        "empty out_header": lambda g: g == "not bool(self.[Configuration.__out_header])",
        "empty intra_header": lambda g: g == "not bool(self.[Configuration.__intra_header])",
        "missing configuration file": lambda g: "exists()" in g,
    }.items():
        rep.check(any(pred(g) for g in (gtxt_after_exits if what.startswith("repeated") else gtxt)), rule, cfg_init.module, cfg_init.qualname, f"Configuration raises: {what}", f"Configuration.__init__ has no raise for '{what}'", loc(cfg_init.node))
    from . import c11

    c11.check_header_validation(rep, rule)
    setup = prog.func("rp2.rp2_main", "_setup_argument_parser")
    opt = None
    for c in ast.walk(setup.node):
        if isinstance(c, ast.Call) and isinstance(c.func, ast.Attribute) and c.func.attr == "add_argument" and any(isinstance(a, ast.Constant) and a.value == "-m" for a in c.args):
            opt = c
    if opt is None:
        raise AnalysisError("-m option not found")
    kw = {k.arg: k.value for k in opt.keywords}
    rep.check(unparse(kw.get("choices")) == "accounting_methods" and "accounting_methods = _validate_accounting_methods(country)" in unparse(setup.node), rule, setup.module, setup.qualname, "-m choices are the country's validated accounting methods", f"-m is declared with choices={unparse(kw.get('choices')) if kw.get('choices') is not None else None}", loc(opt))
    d = kw.get("default")
    rep.check(isinstance(d, ast.Constant) and d.value in ("", None), rule, setup.module, setup.qualname, "-m defaults to 'not given' (falsy constant)", f"-m has default={unparse(d) if d is not None else '<argparse None>'}: the run distinguishes 'method given on the command line' by truthiness of args.method, so a non-empty default makes a config with an [accounting_methods] section abort, or hides an explicit -m equal to the default from the conflict check", loc(opt))
    main = prog.func("rp2.rp2_main", "_rp2_main_internal")
    from ..engine import method_conflict_exit

    ok = len(method_conflict_exit(m)) == 1
    rep.check(ok, rule, main.module, main.qualname, "-m together with [accounting_methods] => exit 1", "no sys.exit(<non-zero>) is reached exactly under 'args.method is given and the configuration has an accounting_methods table': a contradictory method specification would be accepted (one of the two silently ignored)", loc(main.node))
    va = prog.func("rp2.rp2_main", "_validate_accounting_methods")
    txt = unparse(va.node)
    member_tests = [n for n in ast.walk(va.node) if isinstance(n, ast.Compare) and len(n.ops) == 1 and isinstance(n.ops[0], ast.In) and unparse(n.comparators[0]) == "accounting_methods"]  # as an if statement or a comprehension filter
    rep.check(bool(member_tests) and "accounting_methods: Set[str] = country.get_accounting_methods()" in txt, rule, va.module, va.qualname, "validated methods = plugins present AND accepted by the country", "_validate_accounting_methods no longer intersects the discovered plugins with country.get_accounting_methods()", loc(va.node))
    sp = prog.func("rp2.rp2_main", "_setup_paths")
    stxt = unparse(sp.node)
    for what, needle in {"missing configuration file": "if not Path(configuration_file).exists():", "input not .ods": "if not input_file.endswith('.ods'):", "missing input file": "if not Path(input_file).exists():"}.items():
        blk = [n for n in ast.walk(sp.node) if isinstance(n, ast.If) and unparse(n).startswith(needle)]
        ok = len(blk) == 1 and terminates(blk[0].body) and unparse(blk[0].body[-1]) == "sys.exit(1)"
        rep.check(ok, rule, sp.module, sp.qualname, f"_setup_paths exits 1: {what}", f"_setup_paths no longer exits with status 1 for '{what}'", loc(sp.node))
    dep = [n for n in ast.walk(main.node) if isinstance(n, ast.If) and unparse(n.test) == "args.plugin"]
    rep.check(len(dep) == 1 and "sys.exit(1)" in unparse(dep[0].body[-1]), rule, main.module, main.qualname, "deprecated -l/--plugin => exit 1", "the deprecated -l option no longer exits with status 1", loc(main.node))


def _check_exit(rep: Report, rule: str, m) -> None:
    prog = m.prog
    main = prog.func("rp2.rp2_main", "_rp2_main_internal")
    rep.analysed(main)
    tries = [n for n in main.node.body if isinstance(n, ast.Try) and any("Configuration(" in unparse(s) for s in n.body)]
    if len(tries) != 1:
        raise AnalysisError("top-level try around the run not found in _rp2_main_internal")
    tr = tries[0]
    body_txt = " ".join(unparse(s) for s in tr.body)
    need = ["Configuration(", "open_ods(", "parse_ods(", "compute_tax(", "_find_and_run_report_generators("]
    rep.check(all(n in body_txt for n in need), rule, main.module, main.qualname, "configuration, parsing, computation and report generation are all inside the one try", f"the top-level try no longer covers all of {need}", loc(tr))
    hs = [h for h in tr.handlers if h.type is not None and unparse(h.type) == "Exception"]
    ok = len(hs) == 1 and len(tr.handlers) == 1 and unparse(hs[0].body[-1]) == "sys.exit(1)"
    rep.check(ok, rule, main.module, main.qualname, "except Exception -> log + sys.exit(1)", "the top-level handler no longer ends in sys.exit(1) for every Exception", loc(tr))
    n_exit = 0
    for mod in prog.package.modules.values():
        for node in ast.walk(mod.tree):
            if isinstance(node, ast.Call) and unparse(node.func) in ("sys.exit", "exit", "quit", "os._exit"):
                n_exit += 1
                arg = node.args[0] if node.args else None
                ok = isinstance(arg, ast.Constant) and isinstance(arg.value, int) and arg.value != 0
                rep.check(ok, rule, mod.name, _qual(node), f"{mod.name}:{_qual(node)} exits with a non-zero constant", f"{short(node)} exits with status {unparse(arg) if arg is not None else 'None (0)'}: every early exit in rp2 reports a rejected input and must be non-zero", loc(node))
    if n_exit < 10:
        raise AnalysisError(f"found {n_exit} sys.exit calls; expected >= 10")
    loops = [n for n in ast.walk(tr) if isinstance(n, ast.For) and "compute_tax(" in unparse(n)]
    gens = [n for n in ast.walk(tr) if isinstance(n, ast.Call) and unparse(n.func) == "_find_and_run_report_generators"]
    ok = len(loops) == 1 and len(gens) == 1 and gens[0].lineno > loops[0].end_lineno
    rep.check(ok, rule, main.module, main.qualname, "report generators run once, after the per-asset loop", "report generation is not strictly after the loop that parses and computes every asset: a report could be written before a later asset is rejected", loc(tr))
    _check_named_asset(rep, rule, m, main, loops[0] if len(loops) == 1 else None)
    frg = prog.func("rp2.rp2_main", "_find_and_run_report_generators")
    tail = frg.node.body[-1]
    ok = isinstance(tail, ast.If) and unparse(tail.test) == "generators" and "sys.exit(1)" in unparse(tail.body[-1])
    rep.check(ok, rule, frg.module, frg.qualname, "configured generators that were not found => exit 1", "unknown report generators no longer make the run exit with status 1", loc(frg.node))


def _check_tokens(rep: Report, rule: str, m) -> None:
    """The structure guards are stated over three token predicates; what counts as empty / table end / table begin is part of the guard."""
    from ..consts import UNKNOWN, fold_module_const

    prog, norm = m.prog, m.norm
    P = "rp2.ods_parser"
    v = ("sym", "v")
    args = {"cell_value": (v, ("prim", "str"))}
    ctx = Ctx(P, None)
    # the three row predicates are decided by evaluating their normal forms on representative first-cell values (shared with C11.g: spelling-independent)
    from .c11 import _check_row_predicates

    _check_row_predicates(rep, m, rule_id=rule)
    tok = fold_module_const(prog, P, "_TABLE_END")
    rep.check(tok == "TABLE END", rule, P, "_TABLE_END", "table end token is exactly 'TABLE END'", f"_TABLE_END = {tok!r}; the documented end-of-table keyword is 'TABLE END'", loc(prog.func(P, "_is_table_end").node))
    gst = prog.func("rp2.entry_types", "EntrySetType.get_entry_set_type_from_string")
    txt = [unparse(s2) for s2 in gst.body]
    ok = any("has_value(entry_set_type.lower())" in x and "return None" in x for x in txt) and txt[-1] == "return EntrySetType[entry_set_type.upper()]"
    rep.check(ok, rule, gst.module, gst.qualname, "table keywords are matched case-insensitively against the EntrySetType values, anything else is no keyword", f"get_entry_set_type_from_string is {txt}", loc(gst.node))

"""C14 — tax report lists every fraction once, on the sheet of its transaction type."""

from __future__ import annotations

import ast
import re
from typing import Any, Dict, List, Optional, Tuple

from ..artefacts import first_empty_row, ods_sheets, template_path
from ..consts import UNKNOWN, fold_class_attr, fold_module_const
from ..loader import AnalysisError, ancestors, loc, short, unparse
from ..norm import Ctx, mk_add, show, subterms, tkey
from ..report import Report
from ..rp2model import EARN_SPEC, model
from ..symexec import SPath, SymExec, delta_of

META = {
    "title": "Tax report lists every fraction once, on the sheet of its transaction type",
    "technique": "table exhaustiveness over the finite set of taxable transaction types (derived by constant propagation through the constructors) against each generator's "
    "type->sheet map, agreement of those maps with the shipped ODS templates (sheet names, header block height, header labels), per-iteration effect summary of the row "
    "writer (row taken from and written back to the per-sheet counter exactly once, counter shared by all assets), sizing rule (rows appended >= rows an asset can add), "
    "column/label/field table against the template's own header strings, removal rule for empty sheets, sibling cross-check of the US and IE generators",
    "explanation": "for the US and IE generators: every type a taxable event can carry (7 earn types, 6 out types, MOVE) is a key of the type->sheet map and lands on the "
    "sheet the statement names; every mapped sheet exists in the shipped template, is kept, has a row counter, and every kept sheet has a type list; the row counter table is "
    "created once per generate() and shared by all assets, each fraction is written at table[sheet] and the entry advanced by one exactly once per fraction; per asset each "
    "sheet gets at least count(type) rows appended for each of its types; HEADER_ROWS equals the first empty row of the template's header block; the cell under each template "
    "header receives the computed field it names (dates acquired/sold from the lot's / event's own timestamps, proceeds, cost basis, gain, LONG iff the fraction is long-term); "
    "sheets are removed only after all assets were written and exactly when their counter still equals HEADER_ROWS; the two generators differ only in the tabled constants; "
    "the filtered gain/loss set the generators iterate applies both window bounds inclusively on the entry's own calendar date; no cell shows a value left over from an earlier row.",
    "not_decided": "the bytes ezodf writes; rendering; that append_rows / sheet deletion behave as documented.",
    "assumptions": ["ezodf Sheet.append_rows(n) adds n rows; del sheets[i] removes sheet i"],
}

GENS = {"us": "rp2.plugin.report.us.tax_report_us", "ie": "rp2.plugin.report.ie.tax_report_ie"}
SHEET_SPEC = {
    "SELL": "Capital Gains",
    "GIFT": "Gifts",
    "DONATE": "Donations",
    "FEE": "Investment Expenses",
    "LOST": "Investment Expenses",
    "MOVE": "Investment Expenses",
    "AIRDROP": "Airdrops",
    "HARDFORK": "Hard Forks",
    "INCOME": "Income",
    "INTEREST": "Interest",
    "MINING": "Mining",
    "STAKING": "Staking",
    "WAGES": "Wages",
}
LANG = {"us": "en", "ie": "en_IE"}
EV_NOTE = 'f"{gls.get_taxable_event_fraction(gl) + 1}/{gls.get_taxable_event_number_of_fractions(gl.taxable_event)}: {gl.crypto_amount:.8f} of {gl.taxable_event.crypto_balance_change:.8f} {asset}"'
LOT_NOTE = 'f"{gls.get_acquired_lot_fraction(gl) + 1}/{gls.get_acquired_lot_number_of_fractions(gl.acquired_lot)}: {gl.crypto_amount:.8f} of {gl.acquired_lot.crypto_balance_change:.8f} {asset}"'
# template header label (row "...|...", matched by prefix of the joined header rows of the column) -> expected value; DATE(x) = x.strftime(<Y m d pattern>)
COLS = [
    ("Description of propert", "gl.crypto_amount"),
    ("", "gl.asset"),
    ("Date acquired", ("DATE", "gl.acquired_lot.timestamp")),
    ("Date sold or disposed", ("DATE", "gl.taxable_event.timestamp")),
    ("Proceeds", "gl.taxable_event_fiat_amount_with_fee_fraction"),
    ("Cost or other basis", "gl.fiat_cost_basis"),
    ("(f)", '""'),
    ("(g)", '""'),
    ("Gain or (loss)", "gl.fiat_gain"),
    ("Transaction Type", 'f"{self._get_table_type_from_transaction(gl.taxable_event)} / {gl.taxable_event.transaction_type.value.upper()}"'),
    ("Acquired lot fraction Description", LOT_NOTE),
    ("Unique Id", "gl.acquired_lot.unique_id"),
    ("Sold lot fraction Description", EV_NOTE),
    ("Unique Id", "gl.taxable_event.unique_id"),
    ("Capital Gains Type", '"LONG" if gl.is_long_term_capital_gains() else "SHORT"'),
    ("Date sold or disposed of (full timestamp", "gl.taxable_event.timestamp"),
]


def taxable_types(m) -> set:
    """Transaction types a taxable event can carry: allowed by some class's constructor and not definitely non-taxable for it."""
    out = set()
    for kind, ci in m.transaction_classes().items():
        allowed, _ = m.allowed_types(ci)
        taxable, _ = m.predicate_members(ci, "is_taxable")
        for t in allowed:
            if taxable.get(t) is not False:
                out.add(t)
    return out


def run(rep: Report, tier: str) -> None:
    m = model()
    prog, norm = m.prog, m.norm
    types = taxable_types(m)
    if len(types) < 13:
        raise AnalysisError(f"only {len(types)} taxable transaction types derived; expected 14 members minus BUY")
    ra = rep.rule("C14.a", "routing is total: every type a taxable event can carry has a sheet, the one the statement names", floor=26)
    rb = rep.rule("C14.b", "mapped sheets exist in the shipped template, are kept and counted; every kept sheet has a type list", floor=20)
    rc = rep.rule("C14.c", "no row lost or overwritten: shared per-sheet counter, one row per fraction, enough rows appended, header block height", floor=12)
    rd = rep.rule("C14.d", "columns: the cell under each template header receives the computed field it names", floor=28)
    from ..engine import check_cell_sink

    check_cell_sink(rep, rd)
    from ..engine import check_type_counter

    check_type_counter(rep, rc)  # the sizing loop trusts get_transaction_type_count(type) to be the number of fractions of that type
    re_ = rep.rule("C14.e", "empty sheets are removed after all assets, exactly when their counter still equals HEADER_ROWS, in reverse order", floor=6)
    for cc, modname in GENS.items():
        mod = prog.package.get(modname)
        gen = prog.cls(modname, "Generator")
        type_to_sheet = fold_module_const(prog, modname, "_TYPE_TO_SHEET")
        sheet_to_types = fold_module_const(prog, modname, "_SHEET_TO_TYPES")
        keep = fold_module_const(prog, modname, "_TEMPLATE_SHEETS_TO_KEEP")
        if type_to_sheet is UNKNOWN and sheet_to_types is not UNKNOWN:
            # the inverse table is gone (e.g. routing resolved at run time from _SHEET_TO_TYPES): judge routing on the inverse of the sheet->types table
            type_to_sheet = {t: sheet for sheet, ts in sheet_to_types.items() for t in ts}
            rep.note(f"{cc}: _TYPE_TO_SHEET is not a module-level constant any more; routing judged on the inverse of _SHEET_TO_TYPES")
        if any(x is UNKNOWN for x in (type_to_sheet, sheet_to_types, keep)):
            raise AnalysisError(f"{modname}: routing tables are not constant-foldable")
        t2s = {k.member: v for k, v in type_to_sheet.items()}
        # ---- a
        for t in sorted(types):
            where = loc(prog.module_assigns[modname]["_SHEET_TO_TYPES"])
            if t not in t2s:
                rep.violation(ra, modname, "_TYPE_TO_SHEET", f"{cc}: {t} has a sheet", f"{cc.upper()} tax report: transaction type {t} can be carried by a taxable event but has no entry in _TYPE_TO_SHEET: any input with such a row makes the generator raise KeyError (no tax report)", where)
                continue
            rep.check(t2s[t] == SHEET_SPEC.get(t), ra, modname, "_TYPE_TO_SHEET", f"{cc}: {t} -> {SHEET_SPEC.get(t)}", f"{cc.upper()} tax report files {t} fractions under '{t2s[t]}'; the statement says '{SHEET_SPEC.get(t)}'", where)
        for t in sorted(set(t2s) - types):
            rep.note(f"{cc}: _TYPE_TO_SHEET has an entry for {t}, which no taxable event can carry (dead entry)")
        # ---- b
        tpl, how = template_path(f"tax_report_{cc}", cc, LANG[cc])
        if tpl is None:
            raise AnalysisError(f"{cc}: template for language {LANG[cc]} not found: {how}")
        sheets = ods_sheets(str(tpl))
        names = set(sheets)
        row_idx = _row_index_keys(prog, gen, rep, rc, cc, t2s)
        for sheet in sorted(set(type_to_sheet.values()) | set(sheet_to_types)):
            ok = f"__{sheet}" in names and f"__{sheet}" in keep and (row_idx is None or sheet in row_idx) and sheet in sheet_to_types
            rep.check(ok, rb, modname, "_SHEET_TO_TYPES", f"{cc}: sheet '{sheet}' exists in the template, is kept, counted and typed", f"{cc.upper()}: sheet '{sheet}' — in template: {f'__{sheet}' in names}, kept: {f'__{sheet}' in keep}, has row counter: {row_idx is None or sheet in row_idx}, has type list: {sheet in sheet_to_types}", loc(gen.node))
        legend = f"__Legend_tax_report_{cc}"
        for tn in sorted(names):
            if tn in keep and tn != legend:
                rep.check(tn[2:] in sheet_to_types, rb, modname, "_SHEET_TO_TYPES", f"{cc}: kept template sheet '{tn[2:]}' has a type list", f"{cc.upper()}: template sheet {tn} is kept but has no entry in _SHEET_TO_TYPES: the sizing loop subscripts the table with every kept sheet's name (KeyError)", loc(gen.node))
        rep.check(legend in names, rb, modname, "Generator", f"{cc}: legend sheet present in the template", f"template {tpl.name} has no {legend} sheet", loc(gen.node))
        dead = sorted(k for k in keep if k not in names)
        if dead:
            rep.note(f"{cc}: _TEMPLATE_SHEETS_TO_KEEP names sheets the template does not have: {dead} (dead entries)")
        # ---- c (header rows)
        hr = fold_class_attr(prog, gen, "HEADER_ROWS")
        for sheet in sorted(sheet_to_types):
            rows = sheets.get(f"__{sheet}")
            if rows is None:
                continue
            last = max((i for i, r in enumerate(rows[:40]) if any(c for c in r)), default=-1)
            rep.check(isinstance(hr, int) and hr == last + 1, rc, modname, "Generator.HEADER_ROWS", f"{cc}: HEADER_ROWS == first empty row of '{sheet}'", f"{cc.upper()}: HEADER_ROWS is {hr} but the header block of template sheet '{sheet}' ends at row {last}: the first fraction would overwrite a header row or leave a gap", loc(gen.node))
        _check_generate(rep, rc, re_, m, cc, modname, gen)
        _check_rows(rep, rc, rd, m, cc, modname, gen, sheets)
    _check_siblings(rep, rep.rule("C14.f", "sibling cross-check (informational): textual difference between the US and IE generators beyond the tabled constants is reported as a note", floor=1), m)
    # which fractions the generators get to see: the filtered gain/loss set, whose iterator applies the window on the entry's own calendar date
    from . import c10

    rg = rep.rule("C14.g", "fractions listed are exactly the window's: the entry-set iterator applies both bounds on the entry's own calendar date", floor=2)
    c10.check_iterator_window(rep, rg, m, "the tax report would list fractions outside the window or drop ones inside it (e.g. a sale on the evening of Dec 31 in a negative-offset time zone)")


def _row_index_keys(prog, gen, rep=None, rc=None, cc="", t2s=None):
    g = gen.methods["generate"]
    for n in ast.walk(g.node):
        if isinstance(n, (ast.Assign, ast.AnnAssign)) and unparse(n.targets[0] if isinstance(n, ast.Assign) else n.target) == "row_indexes":
            v = n.value
            if isinstance(v, ast.DictComp) and unparse(v.generators[0].iter) == "SheetNames" and unparse(v.value) == "self.HEADER_ROWS":
                from ..consts import enum_members

                sn = prog.cls(gen.module, "SheetNames")
                return {mm.value for mm in enum_members(prog, sn)}
            if rep is not None and isinstance(v, ast.DictComp) and unparse(v.generators[0].iter) in ("_TYPE_TO_SHEET", "_TYPE_TO_SHEET.keys()", "TransactionType") and unparse(v.key) == unparse(v.generators[0].target):
                # one counter per transaction type: wrong as soon as two types share a sheet (each restarts at the header row of the same sheet)
                shared = {sheet: sorted(t for t, s2 in t2s.items() if s2 == sheet) for sheet in set(t2s.values())}
                shared = {k: ts for k, ts in shared.items() if len(ts) > 1}
                if shared:
                    rep.violation(rc, gen.module, g.qualname, f"{cc}: the row counters are keyed by the sheet that is written", f"{cc.upper()}: row_indexes holds one counter per transaction type ({short(v, 90)}), but {'; '.join(f'{ts} share sheet {k!r}' for k, ts in sorted(shared.items()))}: each type starts at the header row of the same sheet, so rows of one type overwrite rows of another (across assets too) and fractions vanish from the report without an error", loc(n), definite=True)
                    return None
    raise AnalysisError(f"{gen.module}: row_indexes = {{sheet: HEADER_ROWS for sheet in SheetNames}} not found in generate()")


def _check_generate(rep, rc, re_, m, cc, modname, gen) -> None:
    g = gen.methods["generate"]
    rep.analysed(g)
    body = g.node.body
    ri = [i for i, n in enumerate(body) if isinstance(n, (ast.Assign, ast.AnnAssign)) and unparse(n.targets[0] if isinstance(n, ast.Assign) else n.target) == "row_indexes"]
    loops = [i for i, n in enumerate(body) if isinstance(n, ast.For) and "asset_to_computed_data.items()" in unparse(n.iter)]
    rm_mark = [i for i, n in enumerate(body) if isinstance(n, ast.For) and "output_file.sheets.names()" in unparse(n.iter)]
    # the same marking written as a comprehension: sheet_indexes_to_remove = [index for index, sheet_name in enumerate(output_file.sheets.names()) if <condition>]
    rm_comp = [i for i, n in enumerate(body) if isinstance(n, (ast.Assign, ast.AnnAssign)) and isinstance(getattr(n, "value", None), ast.ListComp) and unparse(n.targets[0] if isinstance(n, ast.Assign) else n.target) == "sheet_indexes_to_remove"]
    if not rm_mark and len(rm_comp) == 1:
        rm_mark = rm_comp
    rm_del = [i for i, n in enumerate(body) if isinstance(n, ast.For) and "reversed(sheet_indexes_to_remove)" in unparse(n.iter)]
    save = [i for i, n in enumerate(body) if isinstance(n, ast.Expr) and unparse(n.value) == "output_file.save()"]
    ok = len(ri) == 1 and len(loops) == 1 and ri[0] < loops[0]
    rep.check(ok, rc, modname, g.qualname, f"{cc}: one row-counter table per generate(), created before the asset loop", f"{cc.upper()}: row_indexes is not created exactly once before the per-asset loop: a later asset would restart at the header and overwrite the previous asset's rows", loc(g.node))
    if loops:
        lp = body[loops[0]]
        calls = [n for n in ast.walk(lp) if isinstance(n, ast.Call) and isinstance(n.func, ast.Attribute) and n.func.attr == "__generate"]
        ok = len(calls) == 1 and [unparse(a) for a in calls[0].args] == ["output_file", "asset", "computed_data.gain_loss_set", "row_indexes"]
        rep.check(ok, rc, modname, g.qualname, f"{cc}: every asset is written from its gain_loss_set with the shared counter table", f"{cc.upper()}: per-asset call is {short(calls[0], 120) if calls else 'missing'}; expected self.__generate(output_file, asset, computed_data.gain_loss_set, row_indexes)", loc(lp))
    order_ok = bool(loops and rm_mark and rm_del and save) and loops[0] < rm_mark[0] < rm_del[0] < save[0]
    rep.check(order_ok, re_, modname, g.qualname, f"{cc}: empty sheets are determined and removed after all assets were written, before saving", f"{cc.upper()}: the order asset loop -> mark empty sheets -> delete -> save is broken (positions {loops}, {rm_mark}, {rm_del}, {save}): sheets would be judged empty before their rows are written", loc(g.node))
    want = "sheet_name != 'Legend' and row_indexes[sheet_name] == Generator.HEADER_ROWS"
    alt = "sheet_name != 'Legend' and row_indexes[sheet_name] == self.HEADER_ROWS"
    if rm_mark and not isinstance(body[rm_mark[0]], ast.For):
        comp = body[rm_mark[0]].value
        g0 = comp.generators[0] if len(comp.generators) == 1 else None
        ok = g0 is not None and unparse(g0.iter) == "enumerate(output_file.sheets.names())" and unparse(g0.target) == "(index, sheet_name)" and unparse(comp.elt) == "index" and len(g0.ifs) == 1 and unparse(g0.ifs[0]) in (want, alt)
        rep.check(ok, re_, modname, g.qualname, f"{cc}: a sheet is removed iff it is not the legend and its counter still equals HEADER_ROWS", f"{cc.upper()}: the sheets to remove are {short(comp, 160)}; expected the positions of the sheets that are not the legend and whose row counter == HEADER_ROWS", loc(comp))
    elif rm_mark:
        mk = body[rm_mark[0]]
        ifs = [n for n in ast.walk(mk) if isinstance(n, ast.If)]
        ok = len(ifs) == 1 and unparse(ifs[0].test) in (want, alt) and unparse(ifs[0].body[0]) == "sheet_indexes_to_remove.append(index)" and unparse(mk.body[-1]) == "index += 1"
        rep.check(ok, re_, modname, g.qualname, f"{cc}: a sheet is removed iff it is not the legend and its counter still equals HEADER_ROWS", f"{cc.upper()}: removal condition is '{unparse(ifs[0].test) if ifs else None}'; expected exactly: not the legend and row counter == HEADER_ROWS (the counter is the ground truth of 'has rows')", loc(mk))
    if rm_del:
        d = body[rm_del[0]]
        rep.check(unparse(d.body[0]) == "del output_file.sheets[index]", re_, modname, g.qualname, f"{cc}: marked sheets are deleted in reverse index order", f"{cc.upper()}: deletion loop body is {unparse(d.body[0])}", loc(d))
    # nothing else deletes sheets
    dels = [n for n in ast.walk(g.node) if isinstance(n, ast.Delete) and "sheets" in unparse(n)]
    rep.check(len(dels) == 1, re_, modname, g.qualname, f"{cc}: sheets are deleted in one place only", f"{cc.upper()}: {len(dels)} sheet deletions in generate()", loc(g.node))


def _check_rows(rep, rc, rd, m, cc, modname, gen, sheets) -> None:
    prog, norm = m.prog, m.norm
    f = gen.methods["__generate"]
    rep.analysed(f)
    loops = [n for n in f.node.body if isinstance(n, ast.For)]
    if len(loops) != 2:
        raise AnalysisError(f"{modname}: expected sizing loop and row loop in __generate")
    sizing, rows = loops
    # sizing
    appends = [n for n in ast.walk(sizing) if isinstance(n, ast.Call) and isinstance(n.func, ast.Attribute) and n.func.attr == "append_rows"]
    ok = len(appends) == 1
    if ok:
        inner = next((a for a in ast.walk(sizing) if isinstance(a, ast.For) and a is not sizing), None)
        ok = inner is not None and unparse(sizing.iter) == "output_file.sheets" and "_SHEET_TO_TYPES[sheet.name]" in unparse(sizing) and isinstance(inner.target, ast.Name)
        if ok:
            arg = appends[0].args[0]
            txt = unparse(arg)
            tv = inner.target.id
            count_call = f"gain_loss_set.get_transaction_type_count({tv})"
            folded = txt.replace(count_call, "0").replace("self.MIN_ROWS", str(fold_class_attr(prog, gen, "MIN_ROWS")))
            try:
                slack = eval(folded, {"__builtins__": {}})  # arithmetic on integer literals only (the count call was replaced by 0)
            except Exception:
                slack = None
            ok = count_call in txt and txt.count(count_call) >= 1 and isinstance(slack, int) and slack >= 0 and "-" not in txt and "//" not in txt and "/" not in txt
            cont = [n for n in ast.walk(sizing) if isinstance(n, (ast.Continue, ast.Break))]
            legend_skip = [n for n in ast.walk(sizing) if isinstance(n, ast.If) and unparse(n.test) == "sheet.name == 'Legend'"]
            skip_form = len(cont) == len(legend_skip) == 1  # `if sheet.name == 'Legend': continue`
            # or the positive form: the append sits under `if sheet.name != 'Legend':` and nothing else leaves or filters the loop
            conds_up = [unparse(a.test) for a in ancestors(appends[0]) if isinstance(a, ast.If) and a in list(ast.walk(sizing))]
            block_form = not cont and conds_up == ["sheet.name != 'Legend'"]
            ok = ok and (skip_form or block_form)
    rep.check(ok, rc, modname, f.qualname, f"{cc}: per asset every sheet gets >= count(type) rows for each of its types", f"{cc.upper()}: the sizing loop appends {short(appends[0], 100) if appends else 'nothing'}; expected, for every non-legend sheet and every type of the sheet, at least get_transaction_type_count(type) rows (too few rows lose the last fractions)", loc(sizing))
    # row loop
    ctx = norm.ctx_for(f, subst_locals=False)
    se = SymExec(norm, ctx)
    init = SPath()
    init.vars[rows.target.id] = (("sym", "gl"), ("cls", "rp2.gain_loss:GainLoss"))
    init.vars["gain_loss_set"] = (("sym", "gls"), ("cls", "rp2.gain_loss_set:GainLossSet"))
    rep.check(unparse(rows.iter) == "gain_loss_set", rc, modname, f.qualname, f"{cc}: one iteration per fraction of the asset's (window-filtered) gain/loss set", f"{cc.upper()}: the row loop iterates {unparse(rows.iter)}", loc(rows))
    from ..stale import check_rows_fresh

    check_rows_fresh(rep, rc, norm, f, rows, f"{cc}: tax report rows")
    paths = se.run(rows.body, init)
    spec_ctx = Ctx(modname, gen, None, {"self": (("sym", "self"), ("cls", gen.fq)), "gl": (("sym", "gl"), ("cls", "rp2.gain_loss:GainLoss")), "gls": (("sym", "gls"), ("cls", "rp2.gain_loss_set:GainLossSet")), "asset": (("sym", "asset"), ("prim", "str"))})

    def exp(src: str):
        t = norm.term(ast.parse(src, mode="eval").body, spec_ctx)
        return SymExec(norm, spec_ctx)._rewrite(t, SPath())

    ev_type = exp("gl.taxable_event.transaction_type")
    checked = set()
    # template header labels per column
    rows_t = sheets.get("__Capital Gains") or []
    labels = []
    for c in range(16):
        parts = [rows_t[r][c] if r < len(rows_t) and c < len(rows_t[r]) else "" for r in (5, 6)]
        if c == 9 and len(rows_t) > 3:
            parts = [rows_t[5][c], rows_t[6][c]]
        labels.append(" ".join(p for p in parts if p).strip())
    for p in paths:
        if p.exit == "raise":
            continue
        rep.check(p.exit == "fall", rc, modname, f.qualname, f"{cc}: every fraction completes its iteration", f"{cc.upper()}: a path of the row loop leaves by '{p.exit}': that fraction (or all later ones) gets no row", loc(rows))
        stores = [e for e in p.stores() if e[1] == ("sym", "row_indexes")]
        cells = [e for e in p.calls() if e[1][0] == "call" and e[1][1].endswith("._fill_cell")]
        if not cells:
            continue
        sheet_t = dict(cells[0][1][2]).get("sheet")
        want_sheet_key = ("old", ("sym", f"{modname}:_TYPE_TO_SHEET"), ev_type, 0)
        ok_sheet = sheet_t is not None and any(s[0] == "old" and s[1] == ("sym", f"{modname}:_TYPE_TO_SHEET") and tkey(s[2]) == tkey(ev_type) for s in _tuples(sheet_t))
        rep.check(ok_sheet, rc, modname, f.qualname, f"{cc}: the row goes to the sheet mapped to the taxable event's own transaction type", f"{cc.upper()}: cells are written to {show(sheet_t)[:160] if sheet_t else None}; expected output_file.sheets[_TYPE_TO_SHEET[gl.taxable_event.transaction_type]]", loc(rows))
        ok = len(stores) == 1 and stores[0][2] == ("attr", sheet_t, "name") and delta_of(stores[0][3], stores[0][1], stores[0][2]) == ("const", 1)
        rep.check(ok, rc, modname, f.qualname, f"{cc}: the sheet's counter is advanced by exactly one per fraction", f"{cc.upper()}: the row counter table is updated as {[(show(e[2])[:60], show(e[3])[:60]) for e in stores]}; expected row_indexes[sheet.name] = <its previous value> + 1 exactly once per fraction", loc(rows))
        row_t = ("old", ("sym", "row_indexes"), ("attr", sheet_t, "name"), 0)
        rows_ok = all(tkey(dict(c[1][2]).get("row_index", ("unk", ""))) == tkey(row_t) and dict(c[1][2]).get("sheet") == sheet_t for c in cells)
        rep.check(rows_ok, rc, modname, f.qualname, f"{cc}: all cells of a fraction are written at the sheet's current counter", f"{cc.upper()}: some cell is written at a row other than row_indexes[sheet.name] (read before the advance) or to another sheet", loc(rows))
        for c in cells:
            kw = dict(c[1][2])
            col, v = kw.get("column_index"), kw.get("value")
            if col is None or col[0] != "const" or v is None:
                continue
            ci = col[1]
            if not (0 <= ci < len(COLS)):
                rep.violation(rd, modname, f.qualname, f"{cc}: column {ci} has a template header", f"{cc.upper()}: a cell is written to column {ci}, beyond the template's header block", loc(c[2]))
                continue
            prefix, want_src = COLS[ci]
            lab = labels[ci] if ci < len(labels) else ""
            ident = (ci, tkey(v))
            if ident in checked:
                continue
            checked.add(ident)
            if prefix and not lab.startswith(prefix):
                rep.violation(rd, modname, "template", f"{cc}: template column {ci} is labelled '{prefix}...'", f"{cc.upper()}: template header of column {ci} is '{lab}', expected it to start with '{prefix}': the column/field table no longer matches the shipped template", loc(c[2]))
                continue
            if v == ("const", "") and ci in (2, 5, 10, 11):
                # blank lot cells are right exactly for fractions without a lot (income): the path must say so, and nothing else
                lot_t = exp("gl.acquired_lot")
                conds = p.conds()
                no_lot = any(c == ("not", ("truthy", lot_t)) or c == ("cmp", "is", lot_t, ("const", None)) for c in conds)
                extra = [c for c in conds if any(tkey(s2) == tkey(lot_t) for s2 in _tuples(c)) and c not in (("not", ("truthy", lot_t)), ("cmp", "is", lot_t, ("const", None)))]
                key_b = ("blank", ci, tkey(conds))
                if key_b not in checked:
                    checked.add(key_b)
                    rep.check(no_lot and not extra, rd, modname, f.qualname, f"{cc}: lot column {ci} is blank only for fractions without an acquired lot", f"{cc.upper()}: column {ci} ('{lab[:40]}') is left blank under {[show(c)[:100] for c in conds if 'acquired_lot' in show(c) or 'sheet' in show(c)][:3]}; it may be blank only when the fraction has no acquired lot (income): a disposal filed on an income-named sheet (e.g. a STAKING out-transaction) still has a lot, a date acquired and a cost basis", loc(c[2]))
                continue
            if isinstance(want_src, tuple) and want_src[0] == "DATE":
                recv = exp(want_src[1])
                ok = v[0] == "xcall" and v[1] == "strftime" and tkey(v[2]) == tkey(recv) and len(v[3]) == 1 and v[3][0][0] == "const" and sorted(re.findall(r"%(.)", str(v[3][0][1]))) in (["Y", "d", "m"], ["d", "m", "y"])
                rep.check(ok, rd, modname, f.qualname, f"{cc}: '{lab[:30]}' <- {want_src[1]} as a calendar date", f"{cc.upper()}: column {ci} ('{lab[:40]}') receives {show(v)[:200]}; expected {want_src[1]}.strftime(<year/month/day pattern>)", loc(c[2]))
                continue
            want = exp(want_src)
            rep.check(tkey(v) == tkey(want), rd, modname, f.qualname, f"{cc}: '{lab[:30] or 'asset'}' <- {want_src[:60]}", f"{cc.upper()}: column {ci} ('{lab[:40]}') receives {show(v)[:260]}; the template header says it must show {want_src[:140]}", loc(c[2]))
    for ci, (prefix, want_src) in enumerate(COLS):
        if not any(k[0] == ci for k in checked):
            rep.violation(rd, modname, f.qualname, f"{cc}: column {ci} is written", f"{cc.upper()}: no cell write found for column {ci} ('{prefix}')", loc(rows))


def _check_siblings(rep: Report, rule: str, m) -> None:
    prog = m.prog
    us, ie = prog.package.get(GENS["us"]), prog.package.get(GENS["ie"])

    def norm_src(mod, cc):
        txt = ast.unparse(mod.tree)
        txt = txt.replace(f"tax_report_{cc}", "tax_report_XX")
        txt = re.sub(r"'%[mdYy]/%[mdYy]/%[mdYy]'", "'<DATEFMT>'", txt)
        txt = re.sub(r"\n\s*LOST = 'Lost'", "", txt)
        return [l for l in txt.splitlines() if l.strip()]

    a, b = norm_src(us, "us"), norm_src(ie, "ie")
    import difflib

    diff = [l for l in difflib.unified_diff(a, b, lineterm="", n=0) if l.startswith(("+", "-")) and not l.startswith(("+++", "---"))]
    # Cross-check only (a pointer for the reader, never a verdict): each generator is decided on its own by C14.a-e, and a one-sided edit that keeps behaviour
    # (a local introduced in one sibling, say) makes the texts differ without breaking anything.
    if diff:
        rep.note(f"sibling cross-check: the US and IE generators differ beyond the tabled constants ({len(diff)} lines, e.g. {diff[:2]}); each is judged on its own by C14.a-e")
    rep.ok(rule, "US / IE sibling cross-check computed (informational)", f"{len(diff)} differing lines beyond the tabled constants")


def _tuples(t: Any):
    if isinstance(t, tuple):
        yield t
        for x in t:
            if isinstance(x, tuple):
                yield from _tuples(x)

"""C01 — disposals consume lots in the order the accounting method prescribes."""

from __future__ import annotations

import ast
from typing import Any, Dict, List, Optional

from ..consts import UNKNOWN, EnumVal
from ..loader import AnalysisError, loc, short, unparse
from ..norm import Ctx, mk_neg, show, subterms, tkey
from ..report import Report
from ..rp2model import model
from ..symexec import SPath, SymExec
from .. import engine

META = {
    "title": "Disposals consume lots in the order the accounting method prescribes",
    "technique": "ranking-table rule per method plugin (sign and base field of every sort-key component, heap polarity), typestate rule on the candidate heap "
    "(a selected lot is re-inserted on every path, or every seek is dominated by 'event consumes the lot'), must-precede / must-call path rules on the re-seek "
    "points, def-use of the year used for the method in force and of the shared partial-amount table, order-preservation of the lot index key",
    "explanation": "for each plugin found in plugin/accounting_method the induced order is the one its name prescribes (fifo: chronological oldest first; lifo: newest "
    "first; hifo: highest spot price first; lofo: lowest first; strict total tie-break on timestamp and row), through a min-heap fed with (sort_key(lot), lot); "
    "a lot selected from the heap is put back on every returning path (so a lot handed out for an income event, which consumes nothing, is not lost); when the event "
    "timestamp advances the current lot's remainder is stored back before a lot is sought for the new event, an exactly exhausted lot is never carried to the next event "
    "without a seek; method and candidates in force are looked up with the taxable event's own year; all candidate structures of a schedule share one partial-amount table; "
    "lots are indexed by an order-preserving (UTC timestamp, padded id) key and the candidate window ends at the last lot acquired at or before the disposal; lots and events reach the engine through entry sets whose only ordering is the stable sort by timestamp (so the lot list agrees with the index keys for same-instant lots).",
    "not_decided": "that the greedy matcher yields the prescribed order on every history (ties at equal timestamps, partially consumed lots, heap duplicates): a statement "
    "about all executions of a state machine with an unbounded heap; the clauses above are necessary conditions, each of which changes the pairing for some input when broken.",
    "assumptions": ["heapq is a min-heap on tuple order", "prezzemolo AVLTree.find_max_value_less_than returns the value of the greatest key <= the argument"],
}

PLUGINS = "rp2.plugin.accounting_method"
SPOT = "AbstractTransaction.__spot_price"
TS = "AbstractTransaction.__timestamp"
ROW = "AbstractTransaction.__row"


def _component(t, lot) -> Optional[tuple]:
    """(sign, base) of a sort-key component: base in spot / ts / row / const."""
    sign = 1
    if t[0] == "neg":
        sign, t = -1, t[1]
    if t[0] == "const":
        return (0, "const")
    if t == ("fld", lot, SPOT):
        return (sign, "spot")
    if t == ("fld", lot, ROW):
        return (sign, "row")
    if t[0] == "xcall" and t[1] == "timestamp" and t[2] == ("fld", lot, TS) and not t[3]:
        return (sign, "ts")
    return None


SPEC = {
    # method name -> required leading components (sign, base); remaining components must make the order total on (ts, row)
    "hifo": [(-1, "spot")],
    "lofo": [(1, "spot")],
    "lifo": [(0, "const"), (-1, "ts")],
    "fifo": [(0, "const"), (1, "ts")],
}
WHAT = {"hifo": "highest spot price first", "lofo": "lowest spot price first", "lifo": "newest first", "fifo": "oldest first"}


def run(rep: Report, tier: str) -> None:
    m = model()
    prog, norm = m.prog, m.norm
    AAM = engine.AAM

    # ---------------------------------------------------------------- C01.a
    ra = rep.rule("C01.a", "ranking tables: each method plugin induces the order its name prescribes (through a min-heap / the chronological iterator)", floor=6)
    chrono = prog.cls(AAM, "AbstractChronologicalAccountingMethod")
    feature = prog.cls(AAM, "AbstractFeatureBasedAccountingMethod")
    n_plugins = 0
    for mod in prog.modules_under(PLUGINS):
        name = mod.name.rsplit(".", 1)[1]
        ci = prog.classes.get(f"{mod.name}:AccountingMethod")
        if ci is None:
            continue
        n_plugins += 1
        if name not in SPEC:
            rep.note(f"accounting method plugin '{name}' is not one of fifo/lifo/hifo/lofo: its ranking is not prescribed by the property and is not checked")
            continue
        if prog.is_subclass(ci, chrono):
            f = prog.lookup_method(ci, "lot_candidates_order")
            rep.analysed(f)
            v = norm.inline(f, ("sym", "m"), {}, Ctx(f.module, f.cls))
            want = {"fifo": "OLDER_TO_NEWER", "lifo": "NEWER_TO_OLDER"}.get(name)
            ok = want is not None and v[0] == "const" and isinstance(v[1], EnumVal) and v[1].member == want
            rep.check(ok, ra, mod.name, f.qualname, f"{name}: chronological order {want}", f"plugin '{name}' ranks candidates {show(v)}; its name prescribes {WHAT[name]} ({want})", loc(f.node), detail=show(v))
        elif prog.is_subclass(ci, feature):
            f = prog.lookup_method(ci, "sort_key")
            rep.analysed(f)
            lot = ("sym", "lot")
            v = norm.inline(f, ("sym", "m"), {f.param_names[1]: (lot, ("cls", "rp2.in_transaction:InTransaction"))}, Ctx(f.module, f.cls))
            if v[0] != "new" or not v[1].endswith(":AcquiredLotSortKey"):
                rep.violation(ra, mod.name, f.qualname, f"{name}: sort key", f"sort_key of '{name}' normalises to {show(v)[:200]}; expected an AcquiredLotSortKey", loc(f.node))
                continue
            key_cls = prog.classes[v[1]]
            order = [n for n, _ in key_cls.dataclass_fields()]
            kw = dict(v[2])
            comps = [_component(kw[n], lot) if n in kw else None for n in order]
            desc = ", ".join(f"{'+' if c and c[0] > 0 else '-' if c and c[0] < 0 else ''}{c[1] if c else '?'}" for c in comps)
            lead = SPEC[name]
            ok_lead = comps[: len(lead)] == lead
            rep.check(ok_lead, ra, mod.name, f.qualname, f"{name}: leading sort-key components rank {WHAT[name]}", f"plugin '{name}' sorts by ({desc}) on a min-heap; its name prescribes {WHAT[name]}: leading component(s) must be {lead}", loc(f.node), detail=desc)
            rest = [c for c in comps if c is not None and c[1] in ("ts", "row") and c[0] != 0]
            total = {c[1] for c in rest} == {"ts", "row"} and all(c is not None for c in comps)
            rep.check(total, ra, mod.name, f.qualname, f"{name}: tie-break is a strict total order on (timestamp, row)", f"plugin '{name}' sorts by ({desc}); equal-ranked lots need a deterministic total tie-break on timestamp and row", loc(f.node))
        else:
            rep.violation(ra, mod.name, "AccountingMethod", f"{name}: base class", f"plugin '{name}' derives from neither the chronological nor the feature-based base class", loc(ci.node))
    if n_plugins < 4:
        raise AnalysisError(f"found {n_plugins} accounting method plugins; expected >= 4")
    # heap polarity: min-heap of (sort_key(lot), lot)
    push = prog.func(AAM, "AbstractFeatureBasedAccountingMethod.add_selected_lot_to_heap")
    nxt = prog.func(AAM, "FeatureBasedAccountingMethodIterator.__next__")
    rep.analysed(push, nxt)
    ptxt = unparse(push.node)
    ok = "heappush(heap, heap_item)" in ptxt and "heap_item = (self.sort_key(lot), lot)" in ptxt or "heappush(heap, (self.sort_key(lot), lot))" in ptxt
    rep.check(ok, ra, AAM, push.qualname, "lots are pushed as (sort_key(lot), lot) with heappush", "add_selected_lot_to_heap no longer pushes (self.sort_key(lot), lot) with heapq.heappush: the ranking signs above assume a min-heap on the sort key", loc(push.node))
    ntxt = unparse(nxt.node)
    ok = "heappop(self.__acquired_lot_heap)" in ntxt and "nlargest" not in ntxt and "[-1]" not in ntxt
    rep.check(ok, ra, AAM, nxt.qualname, "candidates are popped smallest-key-first (heappop)", "the feature-based iterator no longer pops with heapq.heappop from the candidates' heap", loc(nxt.node))
    it = prog.func(AAM, "AbstractFeatureBasedAccountingMethod._create_accounting_method_iterator")
    ok = "FeatureBasedAccountingMethodIterator(lot_candidates.acquired_lot_heap)" in unparse(it.node)
    rep.check(ok, ra, AAM, it.qualname, "the iterator pops from the candidates' own heap", "the feature-based iterator is not built over lot_candidates.acquired_lot_heap", loc(it.node))
    cit = prog.cls(AAM, "ChronologicalAccountingMethodIterator")
    defs = m.field_defs(cit)
    step = defs.get("ChronologicalAccountingMethodIterator.__step", [])
    st = show(step[0][1]) if step else ""
    ok = False
    if len(step) == 1:
        # read with the constructor's locals substituted (`older = order_type == OLDER_TO_NEWER; step = 1 if older else -1` is the same definition)
        init_f = m.init_of(cit)
        t = norm.term(step[0][2].value, norm.ctx_for(init_f, subst_locals=True))
        st = show(t)
        if t[0] == "ite" and t[2] == ("const", 1) and t[3] == ("const", -1) and t[1][0] == "cmp" and t[1][1] == "==":
            sides = [show(x) for x in (t[1][2], t[1][3])]
            ok = "order_type" in sides and any(s.endswith("OLDER_TO_NEWER") for s in sides)
    rep.check(ok, ra, AAM, "ChronologicalAccountingMethodIterator.__init__", "chronological iterator steps +1 for OLDER_TO_NEWER, -1 otherwise", f"chronological iterator step is {st}", loc(cit.node))

    # ---------------------------------------------------------------- C01.b / c
    rb = rep.rule("C01.b", "heap typestate: a lot selected from the heap is re-inserted on every returning path (or every seek is for an event that consumes it)", floor=2)
    engine.check_heap_typestate(rep, rb)

    # ---------------------------------------------------------------- C01.d
    rd = rep.rule("C01.d", "re-seek obligations: timestamp advance puts the lot back and seeks; an exhausted lot is never carried over without a seek", floor=5)
    engine.check_reseek(rep, rd)

    # ---------------------------------------------------------------- C01.e
    re_ = rep.rule("C01.e", "method and candidate structure in force are looked up with the taxable event's own year", floor=3)
    look = prog.func(engine.AE, "AccountingEngine.get_acquired_lot_for_taxable_event")
    # by term, with single-assignment locals substituted (a year kept in a local is the same year)
    lctx = norm.ctx_for(look, subst_locals=True)
    own_year = norm.term(ast.parse("taxable_event.timestamp.year", mode="eval").body, lctx)
    ok1 = ok2 = False
    for c_ in ast.walk(look.node):
        if isinstance(c_, ast.Call) and isinstance(c_.func, ast.Attribute) and len(c_.args) == 1 and not c_.keywords:
            arg_t = norm.term(c_.args[0], lctx)
            if c_.func.attr == "_get_accounting_method" and unparse(c_.func.value) == "self" and tkey(arg_t) == tkey(own_year):
                ok1 = True
            if c_.func.attr == "find_max_value_less_than" and unparse(c_.func.value) == "self.__years_2_lot_candidates" and tkey(arg_t) == tkey(own_year):
                ok2 = True
    rep.check(ok1, re_, look.module, look.qualname, "method = method in force for taxable_event.timestamp.year", "the accounting method is not looked up with the taxable event's own year (the lot's year or a fixed year would apply the wrong method after a schedule change)", loc(look.node))
    rep.check(ok2, re_, look.module, look.qualname, "candidates = candidate structure in force for taxable_event.timestamp.year", "the candidate structure is not looked up with the taxable event's own year", loc(look.node))
    gm = prog.func(engine.AE, "AccountingEngine._get_accounting_method")
    t = norm.inline(gm, ("sym", "eng"), {}, Ctx(gm.module, gm.cls))
    ok = t[0] == "xcall" and t[1] == "find_max_value_less_than" and t[2] == ("fld", ("sym", "eng"), "AccountingEngine.__years_2_methods") and t[3] == (("sym", "year"),)
    rep.check(ok, re_, gm.module, gm.qualname, "method in force = greatest scheduled year <= the year", f"_get_accounting_method normalises to {show(t)[:160]}; expected years_2_methods.find_max_value_less_than(year)", loc(gm.node))
    sk = [n for n in ast.walk(look.node) if isinstance(n, ast.Call) and isinstance(n.func, ast.Attribute) and n.func.attr == "seek_non_exhausted_acquired_lot"]
    ok = len(sk) == 1 and unparse(sk[0].func.value) == "method" and unparse(sk[0].args[0]) == "lot_candidates"
    rep.check(ok, re_, look.module, look.qualname, "the seek uses that method on that candidate structure", "seek_non_exhausted_acquired_lot is not called as method.seek...(lot_candidates, ...) with the two objects looked up for the event's year", loc(look.node))

    # ---------------------------------------------------------------- C01.f
    rf = rep.rule("C01.f", "one partial-amount table (and one lot list) is shared by all candidate structures of a schedule", floor=4)
    init_f = prog.func(engine.AE, "AccountingEngine.initialize")
    creates = [n for n in ast.walk(init_f.node) if isinstance(n, ast.Call) and isinstance(n.func, ast.Attribute) and n.func.attr == "create_lot_candidates"]
    ok = len(creates) == 1 and [unparse(a) for a in creates[0].args] == ["self.__acquired_lot_list", "self.__acquired_lot_2_partial_amount"]
    rep.check(ok, rf, init_f.module, init_f.qualname, "every method's candidates are created over the engine's own list and partial-amount table", "initialize() does not pass self.__acquired_lot_list and self.__acquired_lot_2_partial_amount themselves (no copies) to every create_lot_candidates call: remaining lot balances would not carry over a method change", loc(init_f.node))
    resets = [unparse(n.targets[0]) for n in ast.walk(init_f.node) if isinstance(n, ast.Assign) and isinstance(n.value, (ast.Dict, ast.List)) and len(n.targets) == 1]
    rep.check("self.__acquired_lot_2_partial_amount" in resets and "self.__acquired_lot_list" in resets, rf, init_f.module, init_f.qualname, "initialize() starts from a fresh list and a fresh partial-amount table", f"initialize() resets {resets}; the lot list and the partial-amount table must be fresh per asset", loc(init_f.node))
    for cls, cand in (("AbstractChronologicalAccountingMethod", "ChronologicalAcquiredLotCandidates"), ("AbstractFeatureBasedAccountingMethod", "FeatureBasedAcquiredLotCandidates")):
        f = prog.func(AAM, f"{cls}.create_lot_candidates")
        t = norm.inline(f, ("sym", "m"), {}, Ctx(f.module, f.cls))
        kw = dict(t[2]) if t[0] == "new" else {}
        ok = t[0] == "new" and t[1].endswith(":" + cand) and kw.get("acquired_lot_list") == ("sym", "acquired_lot_list") and kw.get("acquired_lot_2_partial_amount") == ("sym", "acquired_lot_2_partial_amount") and kw.get("accounting_method") == ("sym", "m")
        rep.check(ok, rf, AAM, f.qualname, f"{cls}.create_lot_candidates forwards list and table unchanged", f"create_lot_candidates normalises to {show(t)[:200]}", loc(f.node))
    base = prog.cls(AAM, "AbstractAcquiredLotCandidates")
    defs = m.field_defs(base)
    ok = all(len(defs.get(f"AbstractAcquiredLotCandidates.__{n}", [])) == 1 and defs[f"AbstractAcquiredLotCandidates.__{n}"][0][1] == ("sym", n) for n in ("acquired_lot_list", "acquired_lot_2_partial_amount"))
    rep.check(ok, rf, AAM, "AbstractAcquiredLotCandidates.__init__", "candidates store the shared objects themselves", "AbstractAcquiredLotCandidates.__init__ copies or replaces the shared list / partial-amount table", loc(base.node))
    sp = prog.func(engine.AE, "AccountingEngine._set_partial_amount")
    ok = [unparse(s) for s in sp.body] == ["self.__acquired_lot_2_partial_amount[acquired_lot] = amount"]
    rep.check(ok, rf, sp.module, sp.qualname, "the engine stores remaining amounts into the same table", "_set_partial_amount no longer writes self.__acquired_lot_2_partial_amount[acquired_lot] = amount", loc(sp.node))

    # ---------------------------------------------------------------- C01.g (lot index)
    engine.check_schedule_traversal(rep, rf)
    rg = rep.rule("C01.g", "lots are indexed by an order-preserving (UTC timestamp, padded id) key; candidate window ends at the last lot acquired at or before the event", floor=8)
    engine.check_key_builder(rep, rg)
    rh = rep.rule("C01.h", "lots and events reach the engine in time order: entry sets sort by timestamp only (stable), nothing else reorders an entry list", floor=4)
    engine.check_chronological_input(rep, rh)

"""C20 — Japanese tax report: one sheet per asset-year, chained in year order."""

from __future__ import annotations

import ast
from typing import Any, Dict, List, Optional

from ..loader import AnalysisError, ancestors, loc, parent, short, unparse
from ..norm import Ctx, mk_add, show, subterms, tkey
from ..report import Report
from ..rp2model import model
from ..symexec import SPath, SymExec

META = {
    "title": "Japanese tax report: one sheet per asset-year, chained in year order",
    "technique": "grouping rule (groups are the values of a dictionary keyed by the transaction's own timestamp.year, filled from all three window sets), ordered-iteration "
    "rule on the loop that threads the previous sheet's offset, loop-carried def-use rule (the sheet named in the opening-balance reference is the year carried from the "
    "iteration that produced the offset, through the same name builder that created the sheet), one-row-per-transaction path rule on the row loop, "
    "state-lifetime rule for the summary-sheet bookkeeping, name-builder agreement in every cross-sheet formula",
    "explanation": "transactions of the in, out and intra sets of the window are grouped by their own calendar year in a dictionary (one group, hence one sheet, per "
    "asset-year); groups are processed in ascending year order; the per-year writer copies the template once under get_tax_sheet_name(asset, year), writes one row per "
    "transaction (rows with neither a purchased nor a sold amount - fee-less transfers - are the only ones skipped) and returns its closing-balance row; the opening balance "
    "of a sheet refers to get_tax_sheet_name(asset, <year of the previous iteration>) at the offset that iteration returned, or is 0 for the first year; a summary sheet is "
    "created exactly when its year is first seen by this generator instance, gets one line per asset-year whose four references use get_tax_sheet_name(asset, year) of the "
    "same call, and its bookkeeping is per instance.",
    "restated": 'artificial fee disposals carry the instant of their acquisition (C11.e); no cell shows a value left over from an earlier row',
    "not_decided": "the spreadsheet arithmetic inside the template; totals; ezodf's copy/insert behaviour.",
    "assumptions": ["sorted() of (year, list) pairs with distinct years orders by year", "ezodf Sheet.copy / insert_rows behave as documented"],
}

JP = "rp2.plugin.report.jp.tax_report_jp"


def run(rep: Report, tier: str) -> None:
    m = model()
    prog, norm = m.prog, m.norm
    gen = prog.cls(JP, "Generator")
    ga = prog.func(JP, "Generator.__generate_asset")
    gy = prog.func(JP, "Generator.__generate_asset_year")
    rep.analysed(ga, gy)

    # ---------------------------------------------------------------- C20.a
    ra = rep.rule("C20.a", "one sheet per asset-year, each transaction once: dictionary keyed by the transaction's own year over all three window sets; one row per listed transaction", floor=8)
    from ..engine import check_cell_sink

    check_cell_sink(rep, ra)
    loops = [n for n in ga.node.body if isinstance(n, ast.For)]
    per_year_c = [n for n in loops if any(isinstance(c, ast.Call) and isinstance(c.func, ast.Attribute) and c.func.attr == "__generate_asset_year" for c in ast.walk(n))]
    grp_c = [n for n in loops if n not in per_year_c]
    if len(per_year_c) != 1:
        raise AnalysisError(f"__generate_asset: expected one loop calling __generate_asset_year, found {len(per_year_c)}")
    per_year = per_year_c[0]
    ctx = norm.ctx_for(ga, subst_locals=True)
    ctx.vars["computed_data"] = (("sym", "cd"), ("cls", "rp2.computed_data:ComputedData"))
    d_assign = [n for n in ga.node.body if isinstance(n, (ast.Assign, ast.AnnAssign)) and isinstance(n.value, ast.Dict) and not n.value.keys]
    dname = unparse(d_assign[0].target if isinstance(d_assign[0], ast.AnnAssign) else d_assign[0].targets[0]) if d_assign else "?"
    if len(grp_c) != 1 or not d_assign:
        rep.violation(ra, JP, ga.qualname, "year groups are the values of a dictionary keyed by year", f"__generate_asset no longer fills a dictionary year -> transactions in a loop of its own (the per-year loop iterates {short(per_year.iter, 120)}): groups taken from a sequence (e.g. itertools.groupby over a list sorted by instant) are not unique per calendar year when time zones differ around New Year — the same asset-year gets two sheets with the same name", loc(per_year))
    else:
        grp = grp_c[0]
        it = norm.term(grp.iter, ctx)
        srcs = sorted(s[2].split(".__")[1] for s in subterms(it) if s[0] == "fld" and s[2].startswith("ComputedData.__filtered"))
        want = ["filtered_in_transaction_set", "filtered_intra_transaction_set", "filtered_out_transaction_set"]
        rep.check(srcs == want and it[0] == "xcall" and it[1].endswith("chain"), ra, JP, ga.qualname, "groups are built from the in, out and intra sets of the window", f"the grouping loop iterates {show(it)[:200]}; expected chain(in, out, intra transaction sets of computed_data) (a missing table loses that year's disposals or transfer fees)", loc(grp))
        body = [unparse(s) for s in grp.body]
        tv = grp.target.id if isinstance(grp.target, ast.Name) else "?"
        key = f"{tv}.timestamp.year"
        explicit = [unparse(ast.parse(f"if {key} not in {dname}:\n    {dname}[{key}] = []").body[0]), f"{dname}[{key}].append({tv})"]  # the same grouping with an explicit membership test
        ok = body == [f"{dname}.setdefault({key}, []).append({tv})"] or body == explicit
        # a key obtained through a method (a country / configuration hook): if any implementation of that method converts the instant to another zone,
        # the sheet's year differs from the year of the date shown in the row (definite: the conversion is the defect, wherever it lives)
        for kc in [c for c in ast.walk(grp) if isinstance(c, ast.Call) and isinstance(c.func, ast.Attribute) and any(isinstance(a, ast.Attribute) and a.attr == "timestamp" for x in c.args for a in ast.walk(x))]:
            impls = [f for f in prog.functions.values() if f.node.name == kc.func.attr and f.cls is not None]
            conv = [(f, x) for f in impls for x in ast.walk(f.node) if isinstance(x, ast.Attribute) and x.attr in ("astimezone", "utctimetuple", "utcoffset")]
            for f, x in conv[:2]:
                rep.violation(ra, JP, ga.qualname, f"group key through {kc.func.attr}() converts the instant", f"the year a transaction is filed under comes from {short(kc, 70)}, and {f.qualname} ({f.module}) computes it from a converted instant ({short(parent(x) or x, 60)}): around New Year the sheet's year differs from the calendar year of the transaction's own timestamp (the date shown in its row), so the transaction lands in the wrong asset-year sheet", loc(kc), definite=True)
        rep.check(ok, ra, JP, ga.qualname, "group key = the transaction's own timestamp.year, in a dictionary (one group per year)", f"the grouping loop body is {body}; expected {dname}.setdefault(<entry>.timestamp.year, []).append(<entry>)", loc(grp))
        rep.check(not any(isinstance(n, (ast.Continue, ast.Break)) or (isinstance(n, ast.If) and body != explicit) for n in ast.walk(grp)), ra, JP, ga.qualname, "every transaction of the window joins its year group", "the grouping loop skips some transactions", loc(grp))
    # the per-year loop iterates that dictionary's items
    it2 = per_year.iter
    it2_txt = unparse(it2)
    # two spellings of "every (year, group) of the dictionary": the items, or the keys with the group read back through the key
    by_key = isinstance(per_year.target, ast.Name) and isinstance(it2, ast.Call) and len(it2.args) == 1 and unparse(it2.args[0]) in (dname, f"{dname}.keys()")
    uses_dict = dname in it2_txt and (".items()" in it2_txt or by_key)
    rep.check(uses_dict, ra, JP, ga.qualname, "one per-year call for every group of the dictionary", f"the per-year loop iterates {it2_txt}; expected the items of {dname}", loc(per_year))
    calls = [n for n in ast.walk(per_year) if isinstance(n, ast.Call) and isinstance(n.func, ast.Attribute) and n.func.attr == "__generate_asset_year"]
    ok = len(calls) == 1 and not any(isinstance(a, (ast.If, ast.Try)) for a in ancestors(calls[0]) if a is not per_year and a is not ga.node and not isinstance(a, (ast.ClassDef, ast.For, ast.Assign)))
    rep.check(ok, ra, JP, ga.qualname, "each group is written by exactly one unconditional __generate_asset_year call", f"{len(calls)} (possibly conditional) per-year calls per group", loc(per_year))
    from ..loader import call_args

    kw = {p: unparse(v) for p, v in call_args(calls[0], gy.param_names[1:]).items()} if calls else {}
    yv, tsv = (per_year.target.elts[0].id, per_year.target.elts[1].id) if isinstance(per_year.target, ast.Tuple) and len(per_year.target.elts) == 2 and all(isinstance(e, ast.Name) for e in per_year.target.elts) else ("?", "?")
    if by_key:
        yv, tsv = per_year.target.id, f"{dname}[{per_year.target.id}]"
        rep.check(not any(isinstance(n, ast.Name) and n.id == yv and isinstance(n.ctx, ast.Store) for st_ in per_year.body for n in ast.walk(st_)), ra, JP, ga.qualname, "the loop's year is not rebound inside the loop", f"'{yv}' is assigned inside the per-year loop: the group read back through it is no longer the group of the iteration", loc(per_year))
    # the group handed over through a local that is bound to it inside the loop and sorted in place by time before the call
    tl = kw.get("transaction_list")
    if calls and tl and tl.isidentifier() and tl != tsv:
        binds = [s_ for s_ in per_year.body if isinstance(s_, (ast.Assign, ast.AnnAssign)) and getattr(s_, "value", None) is not None and unparse(s_.target if isinstance(s_, ast.AnnAssign) else s_.targets[0]) == tl]
        sorts = [s_ for s_ in per_year.body if isinstance(s_, ast.Expr) and isinstance(s_.value, ast.Call) and unparse(s_.value.func) == f"{tl}.sort" and not s_.value.args and [unparse(k.value) for k in s_.value.keywords if k.arg == "key"] in (["lambda x: x.timestamp"], ["attrgetter('timestamp')"], ["operator.attrgetter('timestamp')"]) and not any(k.arg == "reverse" for k in s_.value.keywords)]
        if len(binds) == 1 and len(sorts) == 1 and unparse(binds[0].value) in (tsv, f"list({tsv})") and binds[0].lineno < sorts[0].lineno < calls[0].lineno:
            kw["transaction_list"] = f"sorted({tsv}, key=lambda x: x.timestamp)"
    ok = kw.get("asset") == "asset" and kw.get("year") == yv and kw.get("transaction_list") in (f"sorted({tsv}, key=lambda x: x.timestamp)", f"sorted({tsv}, key=attrgetter('timestamp'))", f"sorted({tsv}, key=operator.attrgetter('timestamp'))", f"list({tsv})") and kw.get("output_file") == "output_file"
    rep.check(ok, ra, JP, ga.qualname, "the call receives this group's year and its transactions sorted by time", f"per-year call arguments: {kw}", loc(calls[0]) if calls else loc(per_year))
    # per-year writer: template copied once under the name builder, rows
    copies = [n for n in ast.walk(gy.node) if isinstance(n, ast.Call) and isinstance(n.func, ast.Attribute) and n.func.attr == "copy" and "ASSET_TEMPLATE_SHEET" in unparse(n)]
    own_name = "self.get_tax_sheet_name(asset, year)"
    name_locals = {unparse(a.target if isinstance(a, ast.AnnAssign) else a.targets[0]) for a in ast.walk(gy.node) if isinstance(a, (ast.Assign, ast.AnnAssign)) and getattr(a, "value", None) is not None and unparse(a.value) == own_name}
    name_locals = {n for n in name_locals if sum(1 for a in ast.walk(gy.node) if isinstance(a, ast.Name) and a.id == n and isinstance(a.ctx, ast.Store)) == 1}  # bound once
    ok = len(copies) == 1 and unparse(copies[0]) in {f"output_file.sheets[self.ASSET_TEMPLATE_SHEET].copy(newname={x})" for x in {own_name} | name_locals} and "output_file.sheets += asset_year_sheet" in [unparse(s) for s in gy.node.body]
    rep.check(ok, ra, JP, gy.qualname, "the asset-year sheet is one copy of the template named get_tax_sheet_name(asset, year)", f"template copies in the per-year writer: {[short(c, 120) for c in copies]}", loc(gy.node))
    rows = [n for n in gy.node.body if isinstance(n, ast.For) and unparse(n.iter) == "transaction_list"]
    if len(rows) != 1:
        raise AnalysisError("row loop over transaction_list not found in __generate_asset_year")
    row_loop = rows[0]
    conts = [n for n in ast.walk(row_loop) if isinstance(n, (ast.Continue, ast.Break, ast.Return))]
    ok = len(conts) == 1 and isinstance(conts[0], ast.Continue)
    if ok:
        guard = [a for a in ancestors(conts[0]) if isinstance(a, ast.If)][0]
        ok = unparse(guard.test) == "transaction_row.purchase_crypto_amount is None and transaction_row.sales_crypto_amount is None"
    rep.check(ok, ra, JP, gy.qualname, "only rows with neither a purchased nor a sold amount (fee-less transfers) are skipped", f"early exits in the row loop: {[(type(n).__name__, short([a for a in ancestors(n) if isinstance(a, ast.If)][0].test, 90) if [a for a in ancestors(n) if isinstance(a, ast.If)] else '') for n in conts]}; only the tabled 'no purchase and no sale amount' skip is allowed", loc(row_loop))
    se = SymExec(norm, norm.ctx_for(gy, subst_locals=False))
    init = SPath()
    init.vars[row_loop.target.id] = (("sym", "e"), ("cls", "rp2.abstract_transaction:AbstractTransaction"))
    init.vars["row_index"] = (("sym", "row_index"), ("prim", "int"))
    n_written = 0
    for p in se.run(row_loop.body, init):
        if p.exit != "fall":
            continue
        fin = p.vars.get("row_index", (None,))[0]
        inserts = [e for e in p.calls() if "__insert_secondary_transaction_row" in show(e[1])[:200]]
        cells = [e for e in p.calls() if e[1][0] == "call" and e[1][1].endswith("._fill_cell")]
        ok = fin is not None and tkey(fin) == tkey(mk_add([("sym", "row_index"), ("const", 1)])) and len(inserts) == 1 and all(dict(c[1][2]).get("row_index") == ("sym", "row_index") for c in cells) and len(cells) >= 5
        n_written += 1
        rep.check(ok, ra, JP, gy.qualname, "a written transaction inserts one row, fills it, and advances the row by one", f"a path of the row loop inserts {len(inserts)} row(s), writes {len(cells)} cells and leaves row_index = {show(fin) if fin else None}", loc(row_loop))
    if n_written == 0:
        raise AnalysisError("no completing path of the row loop found")
    from . import c11

    re_split = rep.rule("C20.e", "artificial fee disposals carry the instant of their acquisition (C11.e restated): a shifted one can land in another year's sheet", floor=20)
    c11.check_split(rep, re_split)
    from ..stale import check_rows_fresh

    check_rows_fresh(rep, ra, norm, gy, row_loop, "JP year sheet rows")

    # groups built anywhere on the way (a helper on the entry sets, the generator itself) must not rely on itertools.groupby over input in another order
    from ..groupby import check_groupby

    rg_ = rep.rule("C20.f", "no order-sensitive grouping on the way to the year sheets: itertools.groupby only over input sorted by the grouping key", floor=0)
    n_gb = check_groupby(rep, rg_, prog, (JP, "rp2.abstract_entry_set", "rp2.transaction_set", "rp2.gain_loss_set", "rp2.computed_data", "rp2.input_data"), "a calendar year met in two separate runs (mixed UTC offsets around New Year) keeps only one run: transactions vanish from their year sheet")
    if n_gb == 0:
        rep.ok(rg_, "no itertools.groupby call in the JP writer, the entry sets, ComputedData or InputData")

    # ---------------------------------------------------------------- C20.b
    rb = rep.rule("C20.b", "year groups are processed in ascending year order", floor=1)
    ordered = isinstance(it2, ast.Call) and isinstance(it2.func, ast.Name) and it2.func.id == "sorted" and len(it2.args) == 1 and unparse(it2.args[0]) in ((f"{dname}.items()",) if not by_key else (dname, f"{dname}.keys()")) and not any(k.arg == "reverse" for k in it2.keywords) and not [k for k in it2.keywords if k.arg == "key" and "[0]" not in unparse(k.value)]
    rep.check(ordered, rb, JP, ga.qualname, "per-year loop iterates sorted(<groups>.items())", f"the loop that threads previous_year_row_offset iterates {it2_txt}: the dictionary is filled while chaining three separately sorted sets, so its own order is 'first seen', not ascending; 'the most recent earlier year' needs ascending year order", loc(per_year))

    # ---------------------------------------------------------------- C20.c
    rc = rep.rule("C20.c", "the opening-balance reference names the sheet of the iteration that produced the offset, through the same name builder", floor=5)
    # loop-carried pair (previous year, previous offset): both assigned from this iteration, year passed to the callee
    assigns = {unparse(t): unparse(n.value) for n in per_year.body if isinstance(n, ast.Assign) for t in n.targets}
    off_ok = "previous_year_row_offset" in assigns and "__generate_asset_year" in assigns["previous_year_row_offset"] and kw.get("previous_year_row_offset") == "previous_year_row_offset"
    rep.check(off_ok, rc, JP, ga.qualname, "the offset returned by one iteration is handed to the next", f"loop-carried assignments: {assigns}; call arguments: {kw}", loc(per_year))
    carried = [k for k, v in assigns.items() if v == yv and k != "previous_year_row_offset"]
    passed = [k for k in carried if kw.get(k) == k]
    last_stmt_ok = bool(carried) and unparse(per_year.body[-1] if not _summary_tail(per_year) else _stmt_after_call(per_year, calls[0])) .startswith(f"{carried[0]} = {yv}") if carried else False
    rep.check(bool(passed), rc, JP, ga.qualname, "the year of the iteration that produced the offset is carried to the next iteration and passed to the per-year writer", f"no loop-carried variable is set to this iteration's year ('{yv}') and passed to __generate_asset_year (carried: {carried}, arguments: {sorted(kw)}): the previous sheet's name can then only be guessed by arithmetic on the current year, which is wrong for sparse years", loc(per_year))
    pv = passed[0] if passed else None
    if pv:
        idx_call = per_year.body.index(next(s for s in per_year.body if calls[0] in list(ast.walk(s))))
        idx_set = next((i for i, s in enumerate(per_year.body) if isinstance(s, ast.Assign) and unparse(s) == f"{pv} = {yv}"), -1)
        rep.check(idx_set > idx_call, rc, JP, ga.qualname, "the carried year is updated after the call (it still names the previous iteration during the call)", f"'{pv} = {yv}' is executed before the per-year call: the sheet would refer to itself", loc(per_year))
        inits = [n for n in ga.node.body if isinstance(n, (ast.Assign, ast.AnnAssign)) and unparse(n.target if isinstance(n, ast.AnnAssign) else n.targets[0]) == pv]
        rep.check(len(inits) == 1 and unparse(inits[0].value) == "None", rc, JP, ga.qualname, "no previous year before the first group", f"'{pv}' is initialised to {unparse(inits[0].value) if inits else None}; expected None", loc(ga.node))
    # in the callee: the referenced sheet name is get_tax_sheet_name(asset, <that parameter>)
    names = [n for n in ast.walk(gy.node) if isinstance(n, ast.Call) and isinstance(n.func, ast.Attribute) and n.func.attr == "get_tax_sheet_name"]
    prev_names = [n for n in names if len(n.args) == 2 and unparse(n.args[1]) != "year"]
    arith = [n for n in names if len(n.args) == 2 and isinstance(n.args[1], ast.BinOp)]
    for n in arith:
        rep.violation(rc, JP, gy.qualname, f"previous sheet named by arithmetic: {short(n, 80)}", f"{short(n, 80)}: the previous year's sheet is named by arithmetic on the current year; when a year has no transactions (or years are not consecutive) that sheet does not exist — the opening balance must refer to the most recent earlier year that has a sheet", loc(n))
    # (the opening-balance cells themselves are decided on the writer's trace, see _writer_trace)
    # a sheet name is spelled in one place only: anything in the generator that assembles "<x>_<y>" by hand (f"{asset}_{year}", "{}_{}".format(..)) outside
    # the two name builders bypasses the translated pattern the sheets were created under (definite: the construct itself is the defect)
    builders = {id(n) for b in ("get_tax_sheet_name", "get_summary_sheet_name") if b in gen.methods for n in ast.walk(gen.methods[b].node)}
    for node in ast.walk(gen.node):
        if id(node) in builders:
            continue
        by_hand = None
        if isinstance(node, ast.JoinedStr) and len(node.values) == 3 and isinstance(node.values[0], ast.FormattedValue) and isinstance(node.values[2], ast.FormattedValue) and isinstance(node.values[1], ast.Constant) and node.values[1].value == "_" and unparse(node.values[0].value) == "asset":
            by_hand = node  # "<asset>_<something>": the shape of an asset-year sheet name
        elif isinstance(node, ast.Call) and isinstance(node.func, ast.Attribute) and node.func.attr == "format" and isinstance(node.func.value, ast.Constant) and node.func.value.value in ("{}_{}", "{}_Summary"):
            by_hand = node
        if by_hand is not None:
            fn = next((a for a in ancestors(by_hand) if isinstance(a, ast.FunctionDef)), None)
            rep.violation(rc, JP, f"Generator.{fn.name}" if fn is not None else "Generator", f"sheet name assembled by hand: {short(by_hand, 60)}", f"{short(by_hand, 80)} spells a sheet name without get_tax_sheet_name / get_summary_sheet_name: with a translated name pattern (e.g. -g kl: '__test_{{}}_{{}}') a reference built from it points at a sheet that does not exist", loc(by_hand), definite=True)
    # every cross-sheet reference in a formula goes through a name variable produced by the name builder
    for node in ast.walk(gy.node):
        if isinstance(node, ast.JoinedStr) and any(isinstance(v, ast.Constant) and "='" in str(v.value) for v in node.values):
            fv = [v for v in node.values if isinstance(v, ast.FormattedValue)]
            first = unparse(fv[0].value) if fv else ""
            ok = first.startswith("self.get_tax_sheet_name(") or first in name_locals or first == "previous_year_sheet_name" and any(isinstance(a, (ast.Assign, ast.AnnAssign)) and unparse(a.target if isinstance(a, ast.AnnAssign) else a.targets[0]) == "previous_year_sheet_name" and unparse(a.value).startswith("self.get_tax_sheet_name(") for a in ast.walk(gy.node))
            rep.check(ok, rc, JP, gy.qualname, f"cross-sheet formula names its sheet through get_tax_sheet_name: {short(node, 60)}", f"{short(node, 100)} names the referenced sheet by {first or 'a literal'}, not by self.get_tax_sheet_name(...): with a translated sheet-name format (e.g. -g kl) the reference points at a sheet that does not exist", loc(node))
    rets = [n for n in ast.walk(gy.node) if isinstance(n, ast.Return) and n.value is not None]
    rep.check(len(rets) == 1 and unparse(rets[0].value) == "row_index + 9", rc, JP, gy.qualname, "the returned offset is this sheet's closing-balance row (row_index + 9)", f"the per-year writer returns {unparse(rets[0].value) if rets else None}", loc(gy.node))

    # ---------------------------------------------------------------- C20.d
    rd = rep.rule("C20.d", "summary sheets: created when the year is first seen by this instance, one line per asset-year, references through the same call's names; per-instance state", floor=6)
    from ..engine import check_private_shadowing

    check_private_shadowing(rep, rd, [gen])
    init_f = gen.methods.get("__init__")
    inst = [unparse(n.target if isinstance(n, ast.AnnAssign) else n.targets[0]) for n in ast.walk(init_f.node) if isinstance(n, (ast.Assign, ast.AnnAssign))] if init_f else []
    rep.check("self.__year_row_offset" in inst and "self.__number_of_summaries" in inst, rd, JP, "Generator.__init__", "summary bookkeeping is per instance (set in __init__)", f"__init__ sets {inst}: class-level bookkeeping would leak across runs", loc(gen.node))
    cls_level = [n for n in gen.class_attrs if "year_row_offset" in n or "number_of_summaries" in n]
    rep.check(not cls_level, rd, JP, "Generator", "no class-level summary state", f"class-level attributes {cls_level}", loc(gen.node))
    _writer_trace(rep, rd, rc, norm, gy, row_loop, pv, bool(arith))
    g = gen.methods["generate"]
    lp = [n for n in g.node.body if isinstance(n, ast.For) and "asset_to_computed_data.items()" in unparse(n.iter)]
    ok = len(lp) == 1 and any(isinstance(c, ast.Call) and unparse(c) == "self.__generate_asset(computed_data, output_file)" for c in ast.walk(lp[0]))
    rep.check(ok, rd, JP, g.qualname, "generate() writes every asset", "generate() no longer calls __generate_asset(computed_data, output_file) for every asset", loc(g.node))


def _writer_trace(rep: Report, rd, rc, norm, gy, row_loop: ast.For, pv: Optional[str], arith: bool) -> None:
    """C20.d and the opening-balance cells of C20.c on the *trace* of the per-year writer rather than on its text: the statements before and after the row loop are walked symbolically (locals
    substituted, slot reads of the offset dictionary resolved, the name builders entered), so a row number or a sheet name kept in a local, an offset
    advanced by `= row + 1` instead of `+= 1`, or the first-seen test on a saved `setdefault` result are the same trace."""
    from ..norm import ANY

    body = gy.node.body
    i = body.index(row_loop)
    se = SymExec(norm, norm.ctx_for(gy, subst_locals=False))
    paths: List[SPath] = []
    for st in se.run(body[:i], SPath()):
        if st.exit != "fall":
            continue
        for n in ast.walk(row_loop):  # whatever the row loop assigns is unknown afterwards
            if isinstance(n, ast.Name) and isinstance(n.ctx, ast.Store):
                st.vars[n.id] = (("sym", n.id), se._declared.get(n.id, ANY))
        paths += [p for p in se.run(body[i + 1 :], st) if p.exit == "return"]
    if not paths:
        raise AnalysisError("no returning path through the tail of __generate_asset_year")
    probe = paths[0]
    own = se.eval(ast.parse("self.get_tax_sheet_name(asset, year)", mode="eval").body, probe)[0]
    sname = se.eval(ast.parse("self.get_summary_sheet_name(year)", mode="eval").body, probe)[0]
    sheets = ("attr", ("sym", "output_file"), "sheets")
    offsets = ("fld", ("sym", "self"), "Generator.__year_row_offset")
    count = ("fld", ("sym", "self"), "Generator.__number_of_summaries")
    year = ("sym", "year")
    row = ("sym", "row_index")

    def is_off(t) -> bool:
        return isinstance(t, tuple) and t[:3] == ("old", offsets, year)

    def is_created(t) -> bool:  # <template 'Summary'>.copy(newname=<summary name of this year>)
        return isinstance(t, tuple) and t[:2] == ("xcall", "copy") and isinstance(t[2], tuple) and t[2][:3] == ("old", sheets, ("const", "Summary")) and dict(t[4]).get("newname") == sname and not t[3]

    def is_looked_up(t) -> bool:
        return isinstance(t, tuple) and t[:3] == ("old", sheets, sname)

    seen = {True: 0, False: 0}
    opening = {True: 0, False: 0}
    prev = ("sym", pv or "previous_year")
    poff = ("sym", "previous_year_row_offset")
    prev_name = se.eval(ast.parse(f"self.get_tax_sheet_name(asset, {prev[1]})", mode="eval").body, probe)[0]
    has_prev_atoms = [("cmp", "is not", prev, ("const", None)), ("cmp", "!=", poff, ("const", 0))]
    no_prev_atoms = [("cmp", "is", prev, ("const", None)), ("cmp", "==", poff, ("const", 0))]

    def settled(t):  # a formula text that starts with a literal is a non-empty string: neither None nor falsy
        def text(x) -> bool:
            return isinstance(x, tuple) and len(x) == 2 and x[0] == "fstr" and bool(x[1]) and isinstance(x[1][0], str) and bool(x[1][0])

        while isinstance(t, tuple) and len(t) == 4 and t[0] == "ite":
            c = t[1]
            if c[0] == "truthy" and text(c[1]):
                t = t[2]
            elif c[0] == "cmp" and c[1] in ("is", "is not", "==", "!=") and ((text(c[2]) and c[3] == ("const", None)) or (text(c[3]) and c[2] == ("const", None))):
                t = t[3] if c[1] in ("is", "==") else t[2]
            else:
                break
        return t

    for p in paths:
        own_fills = [dict(e[1][2]) for e in p.calls() if e[1][0] == "call" and e[1][1].endswith("._fill_cell")]
        cell = {k: [settled(f.get("value")) for f in own_fills if f.get("column_index") == ("const", 4) and f.get("row_index") == mk_add([("const", k), row])] for k in (8, 9)}
        conds = p.conds()
        flat_or = [a for c in conds for a in (c[1] if c[0] == "or" else [c])]
        with_prev = any(a in conds for a in has_prev_atoms)
        without_prev = any(a in flat_or for a in no_prev_atoms)
        if not arith:
            if with_prev and not without_prev:
                opening[True] += 1
                want8 = ("fstr", ("='", prev_name, "'.I", poff))
                want9 = ("fstr", ("='", prev_name, "'.I", mk_add([("const", 1), poff])))
                rep.check(cell[8] == [want8] and cell[9] == [want9], rc, JP, gy.qualname, "with a previous sheet: the opening balances refer to get_tax_sheet_name(asset, <carried previous year>) at the carried offset and the row below", f"with a previous year the opening-balance cells (E<row+8>, E<row+9>) receive {[show(v)[:110] for v in cell[8]]} and {[show(v)[:110] for v in cell[9]]}; expected ='<sheet of the previous iteration>'.I<offset> and .I<offset+1> - through the same (translated) name builder that named the sheet when it was created", loc(gy.node))
            elif without_prev and not with_prev:
                opening[False] += 1
                rep.check(cell[8] == [("const", 0)] and cell[9] == [("const", 0)], rc, JP, gy.qualname, "no reference (opening balance 0) when there is no previous sheet", f"without a previous year the opening-balance cells receive {[show(v)[:110] for v in cell[8]]} and {[show(v)[:110] for v in cell[9]]}; expected 0", loc(gy.node))
            else:
                rep.violation(rc, JP, gy.qualname, "the opening balance is decided on 'there is a previous sheet' (previous year given / previous offset non-zero)", f"a path through the writer fills the opening-balance cells under {[show(c)[:90] for c in conds]}: neither 'a previous year exists' nor 'none exists' is established on it", loc(gy.node))
        first = [c for c in p.conds() if c[0] == "cmp" and c[1] in ("==", "!=") and {c[3], c[2]} & {("const", 7)} and (is_off(c[2]) or is_off(c[3]))]
        default_ok = all(v == ("const", 7) for k, v in p.defaults.items() if k[0] == tkey(offsets))
        if len(first) != 1 or not default_ok:
            rep.violation(rd, JP, gy.qualname, "summary sheet created when the year's offset is first set (setdefault(year, 7) == 7)", f"a path through the tail decides the creation of the yearly summary sheet on {[show(c) for c in first] or [show(c)[:80] for c in p.conds()]} (offset defaults on the path: {[show(v) for k, v in p.defaults.items() if k[0] == tkey(offsets)]}); expected the single test <offset of this year, defaulting to 7> == 7", loc(gy.node))
            continue
        is_first = first[0][1] == "=="
        seen[is_first] += 1
        fills = [dict(e[1][2]) for e in p.calls() if e[1][0] == "call" and e[1][1].endswith("._fill_cell")]
        summary = [f for f in fills if is_created(f.get("sheet")) or is_looked_up(f.get("sheet"))]
        inserts = [e[1] for e in p.calls() if e[1][0] == "xcall" and e[1][1] == "insert" and e[1][2] == sheets]
        bumps = [e for e in p.events if e[0] == "setattr" and e[2] == "Generator.__number_of_summaries"]
        if is_first:
            ok = len(inserts) == 1 and len(inserts[0][3]) == 2 and is_created(inserts[0][3][1]) and inserts[0][3][0] == mk_add([("const", 2), count]) and len(bumps) == 1 and bumps[0][3] == mk_add([("const", 1), count]) and all(is_created(f["sheet"]) for f in summary)
            rep.check(ok, rd, JP, gy.qualname, "first asset of a year: the summary template is copied under this year's summary name, inserted after the summaries so far, and counted", f"on the first-seen path: sheets inserted {[show(x)[:160] for x in inserts]}, summary counter updates {[show(b[3]) for b in bumps]}, summary cells written to {sorted({show(f['sheet'])[:80] for f in summary})}", loc(gy.node))
        else:
            ok = not inserts and not bumps and all(is_looked_up(f["sheet"]) for f in summary)
            rep.check(ok, rd, JP, gy.qualname, "later assets of a year: the existing summary sheet is looked up by this year's summary name, nothing created", f"on the already-seen path: sheets inserted {[show(x)[:160] for x in inserts]}, summary counter updates {[show(b[3]) for b in bumps]}, summary cells written to {sorted({show(f['sheet'])[:80] for f in summary})}", loc(gy.node))
        lines = [dict(e[1][2]) for e in p.calls() if e[1][0] == "call" and e[1][1].endswith(".__insert_summary_row")]
        stores = [e for e in p.stores() if e[1] == offsets]
        ok = len(lines) == 1 and is_off(lines[0].get("row")) and (is_created(lines[0].get("sheet_name")) or is_looked_up(lines[0].get("sheet_name"))) and len(stores) == 1 and stores[0][2] == year and is_off(_minus_one(stores[0][3]))
        rep.check(ok, rd, JP, gy.qualname, "one summary line inserted per asset-year at the year's offset, and the offset advanced by one", f"summary lines inserted at {[show(x.get('row')) for x in lines]}; offset updates {[(show(e[2]), show(e[3])) for e in stores]}; expected one line at the year's offset and offset[year] = offset[year] + 1", loc(gy.node))
        at_row = all(is_off(f.get("row_index")) for f in summary)
        cols = {f["column_index"][1]: f.get("value") for f in summary if f.get("column_index", ("?",))[0] == "const"}
        rep.check(at_row and len(summary) == len(cols) and cols.get(0) == ("sym", "asset"), rd, JP, gy.qualname, "the summary line is written at the year's offset, one cell per column, labelled with the asset", f"summary cells: {[(show(f.get('row_index')), show(f.get('column_index')), show(f.get('value'))[:60]) for f in summary]}", loc(gy.node))
        want = {3: ("G", 10), 4: ("I", 9), 5: ("I", 10), 6: ("I", 18)}
        got = {c: cols.get(c) for c in want}
        ok = all(got[c] == ("fstr", ("='", own, f"'.{col}", mk_add([("const", k), row]))) for c, (col, k) in want.items())
        rep.check(ok, rd, JP, gy.qualname, "the four summary references point at this asset-year's sheet (unit price, end balances, net income)", f"summary references: { {c: show(v)[:120] if v else None for c, v in got.items()} }; expected ='<name of this asset-year's sheet>'.G<row+10>, .I<row+9>, .I<row+10>, .I<row+18>", loc(gy.node))
    if not arith and not (opening[True] and opening[False]):
        rep.violation(rc, JP, gy.qualname, "both the first sheet of an asset and a later one are handled", f"paths through the writer: with a previous sheet {opening[True]}, without {opening[False]}", loc(gy.node))
    if not (seen[True] and seen[False]):
        rep.violation(rd, JP, gy.qualname, "both the first-seen and the already-seen case of the yearly summary exist", f"paths through the tail: first-seen {seen[True]}, already-seen {seen[False]}", loc(gy.node))


def _minus_one(t):
    """x for the term x + 1 (None otherwise)."""
    if isinstance(t, tuple) and t and t[0] == "add" and ("const", 1) in t[1] and len(t[1]) == 2:
        return [x for x in t[1] if x != ("const", 1)][0]
    return None


def _summary_tail(loop: ast.For) -> bool:
    return True


def _stmt_after_call(loop: ast.For, call: ast.Call) -> ast.stmt:
    for i, s in enumerate(loop.body):
        if call in list(ast.walk(s)):
            return loop.body[i + 1] if i + 1 < len(loop.body) else loop.body[i]
    return loop.body[-1]

"""C13 — full report shows every transaction and fraction once, with computed values."""

from __future__ import annotations

import ast
from typing import Any, Dict, List, Optional, Tuple

from ..consts import UNKNOWN, Folder
from ..loader import AnalysisError, ancestors, loc, short, unparse
from ..norm import ANY, Ctx, mk_add, show, subterms, tkey
from ..report import Report
from ..rp2model import model
from ..symexec import SPath, SymExec

META = {
    "title": "Full report shows every transaction and fraction once, with computed values",
    "technique": "per-writer symbolic effect summary (one row per entry: exactly-one row advance after the cell writes on every path, no continue/break), "
    "column -> header label -> computed field table comparison for all seven tables (labels read from the header lists defined in the same class, values as "
    "normal forms), accumulator recognition for running sums and sold percentages, single-sink rule for decimal->float, def-use of the Legend inputs",
    "explanation": "each of the seven table writers iterates the intended collection of ComputedData and on every path through the loop body writes its cells at the "
    "current row and advances the row exactly once; __generate_asset calls all seven writers for every asset with increasing rows and generate loops over every asset; "
    "for every column the value handed to the cell is the computed field its header label names (about 100 label/field pairs, e.g. 'With Fee' -> fiat_in_with_fee, "
    "'Cost Basis' -> gl.fiat_cost_basis, 'Gains Type' -> LONG iff gl.is_long_term_capital_gains(), 'Running Sum' -> the running-sum dictionary entry of this transaction); "
    "fraction notes interpolate k+1 / n of this fraction's own event and lot; running sums and the in-lot sold percentage are accumulated over the intended sets; "
    "RP2Decimal becomes float only inside _fill_cell; the Legend receives the same method table and from/to dates the computation used; the balances shown are the replayed "
    "flows (C07's obligations restated); no cell shows a value left over from an earlier row.",
    "restated": "the balances shown are the replayed flows (C07.a-d); the numbering tables behind the 'k/n' labels are per copy and cut at the copy's to-date (C10.c); average price = sum of cost / sum of amount up to the to-date; the yearly lines shown are the sums of the fractions up to the to-date, cut on the event's own date, no order-sensitive grouping (C06.b, c, d, g)",
    "not_decided": "the bytes ezodf serialises, styles, LibreOffice rendering, correctness of list.sort.",
    "assumptions": ["ezodf writes the value it is handed into the addressed cell", "float(Decimal) is the correctly rounded double"],
}

FR = "rp2.plugin.report.rp2_full_report"
GEN = "Generator"
HYPER_T = f"{FR}:Generator.__get_hyperlinked_transaction_value"
HYPER_S = f"{FR}:Generator.__get_hyperlinked_summary_value"

YESNO = '"YES" if t.is_taxable() else "NO"'
TYPE_T = "t.transaction_type.get_translation().upper()"
EV_NOTE = 'f"{cd.gain_loss_set.get_taxable_event_fraction(gl) + 1}/{cd.gain_loss_set.get_taxable_event_number_of_fractions(gl.taxable_event)}: {gl.crypto_amount:.8f} of {gl.taxable_event.crypto_balance_change:.8f} {asset}"'
LOT_NOTE = 'f"{cd.gain_loss_set.get_acquired_lot_fraction(gl) + 1}/{cd.gain_loss_set.get_acquired_lot_number_of_fractions(gl.acquired_lot)}: {gl.crypto_amount:.8f} of {gl.acquired_lot.crypto_balance_change:.8f} {asset}"'

# writer -> (loop variable class, collection expression over cd/ylist/bset, header attribute stem, label -> expected value expression)
# Label keys are "<row 1>|<row 2>" of the header lists defined in the class itself (currency code rendered as CUR); values are source
# expressions over: t (the row's transaction), cd (ComputedData), gl (GainLoss), y (YearlyGainLoss), b (Balance), asset.
SPECS: Dict[str, Dict[str, Any]] = {
    "__generate_in_table": dict(
        var=("t", "rp2.in_transaction:InTransaction"),
        coll="cd.in_transaction_set",
        header="in",
        cols={
            "|Sent/Sold": ("mentions", "cd.get_in_lot_sold_percentage(t)"),
            "|Timestamp": "t.timestamp",
            "|Asset": "t.asset",
            "|Exchange": "t.exchange",
            "|Holder": "t.holder",
            "Transaction|Type": TYPE_T,
            "|Spot Price": "t.spot_price",
            "Crypto|In": "t.crypto_in",
            "Crypto In|Running Sum": "cd.get_crypto_in_running_sum(t)",
            "|CUR Fee": "t.fiat_fee",
            "CUR In|No Fee": "t.fiat_in_no_fee",
            "CUR In|With Fee": "t.fiat_in_with_fee",
            "Taxable|Event": YESNO,
            "|N/A": '""',
            "|Unique Id": "t.unique_id",
            "|Notes": "t.notes",
        },
    ),
    "__generate_out_table": dict(
        var=("t", "rp2.out_transaction:OutTransaction"),
        coll="cd.out_transaction_set",
        header="out",
        cols={
            "|Timestamp": "t.timestamp",
            "|Asset": "t.asset",
            "|Exchange": "t.exchange",
            "|Holder": "t.holder",
            "Transaction|Type": TYPE_T,
            "|Spot Price": "t.spot_price",
            "|Crypto Out": "t.crypto_out_no_fee",
            "|Crypto Fee": "t.crypto_fee",
            "Crypto Out|Running Sum": "cd.get_crypto_out_running_sum(t)",
            "Crypto Fee|Running Sum": "cd.get_crypto_out_fee_running_sum(t)",
            "|CUR Out": "t.fiat_out_no_fee",
            "|CUR Fee": "t.fiat_fee",
            "Taxable|Event": YESNO,
            "|Unique Id": "t.unique_id",
            "|Notes": "t.notes",
        },
    ),
    "__generate_intra_table": dict(
        var=("t", "rp2.intra_transaction:IntraTransaction"),
        coll="cd.intra_transaction_set",
        header="intra",
        cols={
            "|Timestamp": "t.timestamp",
            "|Asset": "t.asset",
            "From|Exchange": "t.from_exchange",
            "From|Holder": "t.from_holder",
            "|To Exchange": "t.to_exchange",
            "|To Holder": "t.to_holder",
            "|Spot Price": "t.spot_price",
            "|Crypto Sent": "t.crypto_sent",
            "Crypto|Received": "t.crypto_received",
            "|Crypto Fee": "t.crypto_fee",
            "Crypto Fee|Running Sum": "cd.get_crypto_intra_fee_running_sum(t)",
            "|CUR Fee": "t.fiat_fee",
            "Taxable|Event": YESNO,
            "|Unique Id": "t.unique_id",
            "|Notes": "t.notes",
        },
    ),
    "__generate_gain_loss_summary": dict(
        var=("y", "rp2.computed_data:YearlyGainLoss"),
        coll="ylist",
        header="gain_loss_summary",
        cols={
            "|Year": "y.year",
            "|Asset": "y.asset",
            "Capital|Gains": "y.fiat_gain_loss",
            "Capital|Gains Type": '"LONG" if y.is_long_term_capital_gains else "SHORT"',
            "Transaction|Type": "y.transaction_type.get_translation().upper()",
            "Crypto|Taxable Total": "y.crypto_amount",
            "CUR|Taxable Total": "y.fiat_amount",
            "CUR Total|Cost Basis": "y.fiat_cost_basis",
        },
    ),
    "__generate_yearly_gain_loss_summary": dict(
        var=("y", "rp2.computed_data:YearlyGainLoss"),
        coll="ylist",
        header="yearly_gain_loss_summary",
        hyper="summary",
        cols={
            "|Year": "y.year",
            "|Asset": "asset",
            "Capital|Gains": "y.fiat_gain_loss",
            "Capital|Gains Type": '"LONG" if y.is_long_term_capital_gains else "SHORT"',
            "Transaction|Type": "y.transaction_type.get_translation().upper()",
            "Crypto|Taxable Total": "y.crypto_amount",
            "USD|Taxable Total": "y.fiat_amount",
            "USD Total|Cost Basis": "y.fiat_cost_basis",
        },
    ),
    "__generate_account_balances": dict(
        var=("b", "rp2.balance:Balance"),
        coll="bset",
        header="balance",
        cols={
            "|Exchange": "b.exchange",
            "|Holder": "b.holder",
            "|Asset": "b.asset",
            "Acquired|Balance": "b.acquired_balance",
            "Sent|Balance": "b.sent_balance",
            "Received|Balance": "b.received_balance",
            "Final|Balance": "b.final_balance",
        },
    ),
    "__generate_gain_loss_detail": dict(
        var=("gl", "rp2.gain_loss:GainLoss"),
        coll="cd.gain_loss_set",
        header="gain_loss_detail",
        hyper="transaction",
        cols={
            "Crypto|Amount": "gl.crypto_amount",
            "|Asset": "gl.asset",
            "Crypto Amt|Running Sum": "cd.get_crypto_gain_loss_running_sum(gl)",
            "Capital|Gains": "gl.fiat_gain",
            "Capital|Gains Type": '"LONG" if gl.is_long_term_capital_gains() else "SHORT"',
            "Taxable Event|Timestamp": ("E", "gl.taxable_event.timestamp"),
            "Taxable Event|Direction/Type": ("E", 'f"{self._get_table_type_from_transaction(gl.taxable_event)} / {gl.taxable_event.transaction_type.get_translation().upper()}"'),
            "Taxable Event|Fraction %": ("E", "gl.taxable_event_fraction_percentage"),
            "Taxable Event CUR|Amount Fraction": ("E", "gl.taxable_event_fiat_amount_with_fee_fraction"),
            "Taxable Event|Spot Price": ("E", "gl.taxable_event.spot_price"),
            "|Unique Id": ("E", "gl.taxable_event.unique_id"),
            "Taxable Event|Fraction Description": ("E", EV_NOTE),
            "Acquired Lot|Timestamp": ("L", "gl.acquired_lot.timestamp"),
            "Acquired Lot|Fraction %": ("L", "gl.acquired_lot_fraction_percentage"),
            "Acquired Lot CUR|Amount Fraction": ("L", "gl.acquired_lot_fiat_amount_with_fee_fraction"),
            "Acquired Lot CUR|Fee Fraction": ("L", "gl.acquired_lot.fiat_fee * gl.acquired_lot_fraction_percentage"),
            "Acquired Lot CUR|Cost Basis": ("L", "gl.fiat_cost_basis"),
            "Acquired Lot|Spot Price": ("L", "gl.acquired_lot.spot_price"),
            "|Unique Id#2": ("L", "gl.acquired_lot.unique_id"),
            "Acquired Lot Fraction|Description": ("L", LOT_NOTE),
        },
    ),
}


class FullReport:
    def __init__(self) -> None:
        self.m = model()
        self.prog, self.norm = self.m.prog, self.m.norm
        self.norm.opaque_funcs |= {HYPER_T, HYPER_S}
        self.gen = self.prog.cls(FR, GEN)
        self.setup = self.prog.func(FR, f"{GEN}._setup_text_data")
        self._headers: Dict[str, List[str]] = {}

    def header(self, stem: str) -> List[str]:
        """Combined 'row1|row2' labels of the header lists assigned in _setup_text_data (currency rendered as CUR)."""
        if stem in self._headers:
            return self._headers[stem]
        rows = {}
        for n in ast.walk(self.setup.node):
            tgt = n.target if isinstance(n, ast.AnnAssign) else (n.targets[0] if isinstance(n, ast.Assign) and len(n.targets) == 1 else None)
            if isinstance(tgt, ast.Attribute) and isinstance(tgt.value, ast.Name) and tgt.value.id == "self":
                for r in (1, 2):
                    if tgt.attr == f"__{stem}_header_names_row_{r}":
                        v = Folder(self.prog, FR, {"currency_code": "CUR"}, self.gen).fold(n.value)
                        if v is UNKNOWN:
                            raise AnalysisError(f"header list {tgt.attr} is not constant-foldable")
                        rows[r] = list(v)
        if set(rows) != {1, 2} or len(rows[1]) != len(rows[2]):
            raise AnalysisError(f"header lists for '{stem}' not found or of different length in _setup_text_data")
        out = [f"{a}|{b}" for a, b in zip(rows[1], rows[2])]
        self._headers[stem] = out
        return out

    def spec_ctx(self, var: Tuple[str, str]) -> Ctx:
        vars_ = {
            "self": (("sym", "self"), ("cls", self.gen.fq)),
            "cd": (("sym", "cd"), ("cls", "rp2.computed_data:ComputedData")),
            "asset": (("sym", "asset"), ("prim", "str")),
            var[0]: (("sym", var[0]), ("cls", var[1])),
        }
        return Ctx(FR, self.gen, None, vars_)

    def expected(self, expr: str, var: Tuple[str, str]) -> Any:
        t = self.norm.term(ast.parse(expr, mode="eval").body, self.spec_ctx(var))
        return SymExec(self.norm, self.spec_ctx(var))._rewrite(t, SPath())  # same slot-read canonical form as the analysed code

    def writer(self, name: str):
        fi = self.prog.func(FR, f"{GEN}.{name}")
        loops = [n for n in fi.node.body if isinstance(n, ast.For)]
        if not loops:
            raise AnalysisError(f"{fi.qualname}: no row loop")
        return fi, loops[0]

    def run_loop(self, fi, loop: ast.For, var: Tuple[str, str]) -> List[SPath]:
        ctx = self.norm.ctx_for(fi, subst_locals=False)
        # canonical names for the shared inputs
        for p in fi.param_names:
            if p == "computed_data":
                ctx.vars[p] = (("sym", "cd"), ("cls", "rp2.computed_data:ComputedData"))
        init = SPath()
        if not isinstance(loop.target, ast.Name):
            raise AnalysisError(f"{fi.qualname}: loop target is not a name")
        init.vars[loop.target.id] = (("sym", var[0]), ("cls", var[1]))
        # locals defined before the loop (e.g. gain_loss_set = computed_data.gain_loss_set)
        pre = fi.node.body[: fi.node.body.index(loop)]
        se = SymExec(self.norm, ctx)
        states = [p for p in se.run(pre) if p.exit == "fall"]
        if len(states) != 1:
            raise AnalysisError(f"{fi.qualname}: set-up code before the row loop is not straight-line")
        assigned = {n.id for st in loop.body for n in ast.walk(st) if isinstance(n, ast.Name) and isinstance(n.ctx, ast.Store)}
        for k, v in states[0].vars.items():
            if k in assigned:
                init.vars.setdefault(k, (("sym", k), v[1]))  # loop-carried: unknown value at the start of an arbitrary iteration
            elif k not in ("row_index",):
                init.vars.setdefault(k, v)
        init.vars["row_index"] = (("sym", "row_index"), ("prim", "int"))
        self._pre_state = states[0]
        return se.run(loop.body, init)


def _fill_calls(path: SPath):
    return [e for e in path.calls() if e[1][0] == "call" and e[1][1].endswith("._fill_cell")]


def _value_of(cell_term, hyper: Optional[str]):
    kw = dict(cell_term[2])
    v = kw.get("value")
    link = None
    if v is not None and v[0] == "call" and v[1] in (HYPER_T, HYPER_S):
        hk = dict(v[2])
        link = hk
        v = hk.get("value")
    return kw, v, link


def _table_driven(loop: ast.For) -> bool:
    """A _fill_cell call inside a loop nested in the row loop whose column argument is not a constant (cells written from a table of (value, style) pairs)."""
    for inner in ast.walk(loop):
        if inner is loop or not isinstance(inner, (ast.For, ast.While)):
            continue
        for c in ast.walk(inner):
            if isinstance(c, ast.Call) and isinstance(c.func, ast.Attribute) and c.func.attr == "_fill_cell" and len(c.args) >= 4 and not isinstance(c.args[2], ast.Constant) and not isinstance(c.args[3], ast.Constant):
                tgt = {n.id for n in ast.walk(inner.target) if isinstance(n, ast.Name)} if isinstance(inner, ast.For) else set()
                if any(isinstance(n, ast.Name) and n.id in tgt for n in ast.walk(c.args[2])):
                    return True
    return False


def check_writer(rep: Report, fr: FullReport, name: str, rule_cols: str, rule_rows: str) -> None:
    spec = SPECS[name]
    fi, loop = fr.writer(name)
    rep.analysed(fi)
    var = spec["var"]
    paths = fr.run_loop(fi, loop, var)
    labels = fr.header(spec["header"])
    # header offset = column_index passed to _fill_header in this writer
    offset = None
    for n in ast.walk(fi.node):
        if isinstance(n, ast.Call) and isinstance(n.func, ast.Attribute) and n.func.attr == "_fill_header":
            args = list(n.args)
            if len(args) >= 6 and isinstance(args[5], ast.Constant):
                offset = args[5].value
            hdr2 = unparse(args[2]) if len(args) > 2 else ""
            if f"__{spec['header']}_header_names_row_2" not in hdr2:
                rep.violation(rule_cols, fi.module, fi.qualname, f"{name}: header lists", f"{name} fills its header from {hdr2}; expected the '{spec['header']}' header lists", loc(n))
    if name == "__generate_yearly_gain_loss_summary":
        offset = 0  # its header is written by generate() with column_index 0
    if offset is None:
        raise AnalysisError(f"{fi.qualname}: _fill_header call with a constant column offset not found")
    # occurrence-indexed labels for duplicates
    seen: Dict[str, int] = {}
    col_label: Dict[int, str] = {}
    for i, lab in enumerate(labels):
        seen[lab] = seen.get(lab, 0) + 1
        col_label[i + offset] = lab if seen[lab] == 1 else f"{lab}#{seen[lab]}"
    missing_spec = [l for l in col_label.values() if l not in spec["cols"]]
    if missing_spec:
        rep.note(f"{name}: header labels without a spec row (new column?): {missing_spec}")

    # ---- rows: exactly one advance, after the writes, on every path; no early exit
    for p in paths:
        if p.exit == "raise":
            continue
        rep.check(p.exit == "fall", rule_rows, fi.module, fi.qualname, f"{name}: iteration completes normally", f"a path through the row loop of {name} leaves by '{p.exit}' at {loc(p.exit_node) if p.exit_node else '?'}: that entry (or all later ones) gets no row", loc(loop))
        fin = p.vars.get("row_index", (None,))[0]
        want = mk_add([("sym", "row_index"), ("const", 1)])
        rep.check(fin is not None and tkey(fin) == tkey(want), rule_rows, fi.module, fi.qualname, f"{name}: row advances by exactly one per entry", f"after one iteration of {name} the row is {show(fin) if fin else None}; expected row_index + 1 (rows would overlap or leave gaps)", loc(loop))
        cells = _fill_calls(p)
        rows_ok = all(dict(c[1][2]).get("row_index") == ("sym", "row_index") for c in cells)
        if not cells and _table_driven(loop):
            rep.defer_error(f"{loc(loop)}: {name} writes its cells from a nested loop (table-driven row): the row / column rules read one _fill_cell call per column and do not decide this shape")
            continue
        rep.check(rows_ok and bool(cells), rule_rows, fi.module, fi.qualname, f"{name}: all cells of an entry are written on its own row", f"some cell of {name} is written at a row other than the entry's own (before the advance)", loc(loop))
    from ..stale import check_rows_fresh

    check_rows_fresh(rep, rule_rows, fr.norm, fi, loop, name)
    # collection iterated
    it = fr.norm.term(loop.iter, _iter_ctx(fr, fi))
    want_it = _coll_term(fr, spec["coll"], fi)
    rep.check(tkey(it) == tkey(want_it), rule_rows, fi.module, fi.qualname, f"{name}: iterates {spec['coll']}", f"{name} iterates {show(it)[:200]}; expected {spec['coll']} ({show(want_it)[:160]}) through its own iterator", loc(loop))

    # ---- columns
    checked = set()
    for p in paths:
        if p.exit != "fall":
            continue
        for c in _fill_calls(p):
            kw, v, link = _value_of(c[1], spec.get("hyper"))
            col = kw.get("column_index")
            if col is None or col[0] != "const":
                if name == "__generate_gain_loss_detail" and v == ("const", ""):
                    continue  # blank filler cells of the lot columns written in a range loop
                continue
            ci = col[1]
            lab = col_label.get(ci)
            if lab is None:
                if v == ("const", ""):
                    continue  # blank cell outside the header block
                rep.violation(rule_cols, fi.module, fi.qualname, f"{name}: column {ci} has a header", f"{name} writes {show(v)[:120] if v else None} into column {ci}, which has no header label", loc(c[2]))
                continue
            sp = spec["cols"].get(lab)
            if sp is None:
                continue
            side = None
            if isinstance(sp, tuple) and sp[0] in ("E", "L"):
                side, sp = sp[0], sp[1]
            ident = (lab, tkey(v))
            if ident in checked:
                continue
            checked.add(ident)
            if isinstance(sp, tuple) and sp[0] == "mentions":
                want = fr.expected(sp[1], var)
                ok = v is not None and (v == ("const", "") or any(tkey(s) == tkey(want) for s in _tuples(v)))
                rep.check(ok, rule_cols, fi.module, fi.qualname, f"{name}: '{lab}' <- {sp[1]}", f"column '{lab}' of {name} receives {show(v)[:200] if v else None}; expected a value derived from {sp[1]}", loc(c[2]))
                continue
            want = fr.expected(sp, var)
            if side == "L" and v == ("const", ""):
                continue  # income rows: blank lot cells
            ok = v is not None and tkey(v) == tkey(want)
            rep.check(
                ok,
                rule_cols,
                fi.module,
                fi.qualname,
                f"{name}: '{lab}' <- {sp[:70]}",
                f"column '{lab}' (index {ci}) of {name} receives {show(v)[:260] if v else None}; its header says it must show {sp[:160]}",
                loc(c[2]),
            )
            if spec.get("hyper") == "transaction" and side is not None:
                tx = (link or {}).get("transaction")
                want_tx = fr.expected("gl.taxable_event" if side == "E" else "gl.acquired_lot", var)
                rep.check(link is not None and tx is not None and tkey(tx) == tkey(want_tx), rule_cols, fi.module, fi.qualname, f"{name}: '{lab}' links to its own {'event' if side == 'E' else 'lot'}", f"the hyperlink of column '{lab}' targets {show(tx) if tx else 'nothing'}; expected {'gl.taxable_event' if side == 'E' else 'gl.acquired_lot'}", loc(c[2]))
            if spec.get("hyper") == "summary":
                ok_l = link is not None and link.get("asset") == ("sym", "asset") and tkey(link.get("year", ("unk", ""))) == tkey(fr.expected("y.year", var))
                rep.check(ok_l, rule_cols, fi.module, fi.qualname, f"{name}: '{lab}' links to (asset, line's own year)", f"the summary hyperlink of column '{lab}' is keyed by ({show(link.get('asset')) if link else None}, {show(link.get('year')) if link else None}); expected (asset, y.year)", loc(c[2]))
    if _table_driven(loop):
        rep.defer_error(f"{loc(loop)}: {name} writes cells whose column is computed in a nested loop: column <-> header agreement not decided for this shape")
        return
    want_labels = set(spec["cols"])
    have = {l for l, _ in checked}
    for lab in sorted(want_labels - have):
        if lab in col_label.values():
            rep.violation(rule_cols, fi.module, fi.qualname, f"{name}: '{lab}' is written", f"no cell write for the column labelled '{lab}' was found in {name}: the column would stay empty", loc(loop))


def _iter_ctx(fr: FullReport, fi) -> Ctx:
    ctx = fr.norm.ctx_for(fi, subst_locals=True)
    for p in fi.param_names:
        if p == "computed_data":
            ctx.vars[p] = (("sym", "cd"), ("cls", "rp2.computed_data:ComputedData"))
    return ctx


def _coll_term(fr: FullReport, coll: str, fi) -> Any:
    if coll == "ylist":
        return ("sym", "yearly_gain_loss_list")
    if coll == "bset":
        return ("sym", "balance_set")
    return fr.norm.term(ast.parse(coll, mode="eval").body, fr.spec_ctx(("t", "rp2.abstract_transaction:AbstractTransaction")))


def _tuples(t: Any):
    if isinstance(t, tuple):
        yield t
        for x in t:
            if isinstance(x, tuple):
                yield from _tuples(x)


def check_summary_writers(rep: Report, rule: str) -> None:
    fr = FullReport()
    rep.rule(rule, "the two summary tables are written from yearly_gain_loss_list, one row per line, each column from the field its header names", floor=16)
    for name in ("__generate_gain_loss_summary", "__generate_yearly_gain_loss_summary"):
        check_writer(rep, fr, name, rule, rule)
    _check_list_args(rep, fr, rule)


def _check_list_args(rep: Report, fr: FullReport, rule: str) -> None:
    """__generate_asset hands computed_data.yearly_gain_loss_list to both summary writers."""
    fi = fr.prog.func(FR, f"{GEN}.__generate_asset")
    ctx = fr.norm.ctx_for(fi, subst_locals=True)
    ctx.vars["computed_data"] = (("sym", "cd"), ("cls", "rp2.computed_data:ComputedData"))
    want = fr.expected("cd.yearly_gain_loss_list", ("y", "rp2.computed_data:YearlyGainLoss"))
    for name in ("__generate_gain_loss_summary", "__generate_yearly_gain_loss_summary"):
        calls = [n for n in ast.walk(fi.node) if isinstance(n, ast.Call) and isinstance(n.func, ast.Attribute) and n.func.attr == name]
        if len(calls) != 1:
            rep.violation(rule, fi.module, fi.qualname, f"{name} called once per asset", f"__generate_asset calls {name} {len(calls)} times; expected once per asset", loc(fi.node))
            continue
        callee = fr.prog.func(FR, f"{GEN}.{name}")
        params = callee.param_names[1:]
        bound = {params[i]: a for i, a in enumerate(calls[0].args) if i < len(params)}
        bound.update({k.arg: k.value for k in calls[0].keywords if k.arg})
        arg = bound.get("yearly_gain_loss_list")
        got = fr.norm.term(arg, ctx) if arg is not None else None
        rep.check(got is not None and tkey(got) == tkey(want), rule, fi.module, fi.qualname, f"{name} receives computed_data.yearly_gain_loss_list", f"{name} is handed {show(got)[:160] if got else None}; expected this asset's computed_data.yearly_gain_loss_list", loc(calls[0]))


def run(rep: Report, tier: str) -> None:
    fr = FullReport()
    m, prog, norm = fr.m, fr.prog, fr.norm
    ra = rep.rule("C13.a", "one row per entry in every table: cells at the current row, exactly one advance per path, intended collection, all writers called per asset", floor=40)
    rb = rep.rule("C13.b", "column <-> header label <-> computed field for all seven tables", floor=85)
    for name in SPECS:
        check_writer(rep, fr, name, rb, ra)
    _check_list_args(rep, fr, ra)
    _check_generate_asset(rep, fr, ra)
    _check_running_sums(rep, fr)
    _check_float_sink(rep, fr)
    _check_legend(rep, fr)
    # the window shown: the table writers iterate the filtered sets through EntrySetIterator, which must apply the window on the entry's own calendar date
    from . import c10, c19

    rw = rep.rule("C13.f", "rows shown are exactly the window's: the entry-set iterator applies both bounds on the entry's own calendar date", floor=2)
    c10.check_iterator_window(rep, rw, m, "tables would show transactions outside the window or hide ones inside it")
    _check_average_price(rep, fr)
    from . import c10 as _c10

    rj = rep.rule("C13.j", "'k/n' labels count the fractions of the window: the numbering tables are per copy (rebound, not cleared in place) and filled up to the copy's to-date", floor=4)
    _c10.check_per_copy_state(rep, rj)
    _c10.check_numbering_from_history_start(rep, rj)
    # the Account Balances table shows the replayed balances: the replay's own obligations (flows per class, identity final = acquired + received - sent,
    # one line per account, time order up to the to-date) are C07's; they are restated here because the table's figures are only as right as the replay
    from . import c07

    rh = rep.rule("C13.h", "the account balances shown are the replayed flows (C07.a-d: per-class effects, identity, one line per account, cut at the to-date)", floor=20)
    sub = Report("C07", tier)
    c07.run(sub, tier)
    rep.absorb(sub, rh, ("C07.a", "C07.b", "C07.c", "C07.d"), "balance replay")
    # the two summary tables print yearly_gain_loss_list: its own obligations (sums per key over every fraction up to the to-date, cut on the event's own
    # date, no order-sensitive grouping) are C06's; restated because the tables are only as right as the list
    from . import c06

    rk = rep.rule("C13.k", "the yearly lines shown are the sums of the fractions shown (C06.b, C06.c, C06.d, C06.g restated)", floor=10)
    sub6 = Report("C06", tier)
    c06.run(sub6, tier)
    rep.absorb(sub6, rk, ("C06.b", "C06.c", "C06.d", "C06.g"), "yearly lines")
    # numbers inside link formulas are the computed values, unformatted
    rg = rep.rule("C13.g", "hyperlinked numeric cells carry the computed value unformatted inside the formula", floor=4, follows_calls=True)
    saved = set(norm.opaque_funcs)
    norm.opaque_funcs -= {HYPER_T, HYPER_S}
    try:
        c19._check_formula_builder(rep, rg, fr, prog.func(FR, "Generator.__get_hyperlinked_transaction_value"), "transaction")
        c19._check_formula_builder(rep, rg, fr, prog.func(FR, "Generator.__get_hyperlinked_summary_value"), "summary")
    finally:
        norm.opaque_funcs.clear()
        norm.opaque_funcs |= saved | {HYPER_T, HYPER_S}


def _check_generate_asset(rep: Report, fr: FullReport, rule: str) -> None:
    prog, norm = fr.prog, fr.norm
    fi = prog.func(FR, f"{GEN}.__generate_asset")
    rep.analysed(fi)
    order = []
    for n in ast.walk(fi.node):
        if isinstance(n, ast.Call) and isinstance(n.func, ast.Attribute) and n.func.attr.startswith("__generate_") and isinstance(n.func.value, ast.Name) and n.func.value.id == "self":
            order.append((n.lineno, n.func.attr, n))
    order.sort()
    called = [a for _, a, _ in order]
    for name in SPECS:
        rep.check(called.count(name) == 1, rule, fi.module, fi.qualname, f"__generate_asset calls {name} exactly once", f"__generate_asset calls {name} {called.count(name)} times; every table must be written once per asset", loc(fi.node))
    conds = [n for _, _, n in order if any(isinstance(a, (ast.If, ast.For, ast.While, ast.Try)) for a in ancestors(n) if a is not fi.node and not isinstance(a, ast.ClassDef))]
    rep.check(not conds, rule, fi.module, fi.qualname, "table writers are called unconditionally", f"writer calls under a condition/loop/try: {[short(c, 60) for c in conds]}", loc(fi.node))
    # rows threaded: each writer on the same sheet starts at or after the row the previous one returned (+ gap >= 0)
    se = SymExec(norm, norm.ctx_for(fi, subst_locals=False))
    states = [p for p in se.run(fi.body) if p.exit in ("return", "fall")]
    threaded = True
    detail = ""
    if len(states) >= 1:
        for p in states:
            prev_call = {}
            for e in p.events:
                if e[0] == "local" and e[1] == "row_index" and e[2][0] == "call" and "__generate_" in e[2][1]:
                    args = dict(e[2][2])
                    sheet = tkey(args.get("sheet", ("unk", "")))
                    start = args.get("row_index")
                    if sheet in prev_call:
                        # start must be previous return + non-negative constant
                        prev = prev_call[sheet]
                        ok = start is not None and (tkey(start) == tkey(prev) or (start[0] == "add" and any(tkey(x) == tkey(prev) for x in start[1]) and all(x[0] == "const" and x[1] >= 0 for x in start[1] if tkey(x) != tkey(prev))))
                        if not ok:
                            threaded = False
                            detail = f"{e[2][1].split('.')[-1]} starts at {show(start)[:120] if start else None}"
                    else:
                        if start != ("const", 0):
                            threaded = False
                            detail = f"first table on a sheet starts at {show(start) if start else None}"
                    prev_call[sheet] = e[2]
    rep.check(threaded, rule, fi.module, fi.qualname, "tables on a sheet start at the row returned by the previous table (+ gap)", f"row threading between the tables of a sheet is broken: {detail} (tables would overwrite each other)", loc(fi.node))
    gen = prog.func(FR, f"{GEN}.generate")
    rep.analysed(gen)
    loops = [n for n in ast.walk(gen.node) if isinstance(n, ast.For) and "asset_to_computed_data.items()" in unparse(n.iter)]
    ok = len(loops) == 1 and any(isinstance(c, ast.Call) and isinstance(c.func, ast.Attribute) and c.func.attr == "__generate_asset" for c in ast.walk(loops[0]))
    uncond = ok and not any(isinstance(a, (ast.If, ast.Try)) for c in ast.walk(loops[0]) if isinstance(c, ast.Call) and isinstance(c.func, ast.Attribute) and c.func.attr == "__generate_asset" for a in ancestors(c) if a is not loops[0] and a is not gen.node and not isinstance(a, (ast.ClassDef, ast.For, ast.Assign)))
    rep.check(ok and uncond, rule, gen.module, gen.qualname, "generate() writes every asset of asset_to_computed_data", "generate() does not call __generate_asset unconditionally for every item of asset_to_computed_data", loc(gen.node))
    saves = [n for n in ast.walk(gen.node) if isinstance(n, ast.Call) and isinstance(n.func, ast.Attribute) and n.func.attr == "save"]
    rep.check(len(saves) == 1 and (not loops or saves[0].lineno > loops[0].end_lineno), rule, gen.module, gen.qualname, "the document is saved once, after all assets", "the output document is not saved exactly once after the per-asset loop", loc(gen.node))
    # sheet sizes cover the row counts: MIN_ROWS + the counts of the collections written to that sheet
    for helper, colls in (("__get_number_of_rows_in_transaction_sheet", ["in_transaction_set", "out_transaction_set", "intra_transaction_set"]), ("__get_number_of_rows_in_output_sheet", ["yearly_gain_loss_list", "balance_set", "gain_loss_set"])):
        h = prog.func(FR, f"{GEN}.{helper}")
        t = norm.inline(h, ("sym", "self"), {"computed_data": (("sym", "cd"), ("cls", "rp2.computed_data:ComputedData"))}, Ctx(FR, fr.gen))
        txt = show(t)
        ok = all(_mentions_coll(t, c) for c in colls)
        rep.check(ok, rule, h.module, h.qualname, f"{helper} counts every collection written to the sheet", f"{helper} normalises to {txt[:300]}; it must add the sizes of {colls} (a sheet too small loses the last rows)", loc(h.node))


def _mentions_coll(t, coll: str) -> bool:
    key = {"in_transaction_set": "__filtered_in_transaction_set", "out_transaction_set": "__filtered_out_transaction_set", "intra_transaction_set": "__filtered_intra_transaction_set", "yearly_gain_loss_list": "__filtered_yearly_gain_loss_list", "balance_set": "__filtered_balance_set", "gain_loss_set": "__filtered_gain_loss_set"}[coll]
    return any(s[0] == "fld" and s[2].endswith(key) for s in subterms(t))


def _check_running_sums(rep: Report, fr: FullReport) -> None:
    """C13.c: running sums and sold percentage in ComputedData.__init__ are prefix sums over the intended sets, stored per entry."""
    prog, norm = fr.prog, fr.norm
    r = rep.rule("C13.c", "running sums: prefix sums in set order stored per entry; sold percentage: sum of fraction percentages per lot", floor=7)
    fi = prog.func("rp2.computed_data", "ComputedData.__init__")
    rep.analysed(fi)
    ctx = norm.ctx_for(fi, subst_locals=False)
    # (dictionary field, source set expression, summed field) -- from the statement: running sums of crypto received / sent / fees / fraction amounts
    spec = {
        "ComputedData.__crypto_in_running_sum": ("InputData.__unfiltered_in_transaction_set", "InTransaction.__crypto_in", "rp2.in_transaction:InTransaction"),
        "ComputedData.__crypto_in_fee_running_sum": ("InputData.__unfiltered_in_transaction_set", "InTransaction.__crypto_fee", "rp2.in_transaction:InTransaction"),
        "ComputedData.__crypto_out_running_sum": ("InputData.__unfiltered_out_transaction_set", "OutTransaction.__crypto_out_no_fee", "rp2.out_transaction:OutTransaction"),
        "ComputedData.__crypto_out_fee_running_sum": ("InputData.__unfiltered_out_transaction_set", "OutTransaction.__crypto_fee", "rp2.out_transaction:OutTransaction"),
        "ComputedData.__crypto_intra_fee_running_sum": ("InputData.__unfiltered_intra_transaction_set", "IntraTransaction.__crypto_fee", "rp2.intra_transaction:IntraTransaction"),
        "ComputedData.__crypto_gain_loss_running_sum": ("sym:unfiltered_gain_loss_set", "GainLoss.__crypto_amount", "rp2.gain_loss:GainLoss"),
    }
    found = set()
    body = fi.node.body
    for idx, stmt in enumerate(body):
        if not isinstance(stmt, ast.For) or not isinstance(stmt.target, ast.Name):
            continue
        it = norm.term(stmt.iter, ctx)
        se = SymExec(norm, ctx)
        init = SPath()
        init.vars[stmt.target.id] = (("sym", "e"), ("cls", "rp2.abstract_entry:AbstractEntry"))
        paths = se.run(stmt.body, init)
        for p in paths:
            for st in p.stores():
                cont = st[1]
                if cont[0] != "fld" or cont[2] not in spec:
                    continue
                src, summed, cls = spec[cont[2]]
                found.add(cont[2])
                it_ok = (src.startswith("sym:") and it == ("sym", src[4:])) or any(s[0] == "fld" and s[2] == src for s in subterms(it))
                rep.check(it_ok, r, fi.module, fi.qualname, f"{cont[2].split('.__')[1]} iterates {src.split('__')[-1]}", f"the loop filling {cont[2]} iterates {show(it)[:160]}; expected {src} (running sums reflect all history, in time order)", loc(stmt))
                key_ok = st[2] == ("sym", "e")
                acc = st[3]
                want_field = ("fld", ("sym", "e"), summed)
                # value = accumulator local: (initial/previous value) + entry's field
                acc_ok = acc[0] == "add" and any(tkey(x) == tkey(want_field) for x in acc[1]) and len(acc[1]) == 2 and any(x[0] == "sym" for x in acc[1])
                first_iter_ok = acc_ok
                if not acc_ok and tkey(acc) == tkey(want_field):
                    first_iter_ok = _accumulator_reset_to_zero(fi, stmt, st)
                rep.check(key_ok and (acc_ok or first_iter_ok), r, fi.module, fi.qualname, f"{cont[2].split('.__')[1]}[entry] = running sum + entry.{summed.split('.__')[1]}", f"{short(st[5], 100)} stores {show(acc)[:200]} under key {show(st[2])}; expected the accumulator plus this entry's {summed} stored under the entry itself", loc(st[5]))
                if acc_ok:
                    accname = [x[1] for x in acc[1] if x[0] == "sym"][0].split("@")[0]
                    rep.check(_reset_before(fi, stmt, accname), r, fi.module, fi.qualname, f"accumulator '{accname}' is reset to ZERO before the loop over {src.split('__')[-1]}", f"the accumulator '{accname}' is not reset to ZERO immediately before this loop: the running sum would continue from another table's total", loc(stmt))
    for k in sorted(set(spec) - found):
        rep.violation(r, fi.module, fi.qualname, f"{k} is filled", f"no loop in ComputedData.__init__ fills {k}", loc(fi.node))
    # sold percentage
    pct_ok = False
    for stmt in body:
        if not isinstance(stmt, ast.For) or not isinstance(stmt.target, ast.Name):
            continue
        se = SymExec(norm, ctx)
        init = SPath()
        init.vars[stmt.target.id] = (("sym", "gl"), ("cls", "rp2.gain_loss:GainLoss"))
        for p in se.run(stmt.body, init):
            for st in p.stores():
                if st[1][0] == "fld" and st[1][2] == "ComputedData.__in_lot_sold_percentage":
                    from ..symexec import delta_of

                    lot = ("fld", ("sym", "gl"), "GainLoss.__acquired_lot")
                    gl_cls = prog.cls("rp2.gain_loss", "GainLoss")
                    want = norm.inline(prog.func(gl_cls.module, "GainLoss.acquired_lot_fraction_percentage"), ("sym", "gl"), {}, Ctx(gl_cls.module, gl_cls))
                    d = delta_of(st[3], st[1], st[2])
                    ok = tkey(st[2]) == tkey(lot) and d is not None and tkey(d) == tkey(want) and (st[4] is None or (st[4][0] == "const" and st[4][1] == 0))
                    pct_ok = True
                    rep.check(ok, r, fi.module, fi.qualname, "sold%[gl.acquired_lot] += gl.acquired_lot_fraction_percentage", f"{short(st[5], 100)} updates the sold percentage by {show(d)[:200] if d else 'a non-additive value'} under key {show(st[2])[:80]}; expected += amount / lot.crypto_in under the fraction's own lot, from ZERO", loc(st[5]))
    if not pct_ok:
        rep.violation(r, fi.module, fi.qualname, "sold percentage is accumulated", "no loop accumulates ComputedData.__in_lot_sold_percentage", loc(fi.node))


def _reset_before(fi, loop: ast.For, name: str) -> bool:
    body = fi.node.body
    i = body.index(loop)
    for stmt in reversed(body[:i]):
        if isinstance(stmt, ast.For):
            return False
        if isinstance(stmt, ast.Assign) and any(isinstance(t, ast.Name) and t.id == name for t in stmt.targets):
            return unparse(stmt.value) in ("ZERO", "RP2Decimal('0')", "RP2Decimal(0)")
    return False


def _accumulator_reset_to_zero(fi, loop, st) -> bool:
    return False


def _check_float_sink(rep: Report, fr: FullReport) -> None:
    r = rep.rule("C13.d", "RP2Decimal -> float happens only inside _fill_cell (single sink) in the report generators", floor=1)
    prog = fr.prog
    n = 0
    for mod in prog.package.modules.values():
        if not mod.name.startswith("rp2.plugin.report"):
            continue
        for node in ast.walk(mod.tree):
            if isinstance(node, ast.Call) and unparse(node.func) == "float":
                from ..loader import enclosing_function

                f = enclosing_function(node)
                in_sink = f is not None and f.name == "_fill_cell"
                in_fstr = any(isinstance(a, ast.FormattedValue) for a in ancestors(node))
                n += 1
                rep.check(in_sink or in_fstr, r, mod.name, f.name if f else "<module>", f"float() at the cell sink: {short(node, 50)}", f"{short(node)} converts to float outside _fill_cell: cells must show float(computed value), not a value that went through float arithmetic", loc(node))
    from ..engine import check_cell_sink

    check_cell_sink(rep, r)
    sink = prog.func("rp2.plugin.report.abstract_ods_generator", "AbstractODSGenerator._fill_cell")
    txt = unparse(sink.node)
    # (how the sink converts is decided on its paths by check_cell_sink above: value or float(value) under the RP2Decimal test, written once)


def _check_legend(rep: Report, fr: FullReport) -> None:
    r = rep.rule("C13.e", "Legend states the method table and the from/to dates actually used for the computation", floor=5)
    prog, norm = fr.prog, fr.norm
    main = prog.func("rp2.rp2_main", "_rp2_main_internal")
    rep.analysed(main)
    # the dict iterated to build the engine is the one handed to the generators
    loops = [n for n in ast.walk(main.node) if isinstance(n, ast.For) and "insert_node" in unparse(n)]
    gcalls = [n for n in ast.walk(main.node) if isinstance(n, ast.Call) and isinstance(n.func, ast.Name) and n.func.id == "_find_and_run_report_generators"]
    if len(loops) != 1 or len(gcalls) != 1:
        raise AnalysisError("_rp2_main_internal: engine-building loop or generator call not found")
    it = unparse(loops[0].iter)
    from ..loader import call_args

    kw = {p: unparse(v) for p, v in call_args(gcalls[0], prog.func("rp2.rp2_main", "_find_and_run_report_generators").param_names).items()}
    same = it == f"{kw.get('years_2_accounting_method_names')}.items()"
    reassigned = [n for n in ast.walk(main.node) if isinstance(n, (ast.Assign, ast.AnnAssign)) and n.lineno > loops[0].lineno and n.lineno < gcalls[0].lineno and any(isinstance(t, ast.Name) and t.id == kw.get("years_2_accounting_method_names") for t in (n.targets if isinstance(n, ast.Assign) else [n.target]))]
    rep.check(same and not reassigned, r, main.module, main.qualname, "generators receive the method table the engine was built from", f"the engine is built from {it} but the generators receive {kw.get('years_2_accounting_method_names')} (reassigned in between: {bool(reassigned)}): the Legend could state another method than the one used", loc(gcalls[0]))
    # the two bounds reach generate() either forwarded as arguments from here, or read by the runner from the configuration object it is handed
    frg_ = prog.func("rp2.rp2_main", "_find_and_run_report_generators")
    gens_ = [n for n in ast.walk(frg_.node) if isinstance(n, ast.Call) and isinstance(n.func, ast.Attribute) and n.func.attr == "generate"]
    gkw_ = {p_: unparse(v) for p_, v in call_args(gens_[0], prog.func("rp2.abstract_report_generator", "AbstractReportGenerator.generate").param_names[1:]).items()} if len(gens_) == 1 else {}

    def _bound(p_: str) -> str:
        v = gkw_.get(p_)
        if v == p_ and p_ in frg_.param_names:
            return kw.get(p_) or "?"
        if v == f"configuration.{p_}" and "configuration" in frg_.param_names:
            return f"{kw.get('configuration')}.{p_}"
        return v or "?"

    bounds = {p_: _bound(p_) for p_ in ("from_date", "to_date")}
    rep.check(bounds == {"from_date": "configuration.from_date", "to_date": "configuration.to_date"}, r, main.module, main.qualname, "generators receive configuration.from_date / to_date", f"generators receive from_date={bounds['from_date']}, to_date={bounds['to_date']}; expected the configuration's own bounds, which compute_tax hands to ComputedData", loc(gcalls[0]))
    te = prog.func("rp2.tax_engine", "compute_tax")
    rets = [n for n in ast.walk(te.node) if isinstance(n, ast.Return) and n.value is not None]
    t = norm.term(rets[0].value, norm.ctx_for(te, subst_locals=False)) if rets else ("unk", "")
    kwd = dict(t[2]) if t[0] == "new" else {}
    cfg = ("sym", "configuration")
    ok = kwd.get("from_date") == ("fld", cfg, "Configuration.__from_date") and kwd.get("to_date") == ("fld", cfg, "Configuration.__to_date")
    rep.check(ok, r, te.module, te.qualname, "ComputedData is built with configuration.from_date / to_date", f"compute_tax builds ComputedData with from_date={show(kwd.get('from_date')) if kwd.get('from_date') else None}, to_date={show(kwd.get('to_date')) if kwd.get('to_date') else None}", loc(te.node))
    # forwarding through _find_and_run_report_generators and generate -> _initialize_output_file
    frg = prog.func("rp2.rp2_main", "_find_and_run_report_generators")
    gens = [n for n in ast.walk(frg.node) if isinstance(n, ast.Call) and isinstance(n.func, ast.Attribute) and n.func.attr == "generate"]
    gen_params = prog.func("rp2.abstract_report_generator", "AbstractReportGenerator.generate").param_names[1:]
    ok = len(gens) == 1 and all({p_: unparse(v) for p_, v in call_args(gens[0], gen_params).items()}.get(p) == p for p in ("years_2_accounting_method_names", "asset_to_computed_data", "country"))
    rep.check(ok, r, frg.module, frg.qualname, "generate(...) receives the same objects, name-aligned", "generator.generate is not called with years_2_accounting_method_names / asset_to_computed_data / country forwarded under their own names", loc(frg.node))
    for mod in prog.package.modules.values():
        if not mod.name.startswith("rp2.plugin.report") or mod.name.endswith("abstract_ods_generator"):
            continue
        for n in ast.walk(mod.tree):
            if isinstance(n, ast.Call) and isinstance(n.func, ast.Attribute) and n.func.attr == "_initialize_output_file":
                k2 = {p_: unparse(v) for p_, v in call_args(n, prog.func("rp2.plugin.report.abstract_ods_generator", "AbstractODSGenerator._initialize_output_file").param_names[1:]).items()}
                ok = all(k2.get(p) == p for p in ("years_2_accounting_method_names", "from_date", "to_date"))
                rep.check(ok, r, mod.name, "Generator.generate", f"{mod.name.split('.')[-1]}: legend inputs forwarded unchanged", f"{mod.name}: _initialize_output_file receives {[(p, k2.get(p)) for p in ('years_2_accounting_method_names', 'from_date', 'to_date')]}; expected the generator's own arguments", loc(n))
    init = prog.func("rp2.plugin.report.abstract_ods_generator", "AbstractODSGenerator._initialize_output_file")
    txt = unparse(init.node)
    # canonical polarity of conditional expressions (sa/canon.py): `d if d != MIN_DATE else "non-specified"` is read as `"non-specified" if d == MIN_DATE else d`
    ok = "if from_date == MIN_DATE else from_date" in txt and "if to_date == MAX_DATE else to_date" in txt and "years_2_accounting_method_names" in txt and "method.upper()" in txt
    rep.check(ok, r, init.module, init.qualname, "legend cells are filled from the method table and the two dates", "_initialize_output_file no longer fills the Accounting Method / From / To cells from years_2_accounting_method_names, from_date and to_date", loc(init.node))


def _check_average_price(rep: Report, fr: FullReport) -> None:
    """C13.i: 'average price' = sum of fiat_in_with_fee / sum of crypto_in over the lots acquired up to the to-date; the cell shows that value."""
    prog, norm = fr.prog, fr.norm
    r = rep.rule("C13.i", "average price = sum(fiat_in_with_fee) / sum(crypto_in) over the unfiltered in-set up to the to-date; the report cell shows computed_data.price_per_unit", floor=6)
    fi = prog.func("rp2.computed_data", "ComputedData._compute_price_per_unit")
    rep.analysed(fi)
    loops = [n for n in fi.node.body if isinstance(n, ast.For) and isinstance(n.target, ast.Name)]
    if len(loops) != 1:
        raise AnalysisError("ComputedData._compute_price_per_unit: accumulation loop not found")
    loop = loops[0]
    ctx = norm.ctx_for(fi, subst_locals=False)
    it = norm.term(loop.iter, ctx)
    rep.check(it == ("sym", fi.param_names[0]) and "unfiltered" in fi.param_names[0], r, fi.module, fi.qualname, "iterates the unfiltered in-transaction set", f"the average-price loop iterates {show(it)[:120]}; expected the unfiltered in-transaction set parameter (the average covers everything acquired up to the to-date, whatever the from-date)", loc(loop))
    se = SymExec(norm, ctx)
    init = SPath()
    t = ("sym", "t")
    init.vars[loop.target.id] = (t, ("cls", "rp2.in_transaction:InTransaction"))
    assigned = sorted({n.id for st in loop.body for n in ast.walk(st) if isinstance(n, ast.Name) and isinstance(n.ctx, ast.Store)} - {loop.target.id})
    for v in assigned:
        init.vars[v] = (("sym", f"{v}@head"), se._declared.get(v, ANY))
    accs = {}
    for p in se.run(loop.body, init):
        if p.exit != "fall":
            continue
        extra = [c for c in p.conds() if not (c[0] == "cmp" and "to_date" in show(c))]
        rep.check(not extra, r, fi.module, fi.qualname, "every lot up to the to-date is counted", f"a lot is counted only under {[show(c)[:100] for c in extra]}", loc(loop))
        for v in assigned:
            fv = p.vars.get(v, (None,))[0]
            head = ("sym", f"{v}@head")
            if fv is not None and fv[0] == "add" and head in fv[1]:
                accs[v] = mk_add([x for x in fv[1] if x != head])
    want_num, want_den = ("fld", t, "InTransaction.__fiat_in_with_fee"), ("fld", t, "InTransaction.__crypto_in")
    num = [v for v, d in accs.items() if tkey(d) == tkey(want_num)]
    den = [v for v, d in accs.items() if tkey(d) == tkey(want_den)]
    rep.check(len(num) == 1 and len(den) == 1, r, fi.module, fi.qualname, "accumulators: sum of fiat_in_with_fee and sum of crypto_in", f"the loop accumulates {dict((k, show(v)[:80]) for k, v in accs.items())}; expected one running sum of each lot's fiat_in_with_fee (cost including fees) and one of crypto_in", loc(loop))
    rets = [n for n in ast.walk(fi.node) if isinstance(n, ast.Return) and n.value is not None]
    ok = False
    if len(rets) == 1 and num and den:
        v = rets[0].value
        q = next((x for x in (v.body, v.orelse) if isinstance(x, ast.BinOp)), v.body) if isinstance(v, ast.IfExp) else v  # either branch: the loader puts conditional expressions in positive polarity
        ok = isinstance(q, ast.BinOp) and isinstance(q.op, ast.Div) and unparse(q.left) == num[0] and unparse(q.right) == den[0]
        for name in (num[0], den[0]):
            inits = [n for n in fi.node.body[: fi.node.body.index(loop)] if isinstance(n, (ast.Assign, ast.AnnAssign)) and unparse(n.targets[0] if isinstance(n, ast.Assign) else n.target) == name]
            ok = ok and len(inits) == 1 and unparse(inits[0].value) == "ZERO"
    rep.check(ok, r, fi.module, fi.qualname, "average price = <sum of cost> / <sum of amount>, both from ZERO", f"_compute_price_per_unit returns {short(rets[0].value, 120) if rets else None}; expected the fiat running sum divided by the crypto running sum, both starting from ZERO", loc(fi.node))
    # stored, exposed and written
    cd = prog.cls("rp2.computed_data", "ComputedData")
    defs = fr.m.field_defs(cd).get("ComputedData.__filtered_price_per_unit", [])
    ok = len(defs) == 1 and defs[0][1][0] == "call" and defs[0][1][1].endswith("_compute_price_per_unit") and dict(defs[0][1][2]).get("to_date") == ("sym", "to_date") and "__unfiltered_in_transaction_set" in show(dict(defs[0][1][2]).get(fi.param_names[0], ("unk", "")))
    rep.check(ok, r, cd.module, "ComputedData.__init__", "price_per_unit is computed from input_data.unfiltered_in_transaction_set and this ComputedData's to_date", f"ComputedData stores {[show(d[1])[:160] for d in defs]} as its average price", loc(cd.node))
    getter = prog.func("rp2.computed_data", "ComputedData.price_per_unit")
    gt = norm.inline(getter, ("sym", "cd"), {}, Ctx(cd.module, cd))
    rep.check(gt == ("fld", ("sym", "cd"), "ComputedData.__filtered_price_per_unit"), r, cd.module, getter.qualname, "price_per_unit returns the stored average", f"ComputedData.price_per_unit normalises to {show(gt)[:120]}", loc(getter.node))
    ga = prog.func(FR, f"{GEN}.__generate_asset")
    calls = [n for n in ast.walk(ga.node) if isinstance(n, ast.Call) and isinstance(n.func, ast.Attribute) and n.func.attr == "__generate_average_price_per_unit"]
    ok = len(calls) == 1 and any(unparse(a) == "computed_data.price_per_unit" for a in list(calls[0].args) + [k.value for k in calls[0].keywords])
    rep.check(ok, r, FR, ga.qualname, "the average-price table receives computed_data.price_per_unit", f"__generate_asset calls the average-price writer as {[short(c, 100) for c in calls]}", loc(ga.node))
    w = prog.func(FR, f"{GEN}.__generate_average_price_per_unit")
    rep.analysed(w)
    wctx = norm.ctx_for(w, subst_locals=False)
    vals = [norm.term(n, wctx) for n in ast.walk(w.node) if isinstance(n, ast.Call) and isinstance(n.func, ast.Attribute) and n.func.attr == "_fill_cell"]
    shown = [dict(v[2]).get("value") for v in vals if v[0] == "call"]
    ok = sum(1 for x in shown if x == ("sym", "price_per_unit")) == 1 and all(x == ("sym", "price_per_unit") or (x is not None and x[0] in ("const", "xcall", "fstr")) for x in shown)
    rep.check(ok, r, FR, w.qualname, "the cell shows the average price itself (unrounded)", f"the average-price writer puts {[show(x)[:60] for x in shown if x is not None]} into its cells; expected the price_per_unit argument unchanged in exactly one cell (labels elsewhere)", loc(w.node))

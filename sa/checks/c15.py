"""C15 — open-positions report matches balances and the cost of unsold lot parts."""

from __future__ import annotations

import ast
from typing import Any, Dict, List, Optional, Tuple

from ..consts import UNKNOWN, Folder
from ..loader import AnalysisError, loc, short, unparse
from ..norm import FLIP, Ctx, mk_add, mk_mul, mk_neg, show, tkey
from ..poly import poly, same, show_poly
from ..report import Report
from ..rp2model import model
from ..symexec import SPath, SymExec, delta_of

META = {
    "title": "Open-positions report matches balances and the cost of unsold lot parts",
    "technique": "symbolic effect summaries of the two passes of open_positions.Generator.generate (nested-dictionary stores flattened to (root, key path) slots, "
    "accumulator recognition, guard polarity), rational normal forms (sum of monomials, exact) to decide the algebraic relations the statement asserts "
    "(realized + unrealized = acquired per lot; per-unit = unrealized / total balance; weights add up to 1) as identities between formulas, "
    "column <-> header label <-> computed value table for both sheets, def-use of the sold-percentage table in ComputedData (iterated set, key, increment, skip conditions)",
    "explanation": "unrealized cost of an asset = sum over computed_data.in_transaction_set of fiat_in_with_fee * (1 - sold%), where sold% of a lot is the sum of "
    "amount / lot.crypto_in over the fractions of the to-date-filtered gain/loss set that consumed the lot; since a fraction's cost basis is "
    "fiat_in_with_fee * amount / crypto_in, realized + unrealized = fiat_in_with_fee as an identity of rational functions for every lot; the grand total receives exactly "
    "the terms the per-asset totals receive; every balance of computed_data.balance_set with final_balance > ZERO (strict) adds its final balance to [asset][holder] and "
    "is recorded under [asset][holder][exchange], keys taken from the same balance; the report loop visits every asset with unrealized cost, computes per-unit = "
    "asset cost / sum of the asset's holder balances, and writes one row per holder and one per (holder, exchange) with balance, per-unit cost, balance * per-unit and "
    "that value / grand total under the header labels that name them, each row on its own line; hence the weights add up to 1 as formulas.",
    "restated": 'the lots counted are those up to the to-date on their own calendar date (C10.a); the balances read are the replayed flows (C07.a-d)',
    "not_decided": "the conservation law as run-time numbers (31-digit quotients do not add back exactly; RP2Decimal comparisons quantise to 13 decimals); "
    "that an asset with unsold cost always has a positive balance (rests on C07's reconciliation, known finding F2); spreadsheet formulas of the Input-price columns.",
    "assumptions": ["dict semantics (unique keys, insertion order)", "BalanceSet yields one Balance per (exchange, holder) of the asset (C07.c)"],
}

OP = "rp2.plugin.report.open_positions"
CD = "rp2.computed_data"
GL = "rp2.gain_loss"


# --------------------------------------------------------------------------- helpers
def _tuples(t: Any):
    if isinstance(t, tuple):
        yield t
        for x in t:
            if isinstance(x, tuple):
                yield from _tuples(x)


class Flat:
    """Nested-dictionary stores of one path flattened to slots (root container, key path)."""

    def __init__(self, events: List[Tuple[Any, ...]]) -> None:
        self.alias: Dict[str, Tuple[Any, Tuple[Any, ...]]] = {}
        self.effects: Dict[Tuple[str, Tuple[str, ...]], Tuple[Any, Tuple[Any, ...], Any, Any]] = {}
        self.conds: List[Any] = []
        self.calls: List[Any] = []
        for e in events:
            if e[0] == "store":
                root, path = self.resolve(e[1])
                path = path + (e[2],)
                v = e[3]
                if v[0] == "fresh":
                    self.alias[tkey(v)] = (root, path)
                    val: Any = ("newdict",)
                else:
                    val = self.canon(v)
                self.effects[(tkey(root), tuple(tkey(k) for k in path))] = (root, path, val, e[5] if len(e) > 5 else None)
            elif e[0] == "setdefault":
                # d[..].setdefault(k, v) as a statement: the slot is written when it did not exist ("first value wins") - the same effect as
                # `if k not in d[..]: d[..][k] = v`, which is how the rules below read an entry that is recorded once
                root, path = self.resolve(e[1])
                path = path + (e[2],)
                self.effects.setdefault((tkey(root), tuple(tkey(k) for k in path)), (root, path, self.canon(e[3]), e[4] if len(e) > 4 else None))
            elif e[0] == "cond":
                c = self.canon(e[1])
                from ..norm import mk_not

                c = c if e[2] else mk_not(c)
                self.conds.extend(c[1] if c[0] == "and" else [c])
            elif e[0] == "call":
                self.calls.append((self.canon(e[1]), e[2]))

    def resolve(self, c: Any) -> Tuple[Any, Tuple[Any, ...]]:
        k = tkey(c)
        if k in self.alias:
            return self.alias[k]
        if c[0] == "old":
            r = self.resolve(c[1])
            return r[0], r[1] + (c[2],)
        if c[0] == "sub":
            r = self.resolve(c[1])
            return r[0], r[1] + (c[2],)
        return c, ()

    def canon(self, t: Any) -> Any:
        if not isinstance(t, tuple) or not t:
            return t
        if t[0] == "const":
            return t
        if t[0] in ("old", "sub") or (t[0] == "fresh" and tkey(t) in self.alias):
            root, path = self.resolve(t)
            return ("slot", self.canon(root) if root[0] in ("old", "sub") else root, tuple(self.canon(k) for k in path))
        return tuple(self.canon(x) if isinstance(x, tuple) else x for x in t)

    def absent(self, root: Any, path: Tuple[Any, ...]) -> bool:
        """The path's conditions say that some prefix of the slot did not exist before this iteration."""
        for i in range(len(path)):
            cont = root if i == 0 else ("slot", root, tuple(path[:i]))
            for c in self.conds:
                if c[0] == "cmp" and c[1] == "not in" and tkey(c[2]) == tkey(path[i]) and tkey(c[3]) == tkey(cont):
                    return True
        return False

    def present(self, root: Any, path: Tuple[Any, ...]) -> bool:
        cont = root if len(path) == 1 else ("slot", root, tuple(path[:-1]))
        return any(c[0] == "cmp" and c[1] == "in" and tkey(c[2]) == tkey(path[-1]) and tkey(c[3]) == tkey(cont) for c in self.conds)


def _loop_events(events: List[Tuple[Any, ...]]):
    return [e for e in events if e[0] == "loop"]


def _header_labels(prog, gen_cls, stem: str) -> List[str]:
    setup = prog.func(OP, "Generator._setup_text_data")
    rows: Dict[int, List[str]] = {}
    for n in ast.walk(setup.node):
        tgt = n.target if isinstance(n, ast.AnnAssign) else (n.targets[0] if isinstance(n, ast.Assign) and len(n.targets) == 1 else None)
        if isinstance(tgt, ast.Attribute) and isinstance(tgt.value, ast.Name) and tgt.value.id == "self":
            for r in (1, 2):
                if tgt.attr == f"__{stem}_header_names_row_{r}":
                    v = Folder(prog, OP, {"currency_code": "CUR"}, gen_cls).fold(n.value)
                    if v is UNKNOWN:
                        raise AnalysisError(f"header list {tgt.attr} of open_positions is not constant-foldable")
                    rows[r] = list(v)
    if set(rows) != {1, 2} or len(rows[1]) != len(rows[2]):
        raise AnalysisError(f"open_positions header lists for '{stem}' not found or of different length")
    return [f"{a}|{b}" for a, b in zip(rows[1], rows[2])]


def _fill_cells(calls: List[Any]):
    out = []
    for t, node in calls:
        if t[0] == "call" and t[1].endswith("._fill_cell"):
            out.append((dict(t[2]), node))
    return out


# --------------------------------------------------------------------------- the check
def run(rep: Report, tier: str) -> None:
    m = model()
    prog, norm = m.prog, m.norm
    gen_cls = prog.cls(OP, "Generator")
    gen = prog.func(OP, "Generator.generate")
    rep.analysed(gen)
    ctx = norm.ctx_for(gen, subst_locals=False)
    top_loops = [n for n in gen.node.body if isinstance(n, ast.For)]
    collect = next((l for l in top_loops if isinstance(l.target, ast.Tuple) and len(l.target.elts) == 2 and tkey(norm.term(l.iter, ctx)) == tkey(("xcall", "items", ("sym", "asset_to_computed_data"), (), ()))), None)
    if collect is None:
        raise AnalysisError("open_positions.generate: the collection loop over asset_to_computed_data.items() was not found")
    a_name, cd_name = (e.id if isinstance(e, ast.Name) else None for e in collect.target.elts)
    if not a_name or not cd_name:
        raise AnalysisError("open_positions.generate: collection loop target is not (asset, computed_data)")
    cd_cls = prog.cls(CD, "ComputedData")
    se = SymExec(norm, ctx)
    init = SPath()
    A_SYM, CDS = ("sym", "asset"), ("sym", "cd")
    init.vars[a_name] = (A_SYM, ("prim", "str"))
    init.vars[cd_name] = (CDS, ("cls", cd_cls.fq))
    paths = [p for p in se.run(collect.body, init) if p.exit not in ("raise",)]
    for p in paths:
        if p.exit != "fall":
            rep.violation("C15.a", OP, gen.qualname, "every asset is collected", f"a path of the collection loop leaves by '{p.exit}': that asset (or all later ones) contributes neither cost nor balances", loc(p.exit_node))
    paths = [p for p in paths if p.exit == "fall"]
    if not paths:
        raise AnalysisError("open_positions.generate: the collection loop has no normally completing path")

    in_lot = ("sym", "t")
    spec_vars = {
        "cd": (CDS, ("cls", cd_cls.fq)),
        "asset": (A_SYM, ("prim", "str")),
        "t": (in_lot, ("cls", "rp2.in_transaction:InTransaction")),
        "b": (("sym", "b"), ("cls", "rp2.balance:Balance")),
    }
    sctx = Ctx(OP, gen_cls, None, spec_vars)

    def spec(expr: str) -> Any:
        t = norm.term(ast.parse(expr, mode="eval").body, sctx)
        return Flat([]).canon(SymExec(norm, sctx)._rewrite(t, SPath()))

    ra = rep.rule("C15.a", "unrealized cost = sum over computed_data.in_transaction_set of fiat_in_with_fee * (1 - sold%); the grand total receives the same terms", floor=5)
    rb = rep.rule("C15.b", "every balance with final_balance > ZERO adds to [asset][holder] and is recorded under [asset][holder][exchange], keys from the same balance", floor=6)
    rc = rep.rule("C15.c", "report rows: per-unit = asset cost / sum of holder balances; one row per holder and per (holder, exchange) with balance, per-unit, balance * per-unit, that / grand total", floor=20)
    from ..engine import check_cell_sink

    check_cell_sink(rep, rc)
    rd = rep.rule("C15.d", "sold% table: per lot, sum of amount / lot.crypto_in over the to-date-filtered fractions; realized + unrealized = cost of the lot as formulas", floor=6)
    re_ = rep.rule("C15.e", "no order-sensitive grouping of balances (itertools.groupby needs input sorted by the same key)", floor=0)

    # ------------------------------------------------------------- first pass: classify the inner loops by what they touch
    roles: Dict[str, Any] = {}
    want_in_iter = spec("cd.in_transaction_set")
    want_bal_iter = spec("cd.balance_set")
    want_cost = spec("t.fiat_in_with_fee * (RP2Decimal('1') - cd.get_in_lot_sold_percentage(t))")
    seen_obl: set = set()

    def once(key: str) -> bool:
        if key in seen_obl:
            return False
        seen_obl.add(key)
        return True

    cost_loops = bal_loops = 0
    for p in paths:
        extra = [show(e[1])[:100] for e in p.events if e[0] == "cond" and not _is_type_check(e[1])]
        if extra and once("outer-conds" + str(extra)):
            rep.violation(ra, OP, gen.qualname, "collection is unconditional per asset", f"the per-asset collection depends on {extra}: some assets would be left out of the report", loc(collect))
        for le in _loop_events(p.events):
            node = le[2]
            if not isinstance(node, ast.For):
                continue
            it = Flat([]).canon(SymExec(norm, ctx)._rewrite(norm.term(node.iter, ctx.child(vars=dict(ctx.vars, **{a_name: init.vars[a_name], cd_name: init.vars[cd_name]}))), SPath()))
            body_paths = le[1]
            txt = " ".join(show(x)[:2000] for bp in body_paths for e in bp.events for x in e[1:4] if isinstance(x, tuple))
            if "InTransaction.__fiat_in_with_fee" in txt or "__in_lot_sold_percentage" in txt:
                cost_loops += 1
                _check_cost_loop(rep, ra, gen, node, it, want_in_iter, want_cost, body_paths, roles, once)
            elif "Balance.final_balance" in txt or "Balance." in txt:
                bal_loops += 1
                _check_balance_loop(rep, rb, gen, node, it, want_bal_iter, body_paths, roles, once, spec)
    _check_groupby(rep, re_, prog)
    from . import c07, c10

    rf = rep.rule("C15.f", "the lots counted are those acquired up to the to-date on their own calendar date (entry-set iterator), like the balances' replay", floor=2)
    c10.check_iterator_window(rep, rf, m, "a lot near the to-date boundary would be in the reported balance but not in the unrealized cost (or the reverse): realized + unrealized no longer equals what was acquired")
    rg = rep.rule("C15.g", "the balances read are the replayed flows (C07.a-d restated)", floor=20)
    sub7 = Report("C07", tier)
    c07.run(sub7, tier)
    rep.absorb(sub7, rg, ("C07.a", "C07.b", "C07.c", "C07.d"), "balance replay")
    _check_sold_percentage(rep, rd, m)
    if cost_loops == 0 or bal_loops == 0:
        # an unrecognised way of collecting costs / balances is an unknown idiom, not a verdict (unless another rule already points at a defect)
        if not rep.findings:
            raise AnalysisError(f"open_positions.generate: per-asset collection has {cost_loops} loop(s) reading fiat_in_with_fee / sold% and {bal_loops} loop(s) reading final_balance; expected one of each")
        return
    if {"A", "T", "H", "X"} - set(roles):
        if not rep.findings:
            raise AnalysisError(f"open_positions.generate: could not identify the containers {sorted({'A', 'T', 'H', 'X'} - set(roles))} (cost per asset, grand total, holder balances, exchange balances)")
        return
    _check_report_loop(rep, rc, m, gen, gen_cls, top_loops, collect, roles)


def _is_type_check(c: Any) -> bool:
    s = show(c)
    return "isinstance(" in s


def _check_cost_loop(rep, rule, gen, node, it, want_iter, want_cost, body_paths, roles, once) -> None:
    if once("cost-iter"):
        rep.check(tkey(it) == tkey(want_iter), rule, OP, gen.qualname, "lots come from computed_data.in_transaction_set", f"the cost loop iterates {show(it)[:200]}; expected this asset's computed_data.in_transaction_set (the lots acquired up to the to-date)", loc(node))
    tvar = node.target.id if isinstance(node.target, ast.Name) else None
    if tvar is None:
        raise AnalysisError("open_positions.generate: cost loop target is not a name")
    want_cost = _subst(want_cost, {"t": ("sym", tvar)})
    adders = 0
    for bp in body_paths:
        if bp.exit == "raise":
            continue
        if bp.exit not in ("fall", "continue"):  # `continue` ends this lot's iteration like falling off the end: judged below by what the path did
            if once(f"cost-exit-{bp.exit}"):
                rep.violation(rule, OP, gen.qualname, f"cost loop path ends by '{bp.exit}'", f"a path of the cost loop leaves the iteration by '{bp.exit}' at {loc(bp.exit_node)}: later lots would not be counted", loc(bp.exit_node))
            continue
        fl = Flat(_subst_events(bp.events, tvar))
        stores = [v for v in fl.effects.values()]
        totals = [(e[1], e[2]) for e in bp.events if e[0] == "local" and e[2][0] == "add" and any(x == ("sym", e[1]) for x in e[2][1])]
        if not stores and not totals:
            # skipping path: only allowed when the term itself is not positive
            conds = fl.conds
            ok = all(_is_sign_guard(c, want_cost, positive=False) for c in conds) and bool(conds)
            if once("cost-skip" + tkey(conds)):
                rep.check(ok, rule, OP, gen.qualname, "a lot is left out only when its unsold cost is not positive", f"a lot contributes nothing under {[show(c)[:160] for c in conds]}; the only admissible reason is 'fiat_in_with_fee * (1 - sold%) is not > ZERO'", loc(node))
            continue
        adders += 1
        if len(stores) != 1:
            if once("cost-stores"):
                rep.violation(rule, OP, gen.qualname, "one per-asset total is updated per lot", f"a lot updates {len(stores)} dictionary slots; expected exactly the asset's cost-basis total", loc(node))
            continue
        root, path, val, src = stores[0]
        d = _delta_slot(val, root, path)
        key_ok = len(path) == 1 and path[0] == ("sym", "asset")
        if once("cost-key"):
            rep.check(key_ok, rule, OP, gen.qualname, "the lot's unsold cost goes to the total of its own asset", f"the cost is stored under key {[show(k) for k in path]}; expected [asset] of the ComputedData being read", loc(src or node))
        roles["A"] = root
        want = want_cost
        ok = d is not None and same(d, want)
        if once("cost-term"):
            rep.check(
                ok,
                rule,
                OP,
                gen.qualname,
                "asset cost += fiat_in_with_fee * (1 - sold%)",
                f"each lot adds {show(d)[:260] if d is not None else 'a non-additive value'} to the asset's unrealized cost; expected in_transaction.fiat_in_with_fee * (1 - computed_data.get_in_lot_sold_percentage(in_transaction)): "
                "the cost, fees included, of the part of the lot that no disposal consumed",
                loc(src or node),
            )
        conds = [c for c in fl.conds]
        bad = [c for c in conds if not _is_sign_guard(c, want_cost, positive=True)]
        if once("cost-guard" + tkey(bad)):
            rep.check(not bad, rule, OP, gen.qualname, "lots are added unconditionally (or only when the unsold cost is > ZERO)", f"a lot is added only under {[show(c)[:160] for c in bad]}: unsold lot parts outside that condition are missing from the unrealized cost", loc(node))
        # grand total: same delta
        tot = [(n, v) for n, v in totals]
        if len(tot) == 1:
            name, v = tot[0]
            dt = mk_add([x for x in v[1] if x != ("sym", name)])
            dt = Flat([]).canon(dt) if False else fl.canon(dt)
            roles["T"] = name
            if once("cost-total"):
                rep.check(d is not None and same(dt, d), rule, OP, gen.qualname, "grand total receives exactly what the asset total receives", f"the grand total '{name}' is increased by {show(dt)[:200]} while the asset total is increased by {show(d)[:200] if d is not None else None}: weights (value / grand total) would not add up to 100%", loc(node))
        elif once("cost-total-missing"):
            rep.violation(rule, OP, gen.qualname, "grand total accumulated with the asset total", f"a lot that is added to the asset's total updates {len(tot)} scalar accumulators; expected exactly one grand total receiving the same term", loc(node))
    if adders == 0 and once("cost-none"):
        rep.violation(rule, OP, gen.qualname, "cost loop adds lots", "no path of the cost loop adds a lot's unsold cost to a per-asset total", loc(node))


def _subst_events(events, var: Optional[str]):
    """Loop variable of an inner loop -> canonical ('sym','t') / ('sym','b') is done by the callers through _subst on terms; events are used as they are."""
    return events


def _subst(t: Any, mapping: Dict[str, Any]) -> Any:
    if not isinstance(t, tuple) or not t:
        return t
    if t[0] == "sym" and t[1] in mapping:
        return mapping[t[1]]
    if t[0] == "const":
        return t
    return tuple(_subst(x, mapping) if isinstance(x, tuple) else x for x in t)


def _rename(t: Any, old: str, new: str) -> Any:
    return _subst(t, {old: ("sym", new)})


def _delta_slot(val: Any, root: Any, path: Tuple[Any, ...]) -> Optional[Any]:
    """val == slot(root,path) + d  ->  d ; val without any read of the slot -> None."""
    me = tkey(("slot", root, tuple(path)))
    if val[0] == "add":
        rest = [x for x in val[1] if tkey(x) != me]
        if len(rest) == len(val[1]) - 1:
            return mk_add(rest)
    if tkey(val) == me:
        return ("const", 0)
    return None


def _unold(t: Any) -> Any:
    """A read of a dictionary slot written as the pre-state `old(container, key)` or as the plain subscript: the same value once the collecting loops are over."""
    if not isinstance(t, tuple) or not t:
        return t
    if t[0] == "old" and len(t) == 4:
        return ("sub", _unold(t[1]), _unold(t[2]))
    if t[0] == "slot" and len(t) == 3 and isinstance(t[2], tuple):
        out = _unold(t[1])
        for k in t[2]:
            out = ("sub", out, _unold(k))
        return out
    return tuple(_unold(x) if isinstance(x, tuple) else x for x in t)


def _is_sign_guard(c: Any, want: Any, positive: bool) -> bool:
    """c is '<the lot's unsold cost> > 0' (positive) or its negation."""
    if c[0] != "cmp":
        return False
    op, a, b = c[1], c[2], c[3]
    if b[0] != "const" or b[1] != 0:
        if a[0] == "const" and a[1] == 0 and op in FLIP:
            op, a, b = FLIP[op], b, a
        else:
            return False
    if not same(a, want):
        return False
    return op in ((">", "!=") if positive else ("<=", "=="))


def _check_balance_loop(rep, rule, gen, node, it, want_iter, body_paths, roles, once, spec) -> None:
    if once("bal-iter"):
        rep.check(tkey(it) == tkey(want_iter), rule, OP, gen.qualname, "balances come from computed_data.balance_set", f"the balance loop iterates {show(it)[:200]}; expected this asset's computed_data.balance_set (the balances computed by the replay, C07)", loc(node))
    bvar = node.target.id if isinstance(node.target, ast.Name) else None
    if bvar is None:
        raise AnalysisError("open_positions.generate: balance loop target is not a name")
    B = ("sym", bvar)
    fb = _subst(spec("b.final_balance"), {"b": B})
    holder = _subst(spec("b.holder"), {"b": B})
    exchange = _subst(spec("b.exchange"), {"b": B})
    asset = ("sym", "asset")
    n_eff = 0
    for bp in body_paths:
        if bp.exit == "raise":
            continue
        fl = Flat(bp.events)
        guard = [c for c in fl.conds if c[0] == "cmp" and tkey(fb) in (tkey(c[2]), tkey(c[3]))]
        others = [c for c in fl.conds if c not in guard and not (c[0] == "cmp" and c[1] in ("in", "not in"))]
        if bp.exit != "fall":
            if once(f"bal-exit-{bp.exit}-{tkey(fl.conds)}"):
                ok = bp.exit == "continue" and not fl.effects and guard and all(_fb_sign(c, fb) == "nonpos" for c in guard) and not others
                rep.check(bool(ok), rule, OP, gen.qualname, "a balance is skipped only when it is not positive", f"a path of the balance loop leaves by '{bp.exit}' under {[show(c)[:120] for c in fl.conds]}: balances would be missing from the report", loc(bp.exit_node))
            continue
        if not fl.effects:
            ok = bool(guard) and all(_fb_sign(c, fb) == "nonpos" for c in guard) and not others
            if once("bal-noeff" + tkey(fl.conds)):
                rep.check(ok, rule, OP, gen.qualname, "a balance is left out only when final_balance is not > ZERO", f"a balance contributes nothing under {[show(c)[:120] for c in fl.conds]}; the statement lists every holder and (exchange, holder) with a positive final balance", loc(node))
            continue
        n_eff += 1
        signs = [_fb_sign(c, fb) for c in guard]
        if once("bal-guard" + tkey(guard)):
            rep.check(bool(guard) and all(s == "pos" for s in signs), rule, OP, gen.qualname, "balances are listed exactly when final_balance > ZERO (strict)", f"a balance is collected under {[show(c)[:120] for c in guard] or 'no sign condition'}; expected final_balance > ZERO: zero or negative balances must not be listed, positive ones must", loc(node))
        if others and once("bal-others" + tkey(others)):
            rep.violation(rule, OP, gen.qualname, "no further condition on listing a positive balance", f"a positive balance is collected only under {[show(c)[:140] for c in others]}", loc(node))
        # slots
        by_len: Dict[int, List[Tuple[Any, Tuple[Any, ...], Any, Any]]] = {}
        for root, path, val, src in fl.effects.values():
            if val == ("newdict",):
                continue
            by_len.setdefault(len(path), []).append((root, path, val, src))
        hs, xs = by_len.get(2, []), by_len.get(3, [])
        if len(hs) != 1:
            if once("bal-h-count"):
                rep.violation(rule, OP, gen.qualname, "one [asset][holder] total is updated per balance", f"a positive balance updates {len(hs)} two-level slots ({[[show(k)[:40] for k in h[1]] for h in hs]}); expected exactly [asset][balance.holder]", loc(node))
            continue
        root, path, val, src = hs[0]
        roles["H"] = root
        keys_ok = tkey(path[0]) == tkey(asset) and tkey(path[1]) == tkey(holder)
        if once("bal-h-key" + tkey(path)):
            rep.check(keys_ok, rule, OP, gen.qualname, "holder total is keyed [asset][balance.holder]", f"the holder total is stored under [{show(path[0])[:60]}][{show(path[1])[:60]}]; expected [asset][balance.holder] of the same balance", loc(src or node))
        d = _delta_slot(val, root, path)
        if d is not None:
            ok = same(d, fb)
            why = f"the holder total is increased by {show(d)[:160]}; expected the balance's own final_balance"
        else:
            ok = same(val, fb) and fl.absent(root, path)
            why = f"the holder total is set to {show(val)[:160]} (not added to the previous value) on a path where the entry may already exist: a holder with accounts on several exchanges would keep only one of them"
        if once("bal-h-val" + tkey(val) + str(fl.absent(root, path))):
            rep.check(ok, rule, OP, gen.qualname, "[asset][holder] += final_balance (from ZERO)", why, loc(src or node))
        if len(xs) > 1:
            if once("bal-x-count"):
                rep.violation(rule, OP, gen.qualname, "one [asset][holder][exchange] entry per balance", f"a positive balance writes {len(xs)} three-level slots", loc(node))
            continue
        if not xs:
            xroot = roles.get("X")
            pres = xroot is not None and fl.present(xroot, (asset, holder, exchange))
            chained = [n for n in ast.walk(node) if isinstance(n, ast.Call) and isinstance(n.func, ast.Attribute) and n.func.attr == "setdefault" and isinstance(n.func.value, (ast.Call, ast.Name))
                       and (isinstance(n.func.value, ast.Call) or any(isinstance(a, (ast.Assign, ast.AnnAssign)) and isinstance(getattr(a, "value", None), ast.Call) and isinstance(a.value.func, ast.Attribute) and a.value.func.attr in ("setdefault", "get") and unparse(a.targets[0] if isinstance(a, ast.Assign) else a.target) == n.func.value.id for a in ast.walk(node)))]
            if not pres and chained:
                # the entry is written through an alias of an inner dictionary (x = d.setdefault(k, {}); x.setdefault(k2, v)): nested-dictionary aliases are not modelled
                if once("bal-x-alias"):
                    rep.defer_error(f"{loc(chained[0])}: the balance loop records entries through {short(chained[0], 80)} (an alias of an inner dictionary): [asset][holder][exchange] bookkeeping not decided for this shape")
                continue
            if once("bal-x-missing" + str(pres)):
                rep.check(pres, rule, OP, gen.qualname, "the (holder, exchange) entry is written unless it already exists", "a positive balance is added to its holder's total but not recorded under [asset][holder][exchange]: the 'Asset - Exchange' sheet would miss that account", loc(node))
            continue
        xroot, xpath, xval, xsrc = xs[0]
        roles["X"] = xroot
        xkeys_ok = tkey(xpath[0]) == tkey(asset) and tkey(xpath[1]) == tkey(holder) and tkey(xpath[2]) == tkey(exchange)
        if once("bal-x-key" + tkey(xpath)):
            rep.check(xkeys_ok, rule, OP, gen.qualname, "exchange entry is keyed [asset][balance.holder][balance.exchange]", f"the exchange entry is stored under {[show(k)[:50] for k in xpath]}; expected [asset][balance.holder][balance.exchange] of the same balance", loc(xsrc or node))
        xd = _delta_slot(xval, xroot, xpath)
        xok = same(xval, fb) or (xd is not None and same(xd, fb))
        if once("bal-x-val" + tkey(xval)):
            rep.check(xok, rule, OP, gen.qualname, "[asset][holder][exchange] = final_balance", f"the exchange entry receives {show(xval)[:160]}; expected the balance's own final_balance", loc(xsrc or node))
    if n_eff == 0 and once("bal-none"):
        rep.violation(rule, OP, gen.qualname, "balance loop records balances", "no path of the balance loop records a balance", loc(node))


def _fb_sign(c: Any, fb: Any) -> str:
    op, a, b = c[1], c[2], c[3]
    if tkey(b) == tkey(fb) and op in FLIP:
        op, a, b = FLIP[op], b, a
    if tkey(a) != tkey(fb) or b[0] != "const" or b[1] != 0:
        return "?"
    return {">": "pos", "<=": "nonpos"}.get(op, "other:" + op)


# --------------------------------------------------------------------------- second pass
def _check_report_loop(rep, rule, m, gen, gen_cls, top_loops, collect, roles) -> None:
    prog, norm = m.prog, m.norm
    ctx = norm.ctx_for(gen, subst_locals=False)
    A, H, X, T = roles["A"], roles["H"], roles["X"], roles["T"]
    later = [l for l in top_loops if l.lineno > collect.lineno]
    report = next((l for l in later if tkey(norm.term(l.iter, ctx)) == tkey(("xcall", "items", A, (), ()))), None)
    if report is None:
        rep.violation(rule, OP, gen.qualname, "report loop over every asset with unrealized cost", f"no loop after the collection iterates {show(A)}.items(): assets with unsold holdings are not all reported", loc(gen.node))
        return
    if not (isinstance(report.target, ast.Tuple) and len(report.target.elts) == 2 and all(isinstance(e, ast.Name) for e in report.target.elts)):
        raise AnalysisError("open_positions.generate: report loop target is not (asset, asset_cost_basis)")
    a_name, c_name = report.target.elts[0].id, report.target.elts[1].id
    se = SymExec(norm, ctx)
    init = SPath()
    ASSET, ACB, TOT = ("sym", "asset"), ("sym", "acb"), ("sym", "total")
    init.vars[a_name] = (ASSET, ("prim", "str"))
    init.vars[c_name] = (ACB, ("cls", "rp2.rp2_decimal:RP2Decimal"))
    init.vars[T] = (TOT, ("cls", "rp2.rp2_decimal:RP2Decimal"))
    paths = se.run(report.body, init)
    labels = {"asset": _header_labels(prog, gen_cls, "asset"), "asset_exchange": _header_labels(prog, gen_cls, "asset_exchange")}
    seen: set = set()

    def once(k: str) -> bool:
        if k in seen:
            return False
        seen.add(k)
        return True

    slotH = ("slot", H, (ASSET,))
    slotX = ("slot", X, (ASSET,))
    for p in paths:
        if p.exit == "raise":
            continue
        if p.exit != "fall":
            if once("exit" + p.exit):
                rep.violation(rule, OP, gen.qualname, f"report loop path ends by '{p.exit}'", f"a path of the report loop leaves by '{p.exit}' at {loc(p.exit_node)}: that asset (or all later ones) gets no rows", loc(p.exit_node))
            continue
        fl0 = Flat([])
        # --- total balance: sum over H[asset].values(), from ZERO
        sum_loops = []
        row_loops = []
        for i, e in enumerate(p.events):
            if e[0] != "loop" or not isinstance(e[2], ast.For):
                continue
            it = fl0.canon(se._rewrite(norm.term(e[2].iter, ctx.child(vars=dict(ctx.vars, **{a_name: init.vars[a_name]}))), SPath()))
            if it[0] == "xcall" and it[1] == "values":
                sum_loops.append((i, e, it))
            elif it[0] == "xcall" and it[1] == "items":
                row_loops.append((i, e, it))
        unit_t = None
        for e in p.events:
            if e[0] == "local" and e[2][0] == "div" and tkey(e[2][1]) == tkey(ACB):
                unit_t = e[2]
        if unit_t is None:
            cand = [e for e in p.events if e[0] == "local" and any(s == ACB for s in _tuples(e[2]))]
            if once("unit-missing"):
                rep.violation(rule, OP, gen.qualname, "per-unit cost = asset unrealized cost / total balance", f"no value of the form <asset cost> / <total balance> is computed in the report loop (found {[show(c[2])[:100] for c in cand][:3]})", loc(report))
            continue
        div = unit_t[2]
        ok_sum = False
        detail = f"the divisor is {show(div)[:120]}"
        if div[0] == "sym" and "@loop" in div[1]:
            acc = div[1].split("@")[0]
            for i, e, it in sum_loops:
                if f"@loop{e[2].lineno}" not in div[1]:
                    continue
                tgt = e[2].target.id if isinstance(e[2].target, ast.Name) else None
                bodies = [bp for bp in e[1]]
                acc_ok = len(bodies) == 1 and bodies[0].exit == "fall" and not [x for x in bodies[0].events if x[0] == "cond"]
                if acc_ok:
                    fin = bodies[0].vars.get(acc, (None,))[0]
                    acc_ok = fin is not None and tkey(fin) == tkey(mk_add([("sym", acc), ("sym", tgt)]))
                it_ok = it[2] is not None and tkey(it[2]) == tkey(slotH)
                reset = [x for x in p.events[:i] if x[0] == "local" and x[1] == acc]
                reset_ok = bool(reset) and reset[-1][2][0] == "const" and reset[-1][2][1] == 0
                ok_sum = acc_ok and it_ok and reset_ok
                detail = f"'{acc}' is accumulated over {show(it)[:120]} (plain sum: {acc_ok}, starts from ZERO inside the asset's iteration: {reset_ok})"
        if div[0] == "xcall" and div[1] == "sum" and div[2] is None and len(div[3]) == 2:
            # the same total spelled sum(<holder balances>[asset].values(), ZERO)
            vals, start = div[3]
            zero_start = start[0] == "const" and not isinstance(start[1], bool) and start[1] == 0
            recv = vals[2] if vals[0] == "xcall" and vals[1] == "values" and not vals[3] else None
            is_slot = recv is not None and ((recv[0] == "old" and tkey(recv[1]) == tkey(H) and tkey(recv[2]) == tkey(ASSET)) or (recv[0] == "sub" and tkey(recv[1]) == tkey(H) and tkey(recv[2]) == tkey(ASSET)))
            ok_sum = zero_start and is_slot
            detail = f"the divisor is {show(div)[:120]} (sum from ZERO: {zero_start}, over this asset's holder balances: {is_slot})"
        if once("unit"):
            rep.check(ok_sum, rule, OP, gen.qualname, "per-unit cost = asset unrealized cost / sum of this asset's holder balances", f"per-unit cost is {show(unit_t)[:160]}; {detail}; expected <asset cost basis> / (ZERO + every value of {show(H)}[asset])", loc(report))
        unit = unit_t
        # --- row loops
        found_kinds = set()
        for i, e, it in row_loops:
            recv = it[2]
            if recv is not None and tkey(recv) == tkey(slotH):
                found_kinds.add("asset")
                hv, bv = _pair_target(e[2])
                _check_rows(rep, rule, gen, e[2], e[1], labels["asset"], {"|Asset": ASSET, "|Holder": ("sym", hv), "Crypto|Balance": ("sym", bv)}, ("sym", bv), unit, TOT, once, "Asset")
            elif recv is not None and tkey(recv) == tkey(slotX):
                hv, xv = _pair_target(e[2])
                inner = [(bp, le) for bp in e[1] for le in _loop_events(bp.events)]
                for bp, le in inner:
                    fl = Flat([])
                    it2 = norm.term(le[2].iter, ctx)
                    if isinstance(le[2].iter, ast.Call) and isinstance(le[2].iter.func, ast.Attribute) and le[2].iter.func.attr == "items" and unparse(le[2].iter.func.value) == xv:
                        found_kinds.add("asset_exchange")
                        ev, bv = _pair_target(le[2])
                        _check_rows(rep, rule, gen, le[2], le[1], labels["asset_exchange"], {"|Asset": ASSET, "|Holder": ("sym", hv), "|Exchange": ("sym", ev), "Crypto|Balance": ("sym", bv)}, ("sym", bv), unit, TOT, once, "Asset - Exchange")
                for bp in e[1]:
                    if bp.exit != "fall" and bp.exit != "raise" and once("xrow-exit" + bp.exit):
                        rep.violation(rule, OP, gen.qualname, "every holder's exchanges are written", f"the per-holder loop of the 'Asset - Exchange' table leaves by '{bp.exit}'", loc(e[2]))
        for kind, what in (("asset", f"{show(H)}[asset].items()"), ("asset_exchange", f"{show(X)}[asset].items() and each holder's exchanges")):
            if once("rows-" + kind + str(kind in found_kinds)):
                rep.check(kind in found_kinds, rule, OP, gen.qualname, f"'{kind}' rows are written from the collected balances", f"the report loop has no row loop over {what}: the balances written would not be the ones collected from the balance set", loc(report))
        pre_conds = [show(e[1])[:120] for e in p.events if e[0] == "cond" and not _is_style_cond(e[1], unit)]
        if pre_conds and once("conds" + str(pre_conds)):
            rep.violation(rule, OP, gen.qualname, "rows are written for every reported asset", f"the rows of an asset depend on {pre_conds}", loc(report))


def _is_style_cond(c: Any, unit: Any) -> bool:
    """Comparisons of the per-unit cost with constants only choose a number format."""
    atoms = list(c[1]) if c[0] in ("and", "or") else [c]
    for a in atoms:
        if a[0] != "cmp":
            return False
        sides = (a[2], a[3])
        if not any(tkey(s) == tkey(unit) for s in sides):
            return False
        other = sides[1] if tkey(sides[0]) == tkey(unit) else sides[0]
        if other[0] != "const":
            return False
    return True


def _pair_target(loop: ast.For) -> Tuple[str, str]:
    t = loop.target
    if isinstance(t, ast.Tuple) and len(t.elts) == 2 and all(isinstance(e, ast.Name) for e in t.elts):
        return t.elts[0].id, t.elts[1].id
    raise AnalysisError(f"open_positions.generate: loop target at line {loop.lineno} is not a (key, value) pair")


def _check_rows(rep, rule, gen, node, body_paths, labels, names, bal, unit, total, once, sheet_name) -> None:
    want_num = {
        "Crypto|Balance": bal,
        "CUR Per Unit|Cost Basis": unit,
        "CUR Unrealized|Cost Basis": mk_mul([bal, unit]),
        "Cost Basis|Weight %": ("div", mk_mul([bal, unit]), total),
    }
    says = {
        "Crypto|Balance": "the balance of this row's holder / account",
        "CUR Per Unit|Cost Basis": "the asset's unrealized cost divided by its total balance",
        "CUR Unrealized|Cost Basis": "this row's balance times the per-unit cost",
        "Cost Basis|Weight %": "this row's unrealized cost divided by the grand total over all assets (so that weights add up to 100%)",
    }
    for bp in body_paths:
        if bp.exit == "raise":
            continue
        if bp.exit != "fall":
            if once(f"{sheet_name}-exit-{bp.exit}"):
                rep.violation(rule, OP, gen.qualname, f"{sheet_name}: every entry gets a row", f"a path of the {sheet_name} row loop leaves by '{bp.exit}' at {loc(bp.exit_node)}", loc(bp.exit_node))
            continue
        fl = Flat(bp.events)
        conds = fl.conds
        if conds and once(f"{sheet_name}-conds" + tkey(conds)):
            rep.violation(rule, OP, gen.qualname, f"{sheet_name}: rows are unconditional", f"a row of the {sheet_name} table is written only under {[show(c)[:120] for c in conds]}", loc(node))
        cells = _fill_cells(fl.calls)
        if not cells:
            if once(f"{sheet_name}-nocells"):
                rep.violation(rule, OP, gen.qualname, f"{sheet_name}: cells written", f"the {sheet_name} row loop writes no cells", loc(node))
            continue
        rows = {tkey(kw.get("row_index")) for kw, _ in cells}
        sheets = {tkey(kw.get("sheet")) for kw, _ in cells}
        row_t = cells[0][0].get("row_index")
        adv = [v for v in fl.effects.values() if tkey(("slot", v[0], tuple(v[1]))) == tkey(row_t)]
        adv_ok = len(adv) == 1 and _delta_slot(adv[0][2], adv[0][0], adv[0][1]) == ("const", 1)
        appends = [t for t, _ in fl.calls if t[0] == "xcall" and t[1] == "append_rows" and tkey(t[2]) in sheets]
        if once(f"{sheet_name}-rowdisc"):
            rep.check(len(rows) == 1 and len(sheets) == 1 and row_t is not None and row_t[0] == "slot" and adv_ok, rule, OP, gen.qualname, f"{sheet_name}: all cells of an entry on one row, row counter advanced by exactly one", f"the cells of one entry are written at {len(rows)} different rows on {len(sheets)} sheets and the row counter is updated {len(adv)} time(s) (by exactly one: {adv_ok}): rows would overlap, interleave or leave gaps", loc(node))
            rep.check(len(appends) == 1 and appends[0][3] == (("const", 1),), rule, OP, gen.qualname, f"{sheet_name}: one sheet row appended per entry", f"{len(appends)} append_rows calls per entry on the sheet being written; expected exactly one append_rows(1)", loc(node))
        by_col: Dict[int, Any] = {}
        for kw, cnode in cells:
            col = kw.get("column_index")
            if col is not None and col[0] == "const":
                by_col[col[1]] = (kw.get("value"), cnode)
        for ci, lab in enumerate(labels):
            if lab in names or lab in want_num:
                got = by_col.get(ci)
                if got is None:
                    if once(f"{sheet_name}-missing-{lab}"):
                        rep.violation(rule, OP, gen.qualname, f"{sheet_name}: '{lab}' is written", f"no cell is written for the column labelled '{lab}' (index {ci}) of the {sheet_name} table", loc(node))
                    continue
                v, cnode = got
                if lab in names:
                    ok = v is not None and tkey(v) == tkey(names[lab])
                    if once(f"{sheet_name}-{lab}-{tkey(v)}"):
                        rep.check(ok, rule, OP, gen.qualname, f"{sheet_name}: '{lab}' <- {show(names[lab])}", f"column '{lab}' (index {ci}) of the {sheet_name} table receives {show(v)[:160] if v else None}; expected {show(names[lab])} of the entry being written", loc(cnode))
                else:
                    ok = v is not None and same(_unold(v), _unold(want_num[lab]))
                    if once(f"{sheet_name}-{lab}-{tkey(v)}"):
                        rep.check(ok, rule, OP, gen.qualname, f"{sheet_name}: '{lab}' <- {show(want_num[lab])[:80]}", f"column '{lab}' (index {ci}) of the {sheet_name} table receives {show(v)[:200] if v else None}; its header says it must show {says[lab]}: {show(want_num[lab])[:160]}", loc(cnode))


# --------------------------------------------------------------------------- sold percentage (ComputedData)
def _check_sold_percentage(rep, rule, m) -> None:
    prog, norm = m.prog, m.norm
    cd = prog.cls(CD, "ComputedData")
    fi = prog.func(CD, "ComputedData.__init__")
    rep.analysed(fi)
    ctx = norm.ctx_for(fi, subst_locals=False)
    FIELD = "ComputedData.__in_lot_sold_percentage"
    gl_cls = prog.cls(GL, "GainLoss")
    g = ("sym", "gl")
    gctx = Ctx(gl_cls.module, gl_cls)
    pct = norm.inline(prog.func(GL, "GainLoss.acquired_lot_fraction_percentage"), g, {}, gctx)
    cost = norm.inline(prog.func(GL, "GainLoss.fiat_cost_basis"), g, {}, gctx)
    lot = ("fld", g, "GainLoss.__acquired_lot")
    lot_cost = ("fld", lot, "InTransaction.__fiat_in_with_fee")

    def with_lot(t: Any) -> Any:
        # the branch of 'ZERO if no lot else f' that applies to fractions with a lot
        while t[0] == "ite" and t[1][0] == "cmp" and tkey(t[1][2]) == tkey(lot) and t[1][3] == ("const", None):
            t = t[3] if t[1][1] == "is" else t[2]  # (a guard repeated by a delegated property is taken again)
        return t

    ok = same(with_lot(cost), mk_mul([lot_cost, with_lot(pct)]))
    rep.check(
        ok,
        rule,
        GL,
        "GainLoss.fiat_cost_basis",
        "realized cost of a fraction = lot.fiat_in_with_fee * (fraction's share of the lot), as rational functions",
        f"fiat_cost_basis = {show_poly(poly(with_lot(cost)))[:200]} but fiat_in_with_fee * acquired_lot_fraction_percentage = {show_poly(poly(mk_mul([lot_cost, with_lot(pct)])))[:200]}: "
        "realized cost basis (gain/loss detail) plus unrealized cost basis (fiat_in_with_fee * (1 - sum of shares)) would not add up to the cost of the lot",
        loc(prog.func(GL, "GainLoss.fiat_cost_basis").node),
    )
    share_ok = same(with_lot(pct), ("div", ("fld", g, "GainLoss.__crypto_amount"), ("fld", lot, "InTransaction.__crypto_in")))
    rep.check(share_ok, rule, GL, "GainLoss.acquired_lot_fraction_percentage", "a fraction's share of its lot = crypto_amount / lot.crypto_in", f"acquired_lot_fraction_percentage normalises to {show(with_lot(pct))[:200]}; expected crypto_amount / acquired_lot.crypto_in (shares of a fully consumed lot add up to 1)", loc(prog.func(GL, "GainLoss.acquired_lot_fraction_percentage").node))
    # getter
    getter = prog.func(CD, "ComputedData.get_in_lot_sold_percentage")
    rep.analysed(getter)
    gt = norm.inline(getter, ("sym", "cd"), {"in_transaction": (("sym", "t"), ("cls", "rp2.in_transaction:InTransaction"))}, Ctx(cd.module, cd))
    D = ("fld", ("sym", "cd"), FIELD)
    want_get = ("ite", ("cmp", "in", ("sym", "t"), D), ("sub", D, ("sym", "t")), ("const", __import__("decimal").Decimal(0)))
    alt_get = ("xcall", "get", D, (("sym", "t"), ("const", __import__("decimal").Decimal(0))), ())
    from ..norm import strip_validators

    gts = strip_validators(gt)
    rep.check(tkey(gts) in (tkey(want_get), tkey(alt_get)), rule, CD, getter.qualname, "get_in_lot_sold_percentage(lot) = table[lot], ZERO for untouched lots", f"the getter normalises to {show(gts)[:200]}; expected the table entry of the same lot, ZERO when the lot has none", loc(getter.node))
    # the filling loop
    found = 0
    for stmt in fi.node.body:
        if not isinstance(stmt, ast.For) or not isinstance(stmt.target, ast.Name):
            continue
        se = SymExec(norm, ctx)
        init = SPath()
        init.vars[stmt.target.id] = (g, ("cls", gl_cls.fq))
        paths = se.run(stmt.body, init)
        if not any(st[1][0] == "fld" and st[1][2] == FIELD for p in paths for st in p.stores()):
            continue
        found += 1
        it = norm.term(stmt.iter, ctx)
        defs = m.field_defs(cd)
        window_ok = False
        detail = f"iterates {show(it)[:160]}"
        if it[0] == "fld" and it[2] in defs:
            dd = defs[it[2]]
            if len(dd) == 1 and dd[0][1][0] == "call" and dd[0][1][1].endswith(".duplicate"):
                kw = dict(dd[0][1][2])
                window_ok = kw.get("self") == ("sym", "unfiltered_gain_loss_set") and kw.get("to_date") == ("sym", "to_date")
                detail = f"iterates {it[2]} = {show(dd[0][1])[:200]}"
        ev_date = ("xcall", "date", ("fld", ("fld", g, "GainLoss.__taxable_event"), "AbstractTransaction.__timestamp"), (), ())
        cut = False
        for p in paths:
            if p.exit in ("break", "continue") and not p.stores():
                for c in p.conds():
                    if c[0] == "cmp" and ((tkey(c[2]) == tkey(ev_date) and c[3] == ("sym", "to_date") and c[1] == ">") or (tkey(c[3]) == tkey(ev_date) and c[2] == ("sym", "to_date") and c[1] == "<")):
                        cut = True
        rep.check(
            window_ok or cut,
            rule,
            CD,
            fi.qualname,
            "sold% counts only fractions whose taxable event is on or before the to-date",
            f"the loop that fills the sold-percentage table {detail} and has no 'event date > to_date' cut: disposals after the to-date would count as sold, so the unrealized cost basis "
            "(fiat_in_with_fee * (1 - sold%)) is too low for every run with a to-date and no longer matches the balances computed up to that date",
            loc(stmt),
        )
        lot_date = ("xcall", "date", ("fld", lot, "AbstractTransaction.__timestamp"), (), ())
        for p in paths:
            sts = [st for st in p.stores() if st[1][0] == "fld" and st[1][2] == FIELD]
            if p.exit in ("raise",):
                continue
            if not sts:
                if p.exit not in ("continue", "fall", "break"):
                    rep.violation(rule, CD, fi.qualname, f"sold% loop path ends by '{p.exit}'", f"a path of the sold-percentage loop leaves by '{p.exit}'", loc(p.exit_node))
                continue
            st = sts[0]
            d = delta_of(st[3], st[1], st[2])
            key_ok = tkey(st[2]) == tkey(lot)
            zero_ok = st[4] is None or (st[4][0] == "const" and st[4][1] == 0)
            ok = key_ok and d is not None and same(with_lot(d) if d[0] == "ite" else d, with_lot(pct)) and zero_ok and len(sts) == 1
            rep.check(ok, rule, CD, fi.qualname, "sold%[fraction's own lot] += amount / lot.crypto_in, from ZERO", f"{short(st[5], 100)} changes the table by {show(d)[:200] if d is not None else 'a non-additive value'} under key {show(st[2])[:80]} (default {show(st[4]) if st[4] else None}); expected += gl.acquired_lot_fraction_percentage under gl.acquired_lot", loc(st[5]))
            bad = []
            for c in p.conds():
                if c in (("truthy", lot), ("cmp", "is not", lot, ("const", None))):
                    continue
                if c[0] == "cmp" and c[1] in FLIP and c[2] in (("sym", "from_date"), ("sym", "to_date")):
                    c = ("cmp", FLIP[c[1]], c[3], c[2])  # bound on the left (`from_date <= d`): read as `d >= from_date`
                if c[0] == "cmp" and tkey(c[2]) == tkey(lot_date) and c[3] in (("sym", "from_date"), ("sym", "to_date")) and c[1] in (">=", "<="):
                    if (c[3][1] == "from_date") == (c[1] == ">="):
                        continue
                if c[0] == "cmp" and tkey(c[2]) == tkey(ev_date) and c[3] == ("sym", "to_date") and c[1] == "<=":
                    continue
                bad.append(c)
            rep.check(not bad, rule, CD, fi.qualname, "every fraction with a lot inside the window counts", f"a fraction is counted only under {[show(c)[:140] for c in bad]}: the other fractions' shares are missing from sold%, so their lots look less sold than they are", loc(stmt))
    if found == 0:
        rep.violation(rule, CD, fi.qualname, "sold% table is filled", "no loop in ComputedData.__init__ fills the in-lot sold-percentage table", loc(fi.node))


def _check_groupby(rep, rule, prog) -> None:
    from ..groupby import check_groupby

    check_groupby(rep, rule, prog, (OP, CD, "rp2.balance"), "a holder with accounts on exchanges that sort on either side of another holder's exchange loses rows and balance; fractions of a year that is met twice contribute to no line")

"""Regenerates /verif/MANIFEST.json from the META blocks of the implemented checks: python -m sa.manifest"""

from __future__ import annotations

import importlib
import json
from pathlib import Path

VERIF = Path(__file__).resolve().parent.parent
BASELINE = "cd /repo && /venv/bin/python -m pytest -ra -q -p no:cacheprovider --timeout=900 --continue-on-collection-errors"

PENDING_REASON = "no static check registered yet in this revision (see DESIGN.md section 3 for the planned structural clauses)"


def main() -> None:
    props = [json.loads(l) for l in (VERIF / "properties.jsonl").read_text().splitlines() if l.strip()]
    na_file = VERIF / "not_applicable.json"
    na_reasons = json.loads(na_file.read_text()) if na_file.exists() else {}
    known = json.loads((VERIF / "known_findings.json").read_text()) if (VERIF / "known_findings.json").exists() else {}
    checks = []
    not_applicable = []
    for p in props:
        pid = p["id"]
        try:
            mod = importlib.import_module(f"sa.checks.{pid.lower()}")
        except ModuleNotFoundError:
            mod = None
        if pid in na_reasons or mod is None:
            not_applicable.append({"property_id": pid, "reason": na_reasons.get(pid, PENDING_REASON)})
            continue
        meta = mod.META
        checks.append(
            {
                "property_id": pid,
                "quick_cmd": f"./check {pid} --tier quick",
                "thorough_cmd": f"./check {pid} --tier thorough",
                "evidence_file": f"/verif/evidence/{pid}.json",
                "replay_cmd_template": f"./check {pid} --replay {{path}}",
                "engine": "sa",
                "level_claimed": {
                    "category": "other",
                    "text": "Static obligation checker written for this repository (no execution of rp2). decides: "
                    + meta["explanation"]
                    + (" Premises restated from other properties' rules (each a necessary condition here too): " + meta["restated"] + "." if meta.get("restated") else "")
                    + " does not decide: "
                    + meta["not_decided"]
                    + " Verdicts are given for the anchored functions in their reference shape, modulo the loader's canonical spellings and renamed locals; a finding located in a function "
                    "that changed shape (new helper or record type, changed parameters, new lookup table or field) is withheld - the run ends exit 2, 'not decided for this shape' - unless the rule "
                    "names a positively wrong construct.",
                    "design_ref": f"DESIGN.md section 3, {pid}",
                },
                "level_note": "Trusted base: CPython's ast module, the checker's own resolver/normaliser (tested both ways by selftest/), "
                "and the semantics of the third-party/stdlib calls named in the obligations. "
                + " ".join(meta.get("assumptions", [])),
                "technique": "static analysis: " + meta["technique"],
            }
        )
    manifest = {
        "version": 1,
        "setup_cmd": "chmod +x /verif/check && /venv/bin/python -c 'import ast, sys; sys.path.insert(0, \"/verif\"); import sa.main'",
        "hooks": {
            "guard": "EPRBELL_RP2_VERIF",
            "enable": "none needed: the checks read /repo's source and never build or run it; no hook commits exist",
            "baseline_off_cmd": BASELINE,
            "source_commits": [f["commit"] for f in known.get("fixed_commits", [])],
            "add_only": True,
        },
        "engines": [
            {
                "name": "sa",
                "path": "/verif/sa",
                "serves_properties": [c["property_id"] for c in checks],
                "kind_free_text": "repository-specific static analyser: ast-based resolver (classes, MRO, properties, imports), expression normal forms with getter "
                "inlining, finite-domain constant propagation over enums, structured path enumeration, call graph, artefact readers (ODS templates, locales), "
                "optional mypy type map",
            }
        ],
        "checks": checks,
        "not_applicable": not_applicable,
        "notes": "Exit codes: 0 all obligations discharged (KNOWN-FINDING lines for listed findings), 1 VIOLATION, 2 ANALYSIS-ERROR (anchor vanished / idiom not "
        "interpretable / analyser crash). Set VERIF_REPO to analyse another tree. selftest/run.py replays the mutant and benign-twin corpus on scratch copies.",
    }
    (VERIF / "MANIFEST.json").write_text(json.dumps(manifest, indent=1) + "\n")
    print(f"MANIFEST.json: {len(checks)} checks, {len(not_applicable)} not_applicable")


if __name__ == "__main__":
    main()

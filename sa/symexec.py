"""Path-sensitive symbolic execution of *straight-line / branching* statement lists into effect summaries.

This is not execution of rp2: values are the normal-form terms of ``norm`` and
the only "state" is (a) the term bound to each local name and (b) a small store
for ``container[key] = value`` so that a later read of the same slot on the same
path sees the value just written (needed for "check the balance just debited").

A path is a list of events in program order:
  ('cond', term, polarity)           branch taken
  ('store', container, key, value, old_default)   container[key] = value  (reads of the same slot appear as ('old', container, key))
  ('setattr', base, 'Class.attr', value)
  ('call', term, ast_node)           expression statement call (cell writes, append, add_entry, ...)
  ('local', name, term)              local (re)binding, kept for def-use questions
  ('del', container, key)
  ('setdefault', container, key, value, ast_node)   container.setdefault(key, value) as a statement: store only if the slot is empty
plus an exit kind: fall / return / raise / break / continue / exit and the return term if any.
Nested loops inside the analysed body are summarised as ('loop', [paths of body]) with the variables they assign havoc-ed.
"""

from __future__ import annotations

import ast
from dataclasses import dataclass, field
from typing import Any, Dict, List, Optional, Tuple

from .loader import AnalysisError, unparse
from .norm import ANY, Ctx, Norm, Term, Type, mk_add, mk_mul, mk_neg, mk_not, subterms, tkey
from .paths import is_sys_exit


RAISE_T: Term = ("raise",)


@dataclass
class SPath:
    events: List[Tuple[Any, ...]] = field(default_factory=list)
    exit: str = "fall"
    ret: Optional[Term] = None
    exit_node: Optional[ast.AST] = None
    vars: Dict[str, Tuple[Term, Type]] = field(default_factory=dict)
    store: Dict[Tuple[str, str], Term] = field(default_factory=dict)
    epochs: Dict[str, int] = field(default_factory=dict)  # container -> number of stores so far on this path
    defaults: Dict[Tuple[str, str], Term] = field(default_factory=dict)  # slot -> default Z of the last d.get(k, Z) / d.setdefault(k, Z) read

    def conds(self) -> List[Term]:
        """Branch conditions taken on the path, polarity applied, top-level conjunctions flattened."""
        out: List[Term] = []
        for e in self.events:
            if e[0] == "cond":
                c = e[1] if e[2] else mk_not(e[1])
                out.extend(c[1] if c[0] == "and" else [c])
        return out

    def stores(self) -> List[Tuple[Any, ...]]:
        return [e for e in self.events if e[0] == "store"]

    def calls(self) -> List[Tuple[Any, ...]]:
        return [e for e in self.events if e[0] == "call"]


class SymExec:
    def __init__(self, norm: Norm, ctx: Ctx, max_paths: int = 4000, inline_helpers: bool = True) -> None:
        self.inline_helpers = inline_helpers
        self.norm = norm
        if ctx.func is not None:
            norm.touched.add(ctx.func.fq)
        self.base_ctx = ctx
        self.max_paths = max_paths
        self.depth = 0
        self.busy: Tuple[str, ...] = ()
        # declared types of locals (bare 'x: T' declarations are how this code base types its loop-carried variables)
        self._declared: Dict[str, Type] = {}
        if ctx.func is not None:
            from .norm import ann_to_type

            for n in ast.walk(ctx.func.node):
                if isinstance(n, ast.AnnAssign) and isinstance(n.target, ast.Name):
                    self._declared.setdefault(n.target.id, ann_to_type(norm.prog, ctx.module, n.annotation, ctx.cls))

    # --------------------------------------------------------------- terms
    def _rewrite(self, t: Any, st: SPath) -> Any:
        """Slot reads -> stored value on this path, else the canonical ('old', container, key)."""
        if not isinstance(t, tuple) or not t:
            return t
        if t[0] == "const":
            return t
        t = tuple(self._rewrite(x, st) if isinstance(x, tuple) else x for x in t)
        slot = None
        if t[0] == "sub":
            slot = (t[1], t[2])
        elif t[0] == "xcall" and t[1] in ("get", "setdefault") and t[2] is not None and len(t[3]) >= 1:
            slot = (t[2], t[3][0])
            if len(t[3]) >= 2:
                st.defaults[(tkey(slot[0]), tkey(slot[1]))] = t[3][1]
        if slot is not None:
            key = (tkey(slot[0]), tkey(slot[1]))
            if key in st.store:
                return st.store[key]
            # epoch = how many stores into this container precede the read: a read that is older than a later
            # store through a *different* (possibly aliasing) key is a stale read
            return ("old", slot[0], slot[1], st.epochs.get(tkey(slot[0]), 0))
        return t

    def eval(self, node: ast.AST, st: SPath) -> Tuple[Term, Type]:
        if isinstance(node, ast.Dict) and not node.keys:
            # an empty dict display is a fresh allocation: two of them are never the same container (nested-dict bookkeeping)
            return ("fresh", "dict", f"{node.lineno}:{node.col_offset}"), ("dict", ANY, ANY)
        ctx = self.base_ctx.child(vars=dict(self.base_ctx.vars, **st.vars), subst_locals=False)
        t, ty = self.norm.eval(node, ctx)
        return self._rewrite(t, st), ty

    def cond(self, node: ast.AST, st: SPath) -> Term:
        ctx = self.base_ctx.child(vars=dict(self.base_ctx.vars, **st.vars), subst_locals=False)
        return self._rewrite(self.norm.cond(node, ctx), st)

    # ---------------------------------------------------------------- exec
    def run(self, stmts: List[ast.stmt], init: Optional[SPath] = None) -> List[SPath]:
        states = [init or SPath()]
        for stmt in stmts:
            nxt: List[SPath] = []
            for st in states:
                if st.exit != "fall":
                    nxt.append(st)
                else:
                    nxt.extend(self.stmt(stmt, st))
            states = nxt
            if len(states) > self.max_paths:
                raise AnalysisError(f"symbolic path enumeration exceeded {self.max_paths} paths")
        return states

    @staticmethod
    def _clone(st: SPath) -> SPath:
        return SPath(list(st.events), st.exit, st.ret, st.exit_node, dict(st.vars), dict(st.store), dict(st.epochs), dict(st.defaults))

    def _default_of(self, cont: Term, key: Term, st: SPath) -> Optional[Term]:
        """Default Z of the d.get(k, Z) / d.setdefault(k, Z) through which this slot was last read on the path (for init-value checks)."""
        return st.defaults.get((tkey(cont), tkey(key)))

    def _assign_target(self, tgt: ast.AST, value: Term, vty: Type, st: SPath, src: ast.AST) -> None:
        if isinstance(tgt, ast.Name):
            if vty == ANY:
                vty = self._declared.get(tgt.id, ANY)
            st.vars[tgt.id] = (value, vty)
            st.events.append(("local", tgt.id, value))
        elif isinstance(tgt, (ast.Tuple, ast.List)):
            for i, el in enumerate(tgt.elts):
                if value[0] in ("tuple", "list") and i < len(value[1]):
                    self._assign_target(el, value[1][i], ANY, st, src)
                else:
                    self._assign_target(el, ("proj", i, value), ANY, st, src)
        elif isinstance(tgt, ast.Subscript):
            cont, _ = self.eval(tgt.value, st)
            key, _ = self.eval(tgt.slice, st)
            st.events.append(("store", cont, key, value, self._default_of(cont, key, st), src, st.epochs.get(tkey(cont), 0)))
            st.store[(tkey(cont), tkey(key))] = value
            st.epochs[tkey(cont)] = st.epochs.get(tkey(cont), 0) + 1
        elif isinstance(tgt, ast.Attribute):
            base, bty = self.eval(tgt.value, st)
            ctx = self.base_ctx
            owner = ctx.cls.name if (ctx.cls is not None and isinstance(tgt.value, ast.Name) and tgt.value.id == "self") else "?"
            st.events.append(("setattr", base, f"{owner}.{tgt.attr}", value, src))
        elif isinstance(tgt, ast.Starred):
            self._assign_target(tgt.value, ("star", value), ANY, st, src)

    # ------------------------------------------------------- helper inlining
    def _callee(self, call: ast.Call, st: SPath):
        """Internal function a call statement resolves to, when it is a small *checking helper* (contains a raise, no loops)."""
        if self.depth >= 2 or not self.inline_helpers:
            return None
        ctx = self.base_ctx.child(vars=dict(self.base_ctx.vars, **st.vars), subst_locals=False)
        try:
            ft, fty = self.norm.eval(call.func, ctx)
        except Exception:
            return None
        fi = None
        recv = None
        if fty and fty[0] == "func":
            fi = self.norm.prog.functions.get(fty[1])
        elif ft[0] == "bound":
            ci = self.norm.prog.classes.get(fty[1])
            impls = self.norm._impls(ci, ft[2]) if ci is not None else []
            if len(impls) == 1:
                fi, recv = impls[0], ft[1]
        if fi is None or fi.fq in self.busy:
            return None
        nodes = list(ast.walk(fi.node))
        if not any(isinstance(n, ast.Raise) for n in nodes) or any(isinstance(n, (ast.For, ast.While, ast.Try, ast.With)) for n in nodes):
            return None
        if len(nodes) > 400:
            return None
        return fi, recv

    def _inline(self, call: ast.Call, st: SPath):
        """Path-sensitive inlining of a checking helper: [(state, returned term)] or None when not applicable."""
        found = self._callee(call, st)
        if found is None:
            return None
        fi, recv = found
        skip = fi.cls is not None and not fi.is_staticmethod
        params = fi.param_names[1:] if skip else fi.param_names
        cctx = self.norm.ctx_for(fi, subst_locals=False)
        init = SPath([], "fall", None, None, {}, dict(st.store), dict(st.epochs), dict(st.defaults))
        for i, a in enumerate(call.args):
            if i < len(params) and not isinstance(a, ast.Starred):
                t, ty = self.eval(a, st)
                init.vars[params[i]] = (t, cctx.vars.get(params[i], (None, ty))[1] if cctx.vars.get(params[i], (None, ANY))[1] != ANY else ty)
        for kw in call.keywords:
            if kw.arg:
                t, ty = self.eval(kw.value, st)
                init.vars[kw.arg] = (t, cctx.vars.get(kw.arg, (None, ty))[1] if cctx.vars.get(kw.arg, (None, ANY))[1] != ANY else ty)
        if recv is not None and skip and not fi.is_classmethod:
            init.vars[fi.param_names[0]] = (recv, ("cls", fi.cls.fq))
        self.norm.touched.add(fi.fq)
        sub = SymExec(self.norm, cctx, self.max_paths)
        sub.depth = self.depth + 1
        sub.busy = self.busy + (fi.fq,)
        out = []
        for r in sub.run(fi.body, init):
            ns = self._clone(st)
            ns.events.extend(e for e in r.events if e[0] != "local")
            ns.store, ns.epochs, ns.defaults = dict(r.store), dict(r.epochs), dict(r.defaults)
            if r.exit in ("raise", "exit"):
                ns.exit, ns.exit_node = r.exit, r.exit_node
                out.append((ns, RAISE_T))
            else:
                out.append((ns, r.ret if r.ret is not None else ("const", None)))
        return out

    def stmt(self, stmt: ast.stmt, st: SPath) -> List[SPath]:
        if isinstance(stmt, (ast.Assign, ast.AnnAssign, ast.Expr)) and isinstance(getattr(stmt, "value", None), ast.Call):
            inl = self._inline(stmt.value, st)
            if inl is not None:
                outs = []
                for ns, val in inl:
                    if ns.exit == "fall" and not isinstance(stmt, ast.Expr):
                        targets = stmt.targets if isinstance(stmt, ast.Assign) else [stmt.target]
                        for tgt in targets:
                            self._assign_target(tgt, val, ANY, ns, stmt)
                    outs.append(ns)
                return outs
        if isinstance(stmt, ast.Return):
            st.exit, st.exit_node = "return", stmt
            st.ret = self.eval(stmt.value, st)[0] if stmt.value is not None else ("const", None)
            return [st]
        if isinstance(stmt, ast.Raise):
            if stmt.exc is not None:
                st.events.append(("raise", self.eval(stmt.exc, st)[0], stmt))
            st.exit, st.exit_node = "raise", stmt
            return [st]
        if isinstance(stmt, ast.Break):
            st.exit, st.exit_node = "break", stmt
            return [st]
        if isinstance(stmt, ast.Continue):
            st.exit, st.exit_node = "continue", stmt
            return [st]
        if is_sys_exit(stmt):
            st.exit, st.exit_node = "exit", stmt
            return [st]
        if isinstance(stmt, ast.AnnAssign):
            if stmt.value is not None:
                v, ty = self.eval(stmt.value, st)
                from .norm import ann_to_type

                aty = ann_to_type(self.norm.prog, self.base_ctx.module, stmt.annotation, self.base_ctx.cls)
                self._assign_target(stmt.target, v, aty if aty != ANY else ty, st, stmt)
            return [st]
        if isinstance(stmt, ast.Assign):
            v, ty = self.eval(stmt.value, st)
            for tgt in stmt.targets:
                self._assign_target(tgt, v, ty, st, stmt)
            return [st]
        if isinstance(stmt, ast.AugAssign):
            cur, cty = self.eval(stmt.target, st)
            rhs, _ = self.eval(stmt.value, st)
            if isinstance(stmt.op, ast.Add):
                if cty == ("prim", "str"):
                    v = ("fstr", (cur, rhs))
                else:
                    v = mk_add([cur, rhs])
            elif isinstance(stmt.op, ast.Sub):
                v = mk_add([cur, mk_neg(rhs)])
            elif isinstance(stmt.op, ast.Mult):
                v = mk_mul([cur, rhs])
            else:
                v = ("bin", type(stmt.op).__name__, cur, rhs)
            self._assign_target(stmt.target, v, cty, st, stmt)
            return [st]
        if isinstance(stmt, ast.Expr):
            if isinstance(stmt.value, ast.Call):
                call = stmt.value
                if isinstance(call.func, ast.Attribute) and call.func.attr == "setdefault" and len(call.args) == 2 and not call.keywords:
                    # d.setdefault(k, v) as a statement: a store that happens only when the slot is empty ("first value wins")
                    cont, _ = self.eval(call.func.value, st)
                    key, _ = self.eval(call.args[0], st)
                    val, _ = self.eval(call.args[1], st)
                    st.events.append(("setdefault", cont, key, val, call))
                    return [st]
                t, _ = self.eval(stmt.value, st)
                st.events.append(("call", t, stmt.value))
            return [st]
        if isinstance(stmt, ast.Delete):
            for tgt in stmt.targets:
                if isinstance(tgt, ast.Subscript):
                    cont, _ = self.eval(tgt.value, st)
                    key, _ = self.eval(tgt.slice, st)
                    st.events.append(("del", cont, key, stmt))
                    st.store.pop((tkey(cont), tkey(key)), None)
            return [st]
        if isinstance(stmt, ast.If):
            c = self.cond(stmt.test, st)
            out: List[SPath] = []
            if c != ("const", False):
                a = self._clone(st)
                a.events.append(("cond", c, True, stmt))
                out.extend(self.run(stmt.body, a))
            if c != ("const", True):
                b = self._clone(st)
                b.events.append(("cond", c, False, stmt))
                out.extend(self.run(stmt.orelse, b))
            return out
        if isinstance(stmt, (ast.For, ast.While)):
            inner = self._clone(st)
            inner.events = []
            if isinstance(stmt, ast.For):
                it, ity = self.eval(stmt.iter, st)
                ety = self.norm.elem_type(ity)
                self._havoc_target(stmt.target, inner, ety)
            assigned = {n.id for s in stmt.body for n in ast.walk(s) if isinstance(n, ast.Name) and isinstance(n.ctx, ast.Store)}
            # loop-carried locals have an unknown value at the start of an arbitrary iteration (accumulators: acc -> acc + x)
            for name in assigned:
                if name in inner.vars:
                    inner.vars[name] = (("sym", name), inner.vars[name][1])
            if isinstance(stmt, ast.For):
                self._havoc_target(stmt.target, inner, ety)
            inner.store = {}
            body_paths = SymExec(self.norm, self.base_ctx, self.max_paths).run(stmt.body, inner)
            st.events.append(("loop", body_paths, stmt))
            if isinstance(stmt, ast.For):
                assigned |= {n.id for n in ast.walk(stmt.target) if isinstance(n, ast.Name)}
            for name in assigned:
                ty = st.vars.get(name, (None, ANY))[1]
                st.vars[name] = (("sym", f"{name}@loop{stmt.lineno}"), ty)
            st.store.clear()
            outs = [st]
            # a return / raise inside the loop body ends the enclosing path too (kept as separate exits)
            for bp in body_paths:
                if bp.exit in ("return", "raise", "exit"):
                    e = self._clone(st)
                    e.exit, e.ret, e.exit_node = bp.exit, bp.ret, bp.exit_node
                    outs.append(e)
            return outs
        if isinstance(stmt, ast.With):
            for item in stmt.items:
                v, ty = self.eval(item.context_expr, st)
                if item.optional_vars is not None:
                    self._assign_target(item.optional_vars, v, ty, st, stmt)
            return self.run(stmt.body, st)
        if isinstance(stmt, ast.Try):
            outs = self.run(list(stmt.body) + list(stmt.orelse), self._clone(st))
            for h in stmt.handlers:
                hs = self._clone(st)
                hs.events.append(("handler", unparse(h.type) if h.type else "BaseException", h))
                outs.extend(self.run(h.body, hs))
            if stmt.finalbody:
                fin: List[SPath] = []
                for o in outs:
                    saved = (o.exit, o.ret, o.exit_node)
                    o.exit = "fall"
                    for f in self.run(stmt.finalbody, o):
                        if f.exit == "fall":
                            f.exit, f.ret, f.exit_node = saved
                        fin.append(f)
                outs = fin
            return outs
        return [st]

    def _havoc_target(self, tgt: ast.AST, st: SPath, ety: Type) -> None:
        if isinstance(tgt, ast.Name):
            st.vars[tgt.id] = (("sym", tgt.id), ety)
        elif isinstance(tgt, (ast.Tuple, ast.List)):
            for i, el in enumerate(tgt.elts):
                sub = ety[1][i] if ety and ety[0] == "tuple" and i < len(ety[1]) else ANY
                self._havoc_target(el, st, sub)


def _is_old(x: Term, container: Term, key: Term) -> bool:
    return x[0] == "old" and tkey(x[1]) == tkey(container) and tkey(x[2]) == tkey(key)


def delta_of(value: Term, container: Term, key: Term) -> Optional[Term]:
    """If ``value`` == old(container,key) + d, return d (the additive effect of the store); None otherwise."""
    if _is_old(value, container, key):
        return ("const", 0)
    if value[0] == "add":
        rest = [x for x in value[1] if not _is_old(x, container, key)]
        if len(rest) == len(value[1]) - 1:
            return mk_add(rest)
    return None


def read_epochs(value: Term, container: Term) -> List[int]:
    """Epochs of every read of ``container`` inside ``value`` (see SymExec._rewrite)."""
    return [s[3] for s in _all_tuples(value) if s and s[0] == "old" and len(s) == 4 and tkey(s[1]) == tkey(container)]


def mentions_old(t: Term, container: Term, key: Term) -> bool:
    return any(s and _is_old(s, container, key) for s in _all_tuples(t) if s and isinstance(s[0], str))


def _all_tuples(t: Any):
    if isinstance(t, tuple):
        yield t
        for x in t:
            if isinstance(x, tuple):
                yield from _all_tuples(x)

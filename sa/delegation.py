"""Has the function a finding points at changed *shape* in a way the rules were not written for?

A rule that reads the body of an anchored function decides nothing about statements that were moved into a helper the function now calls (extract
method, pull-up into a base class), about values that now travel inside a new parameter object or a new table, or about a function whose parameters
were reordered. Reporting "the expected construct is gone" in that situation would be a false alarm on a behaviour-preserving refactoring, so such
findings are *withheld*: the run ends as ANALYSIS-ERROR (exit 2, "not decided for this shape") unless another finding stands.

Reference: `sa/refcalls.json`, regenerated together with refnames.json by `python -m sa.alpha --write` from the tree the rules were written against:
per function the names it calls and its parameter list; for the whole package the names of all functions and classes, all module-level names and all
attribute names. A function "changed shape" when

  * it does not exist in the reference (a new function), or its parameter list differs from the reference's,
  * it calls a function or class of the package that exists nowhere in the reference (an extracted / pulled-up helper, a new record type) and that
    the interpreter did not enter during this run (rules declared `follows_calls` only),
  * it calls a package function whose parameter list changed (every definition of that name), or it used to call a helper that the package
    no longer defines (inlined),
  * it reads a module-level lookup table (a name bound to a dictionary) or a field that exists nowhere in the reference / is new to its class.

Findings a rule marks `definite` (a positively wrong construct was identified, not an expected one missed) are never withheld.
"""

from __future__ import annotations

import ast
import json
from pathlib import Path
from typing import Any, Dict, List, Optional, Set

TABLE = Path(__file__).resolve().parent / "refcalls.json"
_CACHE: Optional[Dict[str, Any]] = None


def _functions(tree: ast.AST, prefix: str = ""):
    for node in getattr(tree, "body", []):
        if isinstance(node, (ast.FunctionDef, ast.AsyncFunctionDef)):
            yield prefix + node.name, node
            yield from _functions(node, prefix + node.name + ".<locals>.")
        elif isinstance(node, ast.ClassDef):
            yield from _functions(node, prefix + node.name + ".")


def callee_names(fn: ast.AST) -> Set[str]:
    out: Set[str] = set()
    for n in ast.walk(fn):
        if isinstance(n, ast.Call):
            f = n.func
            if isinstance(f, ast.Name):
                out.add(f.id)
            elif isinstance(f, ast.Attribute):
                out.add(f.attr)
    return out


def _params(fn: ast.AST) -> List[str]:
    a = fn.args
    return [x.arg for x in a.posonlyargs + a.args] + (["*" + a.vararg.arg] if a.vararg else []) + [x.arg for x in a.kwonlyargs] + (["**" + a.kwarg.arg] if a.kwarg else [])


def _module_level_names(tree: ast.AST) -> Set[str]:
    """Module-level *lookup tables* (names bound to a dictionary display / comprehension): a new one means logic moved from statements into data.
    Plain constants (a format string, a limit, a timedelta, a set of names) are not a change of shape - a rule can read the expression that uses them."""
    out: Set[str] = set()
    for st in getattr(tree, "body", []):
        if isinstance(st, (ast.Assign, ast.AnnAssign)) and isinstance(getattr(st, "value", None), (ast.Dict, ast.DictComp)):
            for t in st.targets if isinstance(st, ast.Assign) else [st.target]:
                if isinstance(t, ast.Name):
                    out.add(t.id)
    return out


def _attr_names(tree: ast.AST) -> Set[str]:
    return {n.attr for n in ast.walk(tree) if isinstance(n, ast.Attribute)}


def _defined(tree: ast.AST) -> Set[str]:
    out = {q.split(".")[-1] for q, _ in _functions(tree)}
    out |= {n.name for n in ast.walk(tree) if isinstance(n, ast.ClassDef)}
    return out


def _class_self_attrs(tree: ast.AST) -> Dict[str, List[str]]:
    """class name -> attribute names accessed on self / cls inside the class (its own fields and methods, lexically)."""
    out: Dict[str, List[str]] = {}
    for c in ast.walk(tree):
        if isinstance(c, ast.ClassDef):
            names = {n.attr for n in ast.walk(c) if isinstance(n, ast.Attribute) and isinstance(n.value, ast.Name) and n.value.id in ("self", "cls")}
            names |= {t.id for st in c.body if isinstance(st, (ast.Assign, ast.AnnAssign)) for t in (st.targets if isinstance(st, ast.Assign) else [st.target]) if isinstance(t, ast.Name)}
            out[c.name] = sorted(set(out.get(c.name, [])) | names)
    return out


def snapshot(package) -> Dict[str, Any]:
    funcs: Dict[str, Dict[str, Any]] = {}
    defined: Set[str] = set()
    globs: Set[str] = set()
    attrs: Set[str] = set()
    by_name: Dict[str, Set[str]] = {}
    class_attrs: Dict[str, Dict[str, List[str]]] = {}
    for name, mod in sorted(package.modules.items()):
        class_attrs[name] = _class_self_attrs(mod.tree)
        funcs[name] = {}
        for q, fn in _functions(mod.tree):
            funcs[name][q] = {"calls": sorted(callee_names(fn)), "params": _params(fn)}
            by_name.setdefault(q.split(".")[-1], set()).add("|".join(_params(fn)))
        defined |= _defined(mod.tree)
        globs |= _module_level_names(mod.tree)
        attrs |= _attr_names(mod.tree)
    return {"functions": funcs, "defined": sorted(defined), "globals": sorted(globs), "attrs": sorted(attrs), "signatures": {k: sorted(v) for k, v in sorted(by_name.items())}, "class_attrs": class_attrs}


def table() -> Dict[str, Any]:
    global _CACHE
    if _CACHE is None:
        _CACHE = json.loads(TABLE.read_text()) if TABLE.exists() else {}
    return _CACHE


def write(package) -> int:
    snap = snapshot(package)
    TABLE.write_text(json.dumps(snap, indent=0, sort_keys=True) + "\n")
    return sum(len(v) for v in snap["functions"].values())


_CUR: Dict[int, Dict[str, Any]] = {}


def _current(package) -> Dict[str, Any]:
    key = id(package)
    if key not in _CUR:
        _CUR[key] = snapshot(package)
    return _CUR[key]


def shape_changes(package, module: str, qualname: str, touched: Set[str], only_helpers: bool = False) -> List[str]:
    """Why a finding located in this function is not decidable by a rule that reads the reference shape ([] = the function still has the shape)."""
    ref = table()
    if not ref:
        return []
    ref_mod = ref["functions"].get(module)
    mod = package.modules.get(module)
    if ref_mod is None or mod is None:
        return []
    cur_funcs = dict(_functions(mod.tree))
    fn = cur_funcs.get(qualname)
    if fn is None:
        # class-level or module-level finding: every function in that scope that changed shape
        scope = [q for q in cur_funcs if qualname in ("<module>", "") or q.startswith(qualname + ".")]
        out: List[str] = []
        for q in scope:
            out += [f"{q}: {h}" for h in shape_changes(package, module, q, touched, only_helpers)]
        return out
    if qualname not in ref_mod:
        return ["new function"]
    reasons: List[str] = []
    rf = ref_mod[qualname]
    if _params(fn) != rf["params"]:
        reasons.append(f"parameters changed from ({', '.join(rf['params'])}) to ({', '.join(_params(fn))})")
    cur = _current(package)
    known = set(ref["defined"])
    interpreted = {t.split(":")[-1].split(".")[-1] for t in touched}
    # every called name that the package defines now and the reference tree defines nowhere (whether or not the reference version of the function already
    # called something of that name, e.g. set.add before a record type grew an add() method)
    new_helpers = sorted(h for h in callee_names(fn) if h in set(cur["defined"]) and h not in known and h not in interpreted)
    if new_helpers:
        reasons.append(f"delegates to new {new_helpers[:4]}")
    gone = sorted(h for h in set(rf["calls"]) - callee_names(fn) if h in known and h not in set(cur["defined"]))
    if gone and not only_helpers:
        reasons.append(f"no longer calls {gone[:4]}, which the package no longer defines (inlined or removed helper)")
    if only_helpers:  # a rule that interprets what it reads (parameter objects, new fields and tables included) gives way only to code it did not enter
        return [r for r in reasons if r.startswith("delegates to new")]
    changed_sig = sorted(h for h in callee_names(fn) if h in ref["signatures"] and h in cur["signatures"] and cur["signatures"][h] != ref["signatures"][h] and h != "__init__")
    if changed_sig:
        reasons.append(f"calls {changed_sig[:4]} whose parameters changed")
    new_globals = sorted({n.id for n in ast.walk(fn) if isinstance(n, ast.Name) and isinstance(n.ctx, ast.Load)} & (set(cur["globals"]) - set(ref["globals"])))
    if new_globals:
        reasons.append(f"reads new module-level {new_globals[:4]}")
    # fields the package itself introduces (accessed on self / cls in some class now, unknown as attribute, function or class name to the reference):
    # attributes of library objects (Path.home, struct_time.tm_year, ...) are not a change of the package's own shape
    own_fields = {a for cls_map in cur.get("class_attrs", {}).values() for names in cls_map.values() for a in names}
    ref_fields = {a for cls_map in ref.get("class_attrs", {}).values() for names in cls_map.values() for a in names}
    new_attrs = sorted(({n.attr for n in ast.walk(fn) if isinstance(n, ast.Attribute)} & own_fields) - set(ref["attrs"]) - ref_fields - set(ref["globals"]) - known - set(new_helpers))
    if new_attrs:
        reasons.append(f"uses new attribute(s) {new_attrs[:4]}")
    if "." in qualname:
        cls_name = qualname.split(".")[0]
        ref_cls = ref.get("class_attrs", {}).get(module, {}).get(cls_name)
        if ref_cls is not None:
            mine = {n.attr for n in ast.walk(fn) if isinstance(n, ast.Attribute) and isinstance(n.value, ast.Name) and n.value.id in ("self", "cls") and n.attr.startswith("_")}
            fresh_fields = sorted(mine - set(ref_cls) - set(new_attrs) - set(new_helpers))
            if fresh_fields:
                reasons.append(f"uses field(s) new to class {cls_name}: {fresh_fields[:4]}")
    return reasons


def new_helpers(package, module: str, qualname: str, touched: Set[str]) -> List[str]:  # kept for callers of the first version
    return shape_changes(package, module, qualname, touched)

"""Has the function a finding points at started to delegate to code the rule did not look at?

A rule that reads the body of an anchored function decides nothing about statements that were moved into a helper the function now calls (extract
method, pull-up into a base class). Reporting "the expected construct is gone" in that situation would be a false alarm on a behaviour-preserving
refactoring, so such findings are *withheld*: the run ends as ANALYSIS-ERROR (exit 2, "not decided for this shape") unless another finding stands.

Reference: `sa/refcalls.json` (module -> qualname -> names called by the function on the tree the rules were written against; regenerated together with
refnames.json by `python -m sa.alpha --write`). A callee counts as a new helper when the package defines a function or method of that name, no function of that name
exists anywhere in the reference tree, the reference version of the calling function did not call that name, and - for rules declared `follows_calls` - the
interpreter (norm / symexec inlining) did not enter it during this run. Findings a rule marks `definite` (a positively wrong construct was identified, not an
expected one missed) are never withheld.
"""

from __future__ import annotations

import ast
import json
from pathlib import Path
from typing import Dict, List, Optional, Set

TABLE = Path(__file__).resolve().parent / "refcalls.json"
_CACHE: Optional[Dict[str, Dict[str, List[str]]]] = None


def _functions(tree: ast.AST, prefix: str = ""):
    for node in getattr(tree, "body", []):
        if isinstance(node, (ast.FunctionDef, ast.AsyncFunctionDef)):
            yield prefix + node.name, node
            yield from _functions(node, prefix + node.name + ".<locals>.")
        elif isinstance(node, ast.ClassDef):
            yield from _functions(node, prefix + node.name + ".")


def callee_names(fn: ast.AST) -> Set[str]:
    out: Set[str] = set()
    for n in ast.walk(fn):
        if isinstance(n, ast.Call):
            f = n.func
            if isinstance(f, ast.Name):
                out.add(f.id)
            elif isinstance(f, ast.Attribute):
                out.add(f.attr)
    return out


def describe(tree: ast.AST) -> Dict[str, List[str]]:
    return {q: sorted(callee_names(fn)) for q, fn in _functions(tree)}


def table() -> Dict[str, Dict[str, List[str]]]:
    global _CACHE
    if _CACHE is None:
        _CACHE = json.loads(TABLE.read_text()) if TABLE.exists() else {}
    return _CACHE


def write(package) -> int:
    out = {name: describe(mod.tree) for name, mod in sorted(package.modules.items())}
    TABLE.write_text(json.dumps(out, indent=0, sort_keys=True) + "\n")
    return sum(len(v) for v in out.values())


def new_helpers(package, module: str, qualname: str, touched: Set[str]) -> List[str]:
    """Names of package functions the function now calls, did not call in the reference, and that were not interpreted in this run.
    ['<new function>'] when the function itself does not exist in the reference."""
    ref_mod = table().get(module)
    mod = package.modules.get(module)
    if ref_mod is None or mod is None:
        return []
    cur = dict(_functions(mod.tree))
    fn = cur.get(qualname)
    if fn is None:
        # class-level or module-level finding: every function of that class / module that is new or delegates anew
        scope = [q for q in cur if qualname in ("<module>", "") or q.startswith(qualname + ".")]
        out: List[str] = []
        for q in scope:
            out += [f"{q} -> {h}" for h in new_helpers(package, module, q, touched)]
        return out
    if qualname not in ref_mod:
        return ["<new function>"]
    defined: Set[str] = set()
    for m in package.modules.values():
        for q, _ in _functions(m.tree):
            defined.add(q.split(".")[-1])
    known = {q.split(".")[-1] for fns in table().values() for q in fns}  # every function name the reference tree defines
    interpreted = {t.split(":")[-1].split(".")[-1] for t in touched}
    fresh = callee_names(fn) - set(ref_mod[qualname])
    # a *new function* of the package (an extracted / pulled-up helper); a new call of a function that already existed is something the rules can read
    return sorted(h for h in fresh if h in defined and h not in known and h not in interpreted)

"""Shared obligations on the lot-matching engine (tax_engine, accounting_engine, abstract_accounting_method, method plugins).

Used by C01 (order), C02 (coverage / no overspend) and C09 (no look-ahead).  Each function takes the Report and the
rule id under which its obligations are recorded, so that a property's check only claims the clauses it needs.
"""

from __future__ import annotations

import ast
import re
from typing import Any, Dict, List, Optional, Tuple

from .consts import UNKNOWN, Folder, fold_class_attr
from .loader import AnalysisError, ancestors, loc, short, unparse
from .norm import FLIP, Ctx, mk_add, mk_neg, mk_not, show, strip_validators, subterms, tkey
from .report import Report
from .rp2model import Model, model
from .symexec import SPath, SymExec

AE = "rp2.accounting_engine"
AAM = "rp2.abstract_accounting_method"
TE = "rp2.tax_engine"


def _tuples(t: Any):
    if isinstance(t, tuple):
        yield t
        for x in t:
            if isinstance(x, tuple):
                yield from _tuples(x)


# ---------------------------------------------------------------------------
# AVL key builder: order preserving, same builder for lots and events
def check_key_builder(rep: Report, rule: str) -> None:
    m = model()
    prog, norm = m.prog, m.norm
    eng = prog.cls(AE, "AccountingEngine")
    fi = prog.func(AE, "AccountingEngine._get_avl_node_key")
    rep.analysed(fi)
    t = norm.inline(fi, ("sym", "eng"), {}, Ctx(fi.module, eng))
    where = loc(fi.node)
    if t[0] != "fstr":
        rep.violation(rule, fi.module, fi.qualname, "key = f'<utc timestamp>_<padded id>'", f"the AVL key normalises to {show(t)[:200]}; expected a formatted string of the UTC timestamp and the zero-padded id", where)
        return
    parts = list(t[1])
    ts_parts = [p for p in parts if isinstance(p, tuple) and any(s == ("sym", "timestamp") for s in _tuples(p))]
    id_parts = [p for p in parts if isinstance(p, tuple) and any(s == ("sym", "internal_id") for s in _tuples(p))]
    ok_order = len(ts_parts) == 1 and len(id_parts) == 1 and parts.index(ts_parts[0]) < parts.index(id_parts[0])
    rep.check(ok_order, rule, fi.module, fi.qualname, "key orders by timestamp first, id second", f"the key is {show(t)[:240]}; the timestamp must be the most significant part, the id the disambiguator", where)
    if not ok_order:
        return
    tsp = ts_parts[0]
    # accepted spellings: <x>.strftime(PATTERN)  or  format(<x>, PATTERN), where <x> = timestamp.astimezone(timezone.utc)
    pattern = None
    subject = None
    if tsp[0] == "xcall" and tsp[1] == "strftime" and tsp[2] is not None and len(tsp[3]) == 1 and tsp[3][0][0] == "const":
        subject, pattern = tsp[2], tsp[3][0][1]
    elif tsp[0] == "xcall" and tsp[1] == "format" and len(tsp[3]) == 2 and tsp[3][1][0] == "const":
        subject, pattern = tsp[3][0], tsp[3][1][1]
    utc_ok = subject is not None and subject[0] == "xcall" and subject[1] == "astimezone" and subject[2] == ("sym", "timestamp") and len(subject[3]) == 1 and "timezone.utc" in show(subject[3][0])
    rep.check(
        utc_ok,
        rule,
        fi.module,
        fi.qualname,
        "timestamp is converted to UTC before it is formatted",
        f"the key formats {show(subject)[:160] if subject else show(tsp)[:160]}: without timestamp.astimezone(timezone.utc) keys order by local wall-clock digits, so with mixed UTC offsets a lot acquired "
        "after a disposal can enter its candidate window and a lot acquired before it can be left out",
        where,
    )
    dirs = re.findall(r"%(.)", str(pattern or ""))
    want = ["Y", "m", "d", "H", "M", "S"]
    fixed = dirs[:6] == want and dirs[6:] in ([], ["f"]) and not re.search(r"%[^YmdHMSf]", str(pattern or ""))
    rep.check(fixed, rule, fi.module, fi.qualname, "strftime pattern lists fixed-width fields in decreasing significance", f"the timestamp pattern is {pattern!r}; string order equals time order only for %Y %m %d %H %M %S [%f] in that order", where, detail=str(pattern))
    idp = id_parts[0]
    length = fold_class_attr(prog, eng, "KEY_DISAMBIGUATOR_LENGTH")
    pad_ok = idp[0] == "xcall" and idp[1] == "format" and len(idp[3]) == 2 and idp[3][0] == ("sym", "internal_id") and idp[3][1] == ("const", f"0>{length}")
    rep.check(pad_ok and isinstance(length, int), rule, fi.module, fi.qualname, "id is right-aligned, zero-padded to KEY_DISAMBIGUATOR_LENGTH", f"the id part is {show(idp)[:120]}; expected format(internal_id, '0>{length}') so that ids compare as fixed-width digit strings", where)
    maxd = fold_class_attr(prog, eng, "MAX_KEY_DISAMBIGUATOR")
    rep.check(isinstance(maxd, str) and isinstance(length, int) and maxd == "9" * length, rule, fi.module, "AccountingEngine.MAX_KEY_DISAMBIGUATOR", "max disambiguator = '9' * KEY_DISAMBIGUATOR_LENGTH", f"MAX_KEY_DISAMBIGUATOR folds to {maxd!r}; it must be >= every padded id of that length so that the lookup key is the largest key with the event's timestamp", where)
    fmax = prog.func(AE, "AccountingEngine._get_avl_node_key_with_max_disambiguator")
    tm = norm.inline(fmax, ("sym", "eng"), {}, Ctx(fmax.module, eng))
    want_tm = norm.inline(fi, ("sym", "eng"), {"internal_id": (("const", maxd), ("prim", "str"))}, Ctx(fi.module, eng))
    rep.check(tkey(tm) == tkey(want_tm), rule, fmax.module, fmax.qualname, "event lookup key comes from the same builder with the max disambiguator", f"the lookup key normalises to {show(tm)[:200]}; expected the lot key builder applied to (timestamp, MAX_KEY_DISAMBIGUATOR)", loc(fmax.node))
    # initialize: lots keyed by (own timestamp, own id)
    init = prog.func(AE, "AccountingEngine.initialize")
    rep.analysed(init)
    ictx = norm.ctx_for(init, subst_locals=False)
    inserts = [n for n in ast.walk(init.node) if isinstance(n, ast.Call) and isinstance(n.func, ast.Attribute) and n.func.attr == "insert_node" and "acquired_lot_avl" in unparse(n.func.value)]
    ok = False
    lotvar = "?"
    if len(inserts) == 1 and len(inserts[0].args) == 2:
        k = inserts[0].args[0]
        calls = [c for c in ast.walk(k) if isinstance(c, ast.Call) and isinstance(c.func, ast.Attribute) and c.func.attr == "_get_avl_node_key"]
        if len(calls) == 1 and len(calls[0].args) == 2:
            a0, a1 = unparse(calls[0].args[0]), unparse(calls[0].args[1])
            lotvar = a0.split(".")[0]
            ok = a0 == f"{lotvar}.timestamp" and a1 == f"{lotvar}.internal_id" and unparse(inserts[0].args[1]).startswith("_AcquiredLotAndIndex(" + lotvar + ",")
    rep.check(ok, rule, init.module, init.qualname, "each lot is inserted under key(lot.timestamp, lot.internal_id) with its own list index", "AccountingEngine.initialize does not insert every lot under the key built from the lot's own timestamp and id, paired with the lot and its list index", loc(init.node))
    # the index stored with a lot is its position in the lot list: starts at 0, one append and one increment by one per lot, in the same iteration
    idx_name = None
    if ok and inserts:
        second = inserts[0].args[1]
        if isinstance(second, ast.Call) and len(second.args) == 2 and isinstance(second.args[1], ast.Name):
            idx_name = second.args[1].id
    loops_i = [n for n in ast.walk(init.node) if isinstance(n, (ast.While, ast.For)) and inserts and inserts[0] in list(ast.walk(n))]
    idx_ok = False
    detail = "index variable not found"
    if idx_name and loops_i:
        lp = loops_i[0]
        inits = [n for n in init.node.body if isinstance(n, (ast.Assign, ast.AnnAssign)) and unparse(n.targets[0] if isinstance(n, ast.Assign) else n.target) == idx_name]
        incs = [n for n in ast.walk(lp) if isinstance(n, ast.AugAssign) and unparse(n.target) == idx_name] + [n for n in ast.walk(lp) if isinstance(n, ast.Assign) and unparse(n.targets[0]) == idx_name]
        appends = [n for n in ast.walk(lp) if isinstance(n, ast.Call) and isinstance(n.func, ast.Attribute) and n.func.attr == "append" and "acquired_lot_list" in unparse(n.func.value)]
        init_ok = len(inits) == 1 and unparse(inits[0].value) == "0"
        inc_ok = len(incs) == 1 and isinstance(incs[0], ast.AugAssign) and isinstance(incs[0].op, ast.Add) and unparse(incs[0].value) == "1" and incs[0] in lp.body and not any(isinstance(a, ast.If) for a in ancestors(incs[0]) if a is not lp and a in list(ast.walk(lp)))
        app_ok = len(appends) == 1 and unparse(appends[0].args[0]) == lotvar
        order_ok = inc_ok and (incs[0].lineno > inserts[0].lineno)
        idx_ok = init_ok and inc_ok and app_ok and order_ok
        # the same thing spelled with enumerate: `for index, lot in enumerate(<lots>)` (start 0), index never reassigned, one append of the lot per iteration
        if isinstance(lp, ast.For) and isinstance(lp.iter, ast.Call) and isinstance(lp.iter.func, ast.Name) and lp.iter.func.id == "enumerate" and isinstance(lp.target, ast.Tuple) and len(lp.target.elts) == 2:
            start = lp.iter.args[1] if len(lp.iter.args) > 1 else next((k.value for k in lp.iter.keywords if k.arg == "start"), None)
            enum_ok = unparse(lp.target.elts[0]) == idx_name and unparse(lp.target.elts[1]) == lotvar and (start is None or unparse(start) == "0") and not incs
            idx_ok = enum_ok and app_ok and not any(isinstance(n, (ast.Continue, ast.Break)) for n in ast.walk(lp))
        detail = f"'{idx_name}' starts at {unparse(inits[0].value) if inits else None}, is updated by {[unparse(i) for i in incs]}, list appends: {[unparse(a) for a in appends]}"
    rep.check(idx_ok, rule, init.module, init.qualname, "the index stored with a lot is its position in the lot list (0-based, +1 per lot, after the insert)", f"{detail}: the AVL lookup returns this index as the upper bound of a disposal's candidates, so it must equal the lot's position in the list the candidates read", loc(init.node))
    # lookup: find_max_value_less_than(key_with_max(taxable_event.timestamp))
    look = prog.func(AE, "AccountingEngine.get_acquired_lot_for_taxable_event")
    rep.analysed(look)
    finds = [n for n in ast.walk(look.node) if isinstance(n, ast.Call) and isinstance(n.func, ast.Attribute) and n.func.attr.startswith("find_") and "acquired_lot_avl" in unparse(n.func.value)]
    ok = len(finds) == 1 and finds[0].func.attr == "find_max_value_less_than" and unparse(finds[0].args[0]) == "self._get_avl_node_key_with_max_disambiguator(taxable_event.timestamp)"
    rep.check(ok, rule, look.module, look.qualname, "upper bound = last lot with key <= (event timestamp, max id)", f"the candidate upper bound is found by {short(finds[0], 140) if finds else 'nothing'}; expected find_max_value_less_than(key_with_max_disambiguator(taxable_event.timestamp)): the last lot acquired at or before the disposal", loc(look.node))


# ---------------------------------------------------------------------------
# candidate window: only lots up to to_index are ever visible; set_to_index(found index) precedes every seek
def check_candidate_window(rep: Report, rule: str) -> None:
    m = model()
    prog, norm = m.prog, m.norm
    look = prog.func(AE, "AccountingEngine.get_acquired_lot_for_taxable_event")
    body_txt = unparse(look.node)
    se = SymExec(norm, norm.ctx_for(look, subst_locals=False), inline_helpers=False)
    paths = se.run(look.body)
    rets = [p for p in paths if p.exit == "return"]
    if not rets:
        raise AnalysisError("get_acquired_lot_for_taxable_event has no returning path")
    for p in rets:
        calls = p.calls()
        set_idx = [i for i, e in enumerate(p.events) if e[0] == "call" and "set_to_index" in show(e[1])[:4000]]
        seek_idx = [i for i, e in enumerate(p.events) if e[0] in ("local", "cond", "call") and any(len(s) > 1 and s[0] in ("virt", "call", "xcall") and "seek_non_exhausted_acquired_lot" in str(s[1]) for s in _tuples(e))]
        ok = bool(set_idx) and bool(seek_idx) and min(set_idx) < min(seek_idx)
        if set_idx and not seek_idx:
            # the seek has a single implementation and was interpreted into the path (no call event left): fall back on statement order in the source
            seek_calls = [n for n in ast.walk(look.node) if isinstance(n, ast.Call) and isinstance(n.func, ast.Attribute) and n.func.attr == "seek_non_exhausted_acquired_lot"]
            set_calls = [n for n in ast.walk(look.node) if isinstance(n, ast.Call) and isinstance(n.func, ast.Attribute) and n.func.attr == "set_to_index"]
            ok = len(seek_calls) == 1 and len(set_calls) == 1 and (set_calls[0].lineno, set_calls[0].col_offset) < (seek_calls[0].lineno, seek_calls[0].col_offset) and not any(isinstance(a, (ast.If, ast.For, ast.While)) and set_calls[0] in list(ast.walk(a)) and seek_calls[0] not in list(ast.walk(a)) for a in ast.walk(look.node))
        arg_ok = False
        if set_idx:
            st = p.events[set_idx[0]][1]
            # the argument must be exactly <AVL lookup result>.index
            cands = [s for s in _tuples(st) if len(s) == 3 and s[0] == "fld" and s[2] == "_AcquiredLotAndIndex.index" and s[1][0] == "xcall" and s[1][1] == "find_max_value_less_than"]
            arg_terms = []
            if st[0] == "virt":
                for _cls, alt in st[3]:
                    if alt[0] == "call":
                        arg_terms.append(dict(alt[2]).get("to_index"))
            elif st[0] == "call":
                arg_terms.append(dict(st[2]).get("to_index"))
            arg_ok = bool(cands) and bool(arg_terms) and all(a is not None and any(tkey(a) == tkey(c) for c in cands) for a in arg_terms)
        rep.check(ok and arg_ok, rule, look.module, look.qualname, "set_to_index(<index found for this event>) precedes the seek", "on a returning path the candidates' upper index is not set from the AVL-found index before the lot is sought: candidate selection could see lots acquired after the disposal (or miss earlier ones)", loc(look.node))
    # accesses to the shared lot list inside candidates / iterators
    allowed_funcs = {
        f"{AAM}:AbstractAcquiredLotCandidates.add_acquired_lot": "append (not used by the engine after initialisation)",
        f"{AAM}:AbstractAcquiredLotCandidates.acquired_lot_list": "getter",
        f"{AAM}:AbstractAcquiredLotCandidates.__init__": "stores the shared list",
        f"{AAM}:ChronologicalAccountingMethodIterator.__init__": "stores the shared list",
    }
    mod = prog.package.get(AAM)
    n = 0
    for node in ast.walk(mod.tree):
        if isinstance(node, ast.Subscript) and "acquired_lot_list" in unparse(node.value):
            from .loader import enclosing_class, enclosing_function

            f, c = enclosing_function(node), enclosing_class(node)
            qual = f"{c.name}.{f.name}" if c and f else "?"
            idx = unparse(node.slice)
            n += 1
            if qual == "ChronologicalAccountingMethodIterator.__next__":
                ok = idx == "self.__index" and _loop_guarded_by_check_index(f)
                why = "index guarded by _check_index() (between from_index and to_index)"
            elif qual == "FeatureBasedAcquiredLotCandidates.set_to_index":
                loop = next((a for a in ancestors(node) if isinstance(a, ast.For)), None)
                it = loop.iter if loop is not None else None
                ok = (
                    isinstance(it, ast.Call)
                    and unparse(it.func) == "range"
                    and len(it.args) == 2
                    and unparse(it.args[1]) == "to_index + 1"
                    and isinstance(loop.target, ast.Name)
                    and idx == loop.target.id
                )
                why = "index ranges up to the new to_index inclusive (range(<start>, to_index + 1))"
            else:
                ok, why = False, "unreviewed access"
            rep.check(ok, rule, AAM, qual, f"{qual}: lot list read at [{idx}] is bounded by to_index", f"{qual} reads the shared lot list at [{idx}] ({why} not established): candidate selection may see lots after the disposal", loc(node))
        elif isinstance(node, (ast.For, ast.comprehension)) and "acquired_lot_list" in unparse(node.iter) and "range(" not in unparse(node.iter):
            rep.violation(rule, AAM, "?", short(node.iter), "the whole shared lot list is iterated inside the candidate machinery: lots acquired after the disposal become visible to selection", loc(node.iter if isinstance(node, ast.comprehension) else node))
    if n < 2:
        raise AnalysisError(f"found {n} subscript reads of the shared lot list; expected >= 2")
    # chronological iterator bounds
    it = prog.cls(AAM, "ChronologicalAccountingMethodIterator")
    defs = m.field_defs(it)
    order = "AcquiredLotCandidatesOrder.OLDER_TO_NEWER"
    got = {k.split(".__")[1]: show(v[0][1]) for k, v in defs.items() if v}
    chk = prog.func(AAM, "ChronologicalAccountingMethodIterator._check_index")
    t = norm.inline(chk, ("sym", "it"), {}, Ctx(chk.module, it))
    txt = show(t)
    ok = "from_index if" in got.get("start_index", "") and "to_index if" in got.get("end_index", "") and "<=" in txt and ">=" in txt
    rep.check(ok, rule, AAM, "ChronologicalAccountingMethodIterator", "chronological iterator runs between from_index and to_index inclusive", f"chronological iterator: start={got.get('start_index')}, end={got.get('end_index')}, bound test={txt[:160]}", loc(it.node))
    # to_index only moves through set_to_index
    cand = prog.cls(AAM, "AbstractAcquiredLotCandidates")
    writers = []
    for f in cand.methods.values():
        for node in ast.walk(f.node):
            if isinstance(node, (ast.Assign, ast.AugAssign)):
                for tg in node.targets if isinstance(node, ast.Assign) else [node.target]:
                    if unparse(tg) == "self.__to_index":
                        writers.append((f.name, unparse(node.value)))
    ok = sorted(writers) == [("__init__", "0"), ("set_to_index", "to_index")]
    rep.check(ok, rule, AAM, "AbstractAcquiredLotCandidates", "to_index is written only by __init__ (0) and set_to_index(to_index)", f"to_index writers: {writers}", loc(cand.node))
    fb = prog.func(AAM, "FeatureBasedAcquiredLotCandidates.set_to_index")
    calls_super = any(isinstance(n2, ast.Call) and unparse(n2) == "super().set_to_index(to_index)" for n2 in ast.walk(fb.node))
    rep.check(calls_super, rule, AAM, fb.qualname, "feature-based set_to_index records the new bound", "FeatureBasedAcquiredLotCandidates.set_to_index no longer stores the new upper index: every call would re-push the whole prefix or never advance", loc(fb.node))


def _loop_guarded_by_check_index(f: ast.AST) -> bool:
    """The read of the shared list happens only after self._check_index() held: inside `while/if self._check_index():`, or after the guard clause
    `if not self._check_index(): raise ...` at the top level of the function."""
    if any(isinstance(n, (ast.While, ast.If)) and unparse(n.test) == "self._check_index()" and any(isinstance(s, ast.Subscript) for b in n.body for s in ast.walk(b)) for n in ast.walk(f)):
        return True
    body = getattr(f, "body", [])
    for i, st in enumerate(body):
        if isinstance(st, ast.If) and unparse(st.test) == "not self._check_index()" and st.body and isinstance(st.body[-1], ast.Raise) and not st.orelse:
            before = [s for b in body[:i] for s in ast.walk(b) if isinstance(s, ast.Subscript)]
            return not before
    return False


# ---------------------------------------------------------------------------
# processing order: both iterators handed to the engine are sorted entry-set iterators over unfiltered sets
def check_chronological_input(rep: Report, rule: str) -> None:
    m = model()
    prog, norm = m.prog, m.norm
    fi = prog.func(TE, "_create_unfiltered_gain_and_loss_set")
    rep.analysed(fi)
    ctx = norm.ctx_for(fi, subst_locals=True)
    calls = [n for n in ast.walk(fi.node) if isinstance(n, ast.Call) and isinstance(n.func, ast.Attribute) and n.func.attr == "initialize"]
    if len(calls) != 1 or len(calls[0].args) != 2:
        raise AnalysisError("engine.initialize(event_iterator, lot_iterator) call not found in _create_unfiltered_gain_and_loss_set")
    ev_it, lot_it = norm.term(calls[0].args[0], ctx), norm.term(calls[0].args[1], ctx)
    want_ev = ("xcall", "iter", None, (("sym", "unfiltered_taxable_event_set"),), ())
    want_lot = ("xcall", "iter", None, (("fld", ("sym", "input_data"), "InputData.__unfiltered_in_transaction_set"),), ())
    rep.check(tkey(ev_it) == tkey(want_ev), rule, fi.module, fi.qualname, "events reach the engine through iter(<unfiltered taxable event set>)", f"the engine's event iterator is {show(ev_it)[:160]}; expected iter() over the unfiltered taxable-event set (its __iter__ sorts by time)", loc(calls[0]))
    rep.check(tkey(lot_it) == tkey(want_lot), rule, fi.module, fi.qualname, "lots reach the engine through iter(input_data.unfiltered_in_transaction_set)", f"the engine's lot iterator is {show(lot_it)[:160]}; expected iter() over the unfiltered in-transaction set", loc(calls[0]))
    aes = prog.func("rp2.abstract_entry_set", "AbstractEntrySet.__iter__")
    txt = [unparse(s) for s in aes.body]
    rep.check(txt == ["self._check_sort()", "return EntrySetIterator(self)"], rule, aes.module, aes.qualname, "entry-set iteration sorts first", f"AbstractEntrySet.__iter__ is {txt}; expected _check_sort() before handing out the iterator", loc(aes.node))
    so = prog.func("rp2.abstract_entry_set", "AbstractEntrySet._sort_entries")
    sorts = [n for n in ast.walk(so.node) if isinstance(n, ast.Call) and isinstance(n.func, ast.Attribute) and n.func.attr == "sort"]
    ok = len(sorts) == 1 and unparse(sorts[0].func.value) == "self._entry_list" and [k.arg for k in sorts[0].keywords] == ["key"]
    keyf = None
    if ok and isinstance(sorts[0].keywords[0].value, ast.Name):
        res = prog.resolve_name(so.module, sorts[0].keywords[0].value.id)
        if res and res[0] == "func":
            keyf = res[1]
    key_ok = keyf is not None and [unparse(s) for s in keyf.body] == [f"return {keyf.param_names[0]}.timestamp"]
    if ok and not key_ok:
        kv = sorts[0].keywords[0].value  # the same key spelled as a lambda or operator.attrgetter("timestamp")
        if isinstance(kv, ast.Attribute) and isinstance(kv.value, ast.Name) and kv.value.id == "self":
            # a key method: every implementation along the hierarchy must be the entry's timestamp; one that returns something else is a second ordering
            base_cls = prog.cls("rp2.abstract_entry_set", "AbstractEntrySet")
            impls = [c.methods[kv.attr] for c in [base_cls] + list(prog.subclasses(base_cls, strict=True)) if kv.attr in c.methods]
            other = [f_ for f_ in impls if [unparse(s_) for s_ in f_.body if not norm._is_noise(s_)] != [f"return {f_.param_names[-1]}.timestamp"]]
            for f_ in other:
                rep.violation(rule, f_.module, f_.qualname, f"sort key method {f_.qualname}", f"{f_.qualname} is the key the entry list of its set is sorted by and returns {short(f_.body[-1], 80)}: entries are no longer ordered by timestamp alone with ties in insertion (row) order, so the list order of same-instant lots disagrees with the lot index keys", loc(f_.node), definite=True)
            key_ok = bool(impls) and not other
            if other:
                key_ok = True  # reported above, once
        if isinstance(kv, ast.Lambda) and len(kv.args.args) == 1 and unparse(kv.body) == f"{kv.args.args[0].arg}.timestamp":
            key_ok = True
        if isinstance(kv, ast.Call) and unparse(kv.func) in ("attrgetter", "operator.attrgetter") and len(kv.args) == 1 and not kv.keywords and isinstance(kv.args[0], ast.Constant) and kv.args[0].value == "timestamp":
            key_ok = True
    rep.check(ok and key_ok, rule, so.module, so.qualname, "entries are sorted by their timestamp (stable list.sort, ascending)", "AbstractEntrySet._sort_entries does not sort the entry list by key=<entry timestamp> in ascending order", loc(so.node))
    # who-may-reorder: the only statements anywhere in the package that reorder or replace an entry list are that sort (overrides in
    # subclasses and helper functions included): a second ordering, e.g. a tie-break applied before the stable timestamp sort, makes the
    # list order of same-instant lots disagree with the lot index keys (timestamp, zero-padded numeric id)
    base = prog.cls("rp2.abstract_entry_set", "AbstractEntrySet")
    for mod in prog.package.modules.values():
        for n in ast.walk(mod.tree):
            bad = None
            if isinstance(n, ast.Call) and isinstance(n.func, ast.Attribute) and n.func.attr in ("sort", "reverse", "insert", "pop", "remove", "clear", "extend") and isinstance(n.func.value, ast.Attribute) and n.func.value.attr == "_entry_list":
                if n is not (sorts[0] if len(sorts) == 1 else None):
                    bad = n
            elif isinstance(n, (ast.Assign, ast.AugAssign, ast.AnnAssign)):
                for tg in n.targets if isinstance(n, ast.Assign) else [n.target]:
                    if isinstance(tg, (ast.Attribute, ast.Subscript)) and "_entry_list" in unparse(tg):
                        from .loader import enclosing_function as _ef

                        f = _ef(n)
                        if not (f is not None and f.name == "__init__" and unparse(n.value) == "[]") and not (f is not None and f.name in ("duplicate",) and "copy" in unparse(n.value)):
                            bad = n
            if bad is not None:
                from .loader import enclosing_class as _ec, enclosing_function as _ef2

                f, c = _ef2(bad), _ec(bad)
                rep.violation(rule, mod.name, f"{c.name}.{f.name}" if c and f else (f.name if f else "<module>"), f"entry list reordered outside the timestamp sort: {short(bad, 80)}", f"{short(bad, 100)} reorders or replaces an entry set's list in addition to AbstractEntrySet._sort_entries (stable sort by timestamp): entries with equal timestamps are then no longer in insertion (row) order, and the order of the lot list no longer agrees with the lot index keys (timestamp, zero-padded id) that bound a disposal's candidates", loc(bad), definite=True)
    for sub in prog.subclasses(base, strict=True):
        ov = sub.methods.get("_sort_entries")
        if ov is None:
            continue
        stmts = [st for st in ov.body if not norm._is_noise(st)]  # logging / declarations do not matter
        first = stmts[0] if stmts else None
        calls_super_first = first is not None and unparse(first) == "super()._sort_entries()"
        rep.check(calls_super_first, rule, ov.module, ov.qualname, f"{sub.name}._sort_entries starts with super()._sort_entries()", f"{ov.qualname} overrides the sort of the entry list without calling the base sort first: iteration order of this set is not the time order the engine relies on", loc(ov.node), definite=True)


# ---------------------------------------------------------------------------
# matching loop: per-branch conservation and re-seek obligations
ENGINE_ROUTINES = ("get_next_taxable_event_and_amount", "get_acquired_lot_for_taxable_event", "_get_next_taxable_event_and_acquired_lot")


def loop_branches(m: Model):
    """[(path, GainLoss kwargs, routine name, routine args {event, lot, e_arg, l_arg}, call node)] for non-raising paths of the matching loop body."""
    prog, norm = m.prog, m.norm
    fi = prog.func(TE, "_create_unfiltered_gain_and_loss_set")
    loops = [n for n in ast.walk(fi.node) if isinstance(n, ast.While)]
    if len(loops) != 1:
        raise AnalysisError("matching loop not found")
    loop = loops[0]
    ctx = norm.ctx_for(fi, subst_locals=False)
    se = SymExec(norm, ctx, inline_helpers=False)
    init = SPath()
    for name, ty in (("taxable_event", ("cls", "rp2.abstract_transaction:AbstractTransaction")), ("acquired_lot", ("opt", ("cls", "rp2.in_transaction:InTransaction"))), ("taxable_event_amount", ("cls", "rp2.rp2_decimal:RP2Decimal")), ("acquired_lot_amount", ("cls", "rp2.rp2_decimal:RP2Decimal"))):
        init.vars[name] = (("sym", name), ty)
    init.vars["new_accounting_engine"] = (("sym", "engine"), ("cls", f"{AE}:AccountingEngine"))
    paths = se.run(loop.body, init)
    out = []
    gl_fq = "rp2.gain_loss:GainLoss"
    for p in paths:
        if p.exit in ("raise", "exit"):
            continue
        news = [s for e in p.events if e[0] == "local" for s in [e[2]] if s[0] == "new" and s[1] == gl_fq]
        routine = None
        for e in p.events:
            if e[0] == "local" and e[1] == "taxable_event":
                v = e[2]
                src = v[2] if v[0] == "proj" else v
                if src[0] == "call" and src[1].split(".")[-1].split(":")[-1] in ENGINE_ROUTINES or (src[0] == "call" and any(src[1].endswith(r) for r in ENGINE_ROUTINES)):
                    routine = src
        out.append((p, news, routine, fi, loop))
    return out


def _routine_args(call_t) -> Dict[str, Any]:
    return dict(call_t[2])


def check_loop_conservation(rep: Report, rule: str) -> None:
    """C02.a: per-branch A = consumed from event = consumed from lot, with the callee's arithmetic."""
    m = model()
    prog, norm = m.prog, m.norm
    E, L = ("sym", "taxable_event_amount"), ("sym", "acquired_lot_amount")
    EV, LOT = ("sym", "taxable_event"), ("sym", "acquired_lot")
    # callee arithmetic
    eng = prog.cls(AE, "AccountingEngine")
    gn = prog.func(AE, "AccountingEngine.get_next_taxable_event_and_amount")
    ga = prog.func(AE, "AccountingEngine.get_acquired_lot_for_taxable_event")
    rep.analysed(gn, ga)
    gctx = norm.ctx_for(gn, subst_locals=False)
    defs = [n for n in gn.node.body if isinstance(n, ast.AnnAssign) and isinstance(n.target, ast.Name) and n.target.id == "new_acquired_lot_amount"]
    want = ("ite", ("cmp", "is", LOT, ("const", None)), ("const", __import__("decimal").Decimal(0)), mk_add([L, mk_neg(E)]))
    got = norm.term(defs[0].value, gctx) if defs else ("unk", "")
    rep.check(tkey(got) == tkey(want), rule, gn.module, gn.qualname, "engine: remaining lot amount = lot amount - event amount", f"get_next_taxable_event_and_amount computes the lot's remaining amount as {show(got)[:200]}; expected acquired_lot_amount - taxable_event_amount (ZERO without a lot)", loc(gn.node))
    actx = norm.ctx_for(ga, subst_locals=False)
    defs = [n for n in ga.node.body if isinstance(n, ast.AnnAssign) and isinstance(n.target, ast.Name) and n.target.id == "new_taxable_event_amount"]
    got = norm.term(defs[0].value, actx) if defs else ("unk", "")
    rep.check(tkey(got) == tkey(mk_add([E, mk_neg(L)])), rule, ga.module, ga.qualname, "engine: remaining event amount = event amount - lot amount", f"get_acquired_lot_for_taxable_event computes the event's remaining amount as {show(got)[:200]}; expected taxable_event_amount - acquired_lot_amount", loc(ga.node))
    # returned tuples forward those values under the right names
    se = SymExec(norm, actx, inline_helpers=False)
    for p in se.run(ga.body):
        if p.exit == "return" and p.ret is not None and p.ret[0] == "new":
            kw = dict(p.ret[2])
            ok = kw.get("taxable_event") == EV and tkey(kw.get("taxable_event_amount", ("unk", ""))) == tkey(mk_add([E, mk_neg(L)])) and "AcquiredLotAndAmount.amount" in show(kw.get("acquired_lot_amount", ("unk", ""))) and "AcquiredLotAndAmount.acquired_lot" in show(kw.get("acquired_lot", ("unk", "")))
            rep.check(ok, rule, ga.module, ga.qualname, "engine: seek result returned as (same event, found lot, remaining event amount, found lot's amount)", f"get_acquired_lot_for_taxable_event returns {show(p.ret)[:300]}", loc(p.exit_node))
    se = SymExec(norm, gctx, inline_helpers=False)
    plain = [p for p in se.run(gn.body) if p.exit == "return" and p.ret is not None and p.ret[0] == "new" and dict(p.ret[2]).get("acquired_lot") == LOT]
    for p in plain:
        kw = dict(p.ret[2]) if p.ret and p.ret[0] == "new" else {}
        nxt = kw.get("taxable_event")
        ok = nxt is not None and nxt[0] == "xcall" and nxt[1] == "next" and tkey(kw.get("acquired_lot_amount", ("unk", ""))) == tkey(want) and kw.get("acquired_lot") == LOT
        amt = kw.get("taxable_event_amount")
        cbc = norm._call_internal(norm._impls(m.abstract_transaction, "crypto_balance_change"), nxt, {}, gctx, "crypto_balance_change") if nxt else None
        ok = ok and amt is not None and cbc is not None and tkey(amt) == tkey(cbc)
        rep.check(ok, rule, gn.module, gn.qualname, "engine: next event comes with its full crypto_balance_change; lot keeps its remaining amount", f"get_next_taxable_event_and_amount returns {show(p.ret)[:300] if p.ret else None}; expected (next event, same lot, next event's crypto_balance_change, lot amount - event amount)", loc(p.exit_node))
    # loop branches
    n = 0
    for p, news, routine, fi, loop in loop_branches(m):
        rep.analysed(fi)
        if len(news) != 1 or routine is None:
            rep.violation(rule, fi.module, fi.qualname, "each iteration emits one fraction and hands over to one engine routine", f"a loop path builds {len(news)} GainLoss objects and hands over to {show(routine)[:80] if routine else 'no engine routine'}", loc(loop))
            continue
        n += 1
        kw = dict(news[0][2])
        A = kw.get("crypto_amount")
        lot_kw = kw.get("acquired_lot")
        args = _routine_args(routine)
        rname = routine[1].split(".")[-1].split(":")[-1]
        ea, la = args.get("taxable_event_amount"), args.get("acquired_lot_amount")
        guard = [c for c in p.conds()]
        gdesc = " and ".join(show(c)[:60] for c in guard[-2:])
        is_earn = lot_kw == ("const", None)
        ok_objs = args.get("taxable_event") == EV and args.get("acquired_lot") == LOT and kw.get("taxable_event") == EV and (is_earn or lot_kw == LOT)
        rep.check(ok_objs, rule, fi.module, fi.qualname, f"branch [{gdesc}]: fraction and hand-over use the current event and lot", f"under {gdesc} the fraction is built from ({show(kw.get('taxable_event'))}, {show(lot_kw)}) and the engine receives ({show(args.get('taxable_event'))}, {show(args.get('acquired_lot'))}); expected the current taxable_event / acquired_lot in both", loc(loop))
        if rname == "get_acquired_lot_for_taxable_event":
            # lot fully consumed: A = lot amount, event' = e - l
            ok = A == L and ea == E and la == L and _implies(guard, ">", E, L)
            msg = f"under {gdesc} the fraction amount is {show(A)} and the engine gets (event amount {show(ea)}, lot amount {show(la)}); seeking a new lot for the same event requires: fraction = whole remaining lot amount, event remainder = event - lot, and this only when event amount > lot amount"
        elif is_earn:
            ok = A == E and la == L and ea is not None and ea[0] == "const" and ea[1] == 0
            msg = f"for an earn event the fraction amount is {show(A)} and the engine gets (event amount {show(ea)}, lot amount {show(la)}); income consumes nothing from the lot: fraction = event amount, hand-over with ZERO consumed and the lot amount unchanged"
        else:
            # event fully consumed from the lot: A = e, lot' = l - e >= 0
            ok = A == E and ea == E and la == L and (_implies(guard, "<", E, L) or _implies(guard, "==", E, L) or _implies(guard, "<=", E, L))
            msg = f"under {gdesc} the fraction amount is {show(A)} and the engine gets (event amount {show(ea)}, lot amount {show(la)}); moving to the next event requires: fraction = whole remaining event amount <= lot amount, lot remainder = lot - event"
        rep.check(ok, rule, fi.module, fi.qualname, f"branch [{gdesc}] via {rname}: fraction = amount removed from event = amount removed from lot", msg, loc(loop))
    if n < 3:
        raise AnalysisError(f"only {n} loop branches with one fraction and one hand-over found; expected >= 3")


def _implies(guard: List[Any], op: str, a: Any, b: Any) -> bool:
    """Path condition contains a comparison equivalent to  a <op> b  (either orientation)."""
    for c in guard:
        if c[0] != "cmp":
            continue
        if c[2] == a and c[3] == b and c[1] == op:
            return True
        if c[2] == b and c[3] == a and FLIP.get(c[1]) == op:
            return True
    # e > l  is also what remains when == and < were both refuted
    if op == ">":
        neq = any(c[0] == "cmp" and {tkey(c[2]), tkey(c[3])} == {tkey(a), tkey(b)} and c[1] == "!=" for c in guard)
        nlt = any(c[0] == "cmp" and ((c[2] == a and c[3] == b and c[1] == ">=") or (c[2] == b and c[3] == a and c[1] == "<=")) for c in guard)
        return neq and nlt
    return False


def check_reseek(rep: Report, rule: str) -> None:
    """C01.d: a lot that may be exhausted is never carried to the next event without a seek; timestamp advance puts the lot back and seeks."""
    m = model()
    prog, norm = m.prog, m.norm
    E, L = ("sym", "taxable_event_amount"), ("sym", "acquired_lot_amount")
    for p, news, routine, fi, loop in loop_branches(m):
        if routine is None:
            continue
        rname = routine[1].split(".")[-1].split(":")[-1]
        args = _routine_args(routine)
        guard = p.conds()
        gdesc = " and ".join(show(c)[:60] for c in guard[-2:])
        if rname == "get_next_taxable_event_and_amount":
            ea = args.get("taxable_event_amount")
            strictly_left = _implies(guard, "<", E, L) or (ea is not None and ea[0] == "const" and ea[1] == 0)
            rep.check(
                strictly_left,
                rule,
                fi.module,
                fi.qualname,
                f"branch [{gdesc}]: direct hand-over to the next event only when the lot keeps a positive remainder",
                f"under {gdesc} the loop moves to the next event through get_next_taxable_event_and_amount directly although the lot may be exactly exhausted (no 'event amount < lot amount' on the path): "
                "if the next event has the same timestamp no lot is sought and it is paired with a zero-size fraction of the exhausted lot (valid histories are rejected); "
                "use the re-seeking wrapper for the == case",
                loc(loop),
            )
    wrap = prog.func(TE, "_get_next_taxable_event_and_acquired_lot")
    rep.analysed(wrap)
    se = SymExec(norm, norm.ctx_for(wrap, subst_locals=False), inline_helpers=False)
    paths = [p for p in se.run(wrap.body) if p.exit == "return"]
    seek_paths = [p for p in paths if any("get_acquired_lot_for_taxable_event" in show(e[2])[:400] for e in p.events if e[0] == "local")]
    ok = False
    for p in seek_paths:
        conds = p.conds()
        same = any(c[0] == "cmp" and c[1] == "==" and ("sym", "acquired_lot") in (c[2], c[3]) for c in conds)
        ok = ok or same
    exact = all(len(p.conds()) == 1 for p in seek_paths)
    rep.check(ok and exact and len(paths) >= 2, rule, wrap.module, wrap.qualname, "wrapper seeks a lot exactly when the engine handed back the same (possibly exhausted) lot", "_get_next_taxable_event_and_acquired_lot no longer seeks a lot when get_next_taxable_event_and_amount returned the same lot: an exhausted lot would be reused for the next event", loc(wrap.node))
    # timestamp advance: put back, then seek
    gn = prog.func(AE, "AccountingEngine.get_next_taxable_event_and_amount")
    se = SymExec(norm, norm.ctx_for(gn, subst_locals=False), inline_helpers=False)
    paths = [p for p in se.run(gn.body) if p.exit == "return"]
    adv = []
    for p in paths:
        conds = p.conds()
        if any(c[0] == "cmp" and c[1] in ("<", "<=", "!=") and "AbstractTransaction.__timestamp" in show(c) for c in conds):
            adv.append(p)
    if not adv:
        rep.violation(rule, gn.module, gn.qualname, "re-seek when the event timestamp advances", "get_next_taxable_event_and_amount has no path conditioned on the new event being later than the previous one: a lot acquired between two disposals would never become a candidate", loc(gn.node))
    ifs = [n for n in gn.node.body if isinstance(n, ast.If) and "get_acquired_lot_for_taxable_event" in unparse(n)]
    if len(ifs) == 1:
        ctx0 = norm.ctx_for(gn, subst_locals=False)
        c = norm.cond(ifs[0].test, ctx0)
        atoms = list(c[1]) if c[0] == "and" else [c]
        ts = "AbstractTransaction.__timestamp"
        want_cmp = [a for a in atoms if a[0] == "cmp" and a[1] == "<" and a[2] == ("fld", ("sym", "taxable_event"), ts) and a[3][0] == "fld" and a[3][2] == ts and a[3][1] != ("sym", "taxable_event")]
        others = [a for a in atoms if a not in want_cmp and a != ("cmp", "is not", ("sym", "taxable_event"), ("const", None))]
        rep.check(len(want_cmp) == 1 and not others, rule, gn.module, gn.qualname, "re-seek condition is exactly 'there was a previous event and the new one is later'", f"the re-seek after fetching the next event happens under {show(c)[:200]}; expected exactly: previous event exists and previous.timestamp < new.timestamp (any further condition lets a newly eligible, better-ranked lot be ignored)", loc(ifs[0]))
    for p in adv:
        idx_put = [i for i, e in enumerate(p.events) if e[0] == "call" and "_set_partial_amount" in show(e[1])[:200]]
        idx_seek = [i for i, e in enumerate(p.events) if e[0] == "local" and "get_acquired_lot_for_taxable_event" in show(e[2])[:300]]
        has_lot = any(c == ("cmp", "is not", ("sym", "acquired_lot"), ("const", None)) for c in p.conds())
        ok = bool(idx_seek) and (not has_lot or (bool(idx_put) and idx_put[0] < idx_seek[0]))
        rep.check(ok, rule, gn.module, gn.qualname, "timestamp advance: remaining lot amount is stored back before a lot is sought for the new event", "when the new event is later than the previous one the current lot's remaining amount is not stored back before the seek (or no seek happens): the better-ranked remainder would be passed over or lost", loc(gn.node))
        if idx_put:
            a = dict(p.events[idx_put[0]][1][2])
            want_amt = ("ite", ("cmp", "is", ("sym", "acquired_lot"), ("const", None)), ("const", __import__("decimal").Decimal(0)), mk_add([L, mk_neg(E)]))
            okp = a.get("acquired_lot") == ("sym", "acquired_lot") and tkey(a.get("amount", ("unk", ""))) == tkey(want_amt)
            rep.check(okp, rule, gn.module, gn.qualname, "put-back amount = lot amount - event amount, for the current lot", f"the amount stored back is {show(a.get('amount'))[:160] if a.get('amount') else None} for {show(a.get('acquired_lot')) if a.get('acquired_lot') else None}; expected the current lot with acquired_lot_amount - taxable_event_amount", loc(gn.node))
        if idx_seek:
            sk = p.events[idx_seek[0]][2]
            call = next((s for s in _tuples(sk) if s and s[0] == "call" and s[1].endswith("get_acquired_lot_for_taxable_event")), None)
            a = dict(call[2]) if call else {}
            okn = a.get("taxable_event") is not None and a["taxable_event"][0] == "xcall" and a["taxable_event"][1] == "next"
            rep.check(okn, rule, gn.module, gn.qualname, "the seek is made for the NEW event", f"after a timestamp advance the lot is sought for {show(a.get('taxable_event'))[:100] if a.get('taxable_event') else None}; expected the event just fetched (its timestamp bounds the candidates)", loc(gn.node))


def check_seek_amounts(rep: Report, rule: str) -> None:
    """C02.b: a seek returns the cached partial amount when there is one (> 0), else the full crypto_in; zero-amount lots are skipped."""
    m = model()
    prog, norm = m.prog, m.norm
    for cls in ("AbstractChronologicalAccountingMethod", "AbstractFeatureBasedAccountingMethod"):
        fi = prog.func(AAM, f"{cls}.seek_non_exhausted_acquired_lot")
        rep.analysed(fi)
        loops = [n for n in ast.walk(fi.node) if isinstance(n, ast.For)]
        if len(loops) != 1 or not isinstance(loops[0].target, ast.Name):
            raise AnalysisError(f"{fi.qualname}: candidate loop not found")
        loop = loops[0]
        se = SymExec(norm, norm.ctx_for(fi, subst_locals=False), inline_helpers=False)
        init = SPath()
        init.vars[loop.target.id] = (("sym", "lot"), ("cls", "rp2.in_transaction:InTransaction"))
        paths = se.run(loop.body, init)
        lot = ("sym", "lot")
        for p in paths:
            conds = [show(c) for c in p.conds()]
            sel = p.vars.get("selected_acquired_lot_amount", (None,))[0]
            has = any("has_partial_amount" in c or "in lot_candidates" in c for c in conds)
            exit_kind = p.exit
            returning = any(q.exit == "return" for q in paths)
            if exit_kind == "return":
                # selection by returning from inside the loop instead of break + flag variables: the offered amount is the record's amount field
                amt = dict(p.ret[2]).get("amount") if p.ret is not None and p.ret[0] == "new" and len(p.ret) > 2 and p.ret[1].endswith("AcquiredLotAndAmount") else None
                if amt is None:
                    rep.defer_error(f"{loc(loop)}: {fi.qualname}: a path of the candidate loop returns {show(p.ret)[:100] if p.ret else None}: neither the break-and-flag nor the early-return selection idiom, not decided for this shape")
                    continue
                sel, exit_kind = amt, "break"
            elif exit_kind == "break" and returning and sel is None:
                # early-return idiom: leaving the loop without a selection ends the seek with 'no lot'; only for a lot that offers nothing
                ok = any(c[0] == "cmp" and show(c).rstrip(")").endswith("<= D0") for c in p.conds())  # a plain comparison, not one alternative of a wider test
                rep.check(ok, rule, fi.module, fi.qualname, f"{cls}: the search ends without a lot only when the candidate offers nothing", f"the candidate loop is left without selecting the lot under {conds}; expected only when its amount is not > ZERO", loc(loop))
                continue
            if exit_kind == "break":
                neg_has = any(c.startswith("not ") and ("__acquired_lot_2_partial_amount" in c) for c in conds) or any("not in" in c and "__acquired_lot_2_partial_amount" in c for c in conds)
                if neg_has:
                    ok = sel == ("fld", lot, "InTransaction.__crypto_in")
                    rep.check(ok, rule, fi.module, fi.qualname, f"{cls}: untouched lot offers its full crypto_in", f"a lot without a cached partial amount is offered with amount {show(sel)[:120] if sel else None}; expected lot.crypto_in", loc(loop))
                else:
                    ok = sel is not None and "__acquired_lot_2_partial_amount" in show(sel) and any("> D0" in c for c in conds)
                    rep.check(ok, rule, fi.module, fi.qualname, f"{cls}: touched lot offers its cached remaining amount (> 0)", f"a lot with a cached partial amount is offered with amount {show(sel)[:160] if sel else None} under {conds[-1][:100] if conds else ''}; expected the cached amount, only when > ZERO", loc(loop))
            elif exit_kind == "continue":
                ok = any("__acquired_lot_2_partial_amount" in c and ("<= D0" in c or "not " in c) for c in conds)
                rep.check(ok, rule, fi.module, fi.qualname, f"{cls}: only lots with zero remaining amount are skipped", f"a candidate lot is skipped under {conds}; only lots whose cached remaining amount is not > ZERO may be skipped", loc(loop))
            else:
                rep.violation(rule, fi.module, fi.qualname, f"{cls}: candidate loop path '{p.exit}'", f"a path of the candidate loop ends by '{p.exit}' (neither selecting nor skipping the lot)", loc(loop))


# ---------------------------------------------------------------------------
# heap typestate: a lot handed out by a seek stays in the candidate structure unless it is exhausted (C01.b, C02.f)
def check_heap_typestate(rep: Report, rb: str) -> None:
    m = model()
    prog, norm = m.prog, m.norm
    seek = prog.func(AAM, "AbstractFeatureBasedAccountingMethod.seek_non_exhausted_acquired_lot")
    rep.analysed(seek)
    loops = [n for n in seek.node.body if isinstance(n, ast.For)]
    after = seek.node.body[seek.node.body.index(loops[0]) + 1 :] if loops else []
    se = SymExec(norm, norm.ctx_for(seek, subst_locals=False), inline_helpers=False)
    init = SPath()
    init.vars["selected_acquired_lot"] = (("sym", "selected"), ("opt", ("cls", "rp2.in_transaction:InTransaction")))
    init.vars["selected_acquired_lot_amount"] = (("sym", "selected_amount"), ("cls", "rp2.rp2_decimal:RP2Decimal"))
    paths = se.run(after, init)
    selecting = [p for p in paths if p.exit == "return" and p.ret is not None and p.ret[0] == "new"]
    if not selecting and loops and isinstance(loops[0].target, ast.Name):
        # early-return idiom: the record is returned from inside the candidate loop, the loop variable is the selected lot
        init = SPath()
        init.vars[loops[0].target.id] = (("sym", "selected"), ("cls", "rp2.in_transaction:InTransaction"))
        selecting = [p for p in se.run(loops[0].body, init) if p.exit == "return" and p.ret is not None and p.ret[0] == "new" and dict(p.ret[2]).get("acquired_lot") == ("sym", "selected")]
    if not selecting:
        raise AnalysisError("feature-based seek has no path returning a selected lot")
    unconditional = True
    for p in selecting:
        pushes = [e for e in p.events if e[0] == "call" and e[1][0] == "call" and e[1][1].endswith("add_selected_lot_to_heap") and dict(e[1][2]).get("lot") == ("sym", "selected")]
        if not pushes:
            unconditional = False
    if unconditional:
        rep.ok(rb, "feature-based seek re-inserts the selected lot on every returning path", f"{len(selecting)} returning path(s)")
    else:
        # conditional disjunct: every seek must then be dominated by 'event is not earn-typed' (C01.c)
        offenders = _unguarded_seeks(m)
        if offenders:
            for mod, qual, node in offenders:
                rep.violation(
                    rb,
                    mod,
                    qual,
                    f"seek for a possibly earn-typed event: {short(node, 80)}",
                    "the feature-based seek drops the selected lot from the heap on some returning path (it is re-inserted only when it exceeds the event amount), and this call seeks a lot on behalf of "
                    "an event that may be earn-typed (income consumes nothing): the lot is lost with its full balance and HIFO/LOFO/LIFO pair later disposals with worse-ranked lots",
                    loc(node),
                )
        else:
            rep.ok(rb, "conditional re-insertion, and every seek is dominated by 'not is_earning()'", "C01.c disjunct")
    # chronological: from_index only advances past exhausted lots
    cseek = prog.func(AAM, "AbstractChronologicalAccountingMethod.seek_non_exhausted_acquired_lot")
    rep.analysed(cseek)
    adv = [n for n in ast.walk(cseek.node) if isinstance(n, ast.Call) and isinstance(n.func, ast.Attribute) and n.func.attr == "set_from_index"]
    ok = len(adv) == 1 and unparse(adv[0].args[0]) == "lot_candidates.from_index + 1"
    if ok:
        g = m.guard_term(adv[0], norm.ctx_for(cseek, subst_locals=False), None, False)
        gs = show(g)
        ok = "__acquired_lot_2_partial_amount" in gs and "<= D0" in gs
    rep.check(ok, rb, AAM, cseek.qualname, "chronological seek advances from_index by one only past a lot whose remaining amount is zero", "from_index is advanced under a condition other than 'cached remaining amount is not > ZERO' (or by more than one): a lot with balance would be skipped for good", loc(cseek.node))



def _unguarded_seeks(m) -> list:
    """Call sites that reach a seek on behalf of an event not known to be non-earning."""
    prog = m.prog
    out = []
    fi = prog.func(TE, "_create_unfiltered_gain_and_loss_set")
    for p, news, routine, f, loop in loop_branches(m):
        if routine is None:
            continue
        rname = routine[1].split(".")[-1].split(":")[-1]
        conds = [show(c) for c in p.conds()]
        non_earn = any(c.startswith("not ") and "is_earning" in c for c in conds)
        if rname in ("get_acquired_lot_for_taxable_event",) and not non_earn:
            out.append((f.module, f.qualname, loop))
    # the wrapper and the engine's timestamp-advance path seek for the NEXT event, whose type is unknown
    wrap = prog.func(TE, "_get_next_taxable_event_and_acquired_lot")
    for n in ast.walk(wrap.node):
        if isinstance(n, ast.Call) and isinstance(n.func, ast.Attribute) and n.func.attr == "get_acquired_lot_for_taxable_event":
            out.append((wrap.module, wrap.qualname, n))
    gn = prog.func(AE, "AccountingEngine.get_next_taxable_event_and_amount")
    for n in ast.walk(gn.node):
        if isinstance(n, ast.Call) and isinstance(n.func, ast.Attribute) and n.func.attr == "get_acquired_lot_for_taxable_event":
            out.append((gn.module, gn.qualname, n))
    return out


# ---------------------------------------------------------------------------
# RP2Decimal comparisons: every amount comparison of the matcher, of the guards and of the overdraft test goes through them
def check_decimal_comparisons(rep: Report, rule: str) -> None:
    """==, >=, > quantise (self - other) to CRYPTO_DECIMAL_MASK (13 decimals) and compare with ZERO by the same-named Decimal operator;
    !=, <=, < are their negations.  A coarser mask or a crossed operator changes which fractions are 'equal', which lot is 'larger' and
    when a balance is 'negative' for every input."""
    from .consts import fold_module_const

    m = model()
    prog = m.prog
    ci = prog.cls("rp2.rp2_decimal", "RP2Decimal")
    mask = fold_module_const(prog, "rp2.rp2_decimal", "CRYPTO_DECIMAL_MASK")
    decs = fold_module_const(prog, "rp2.rp2_decimal", "CRYPTO_DECIMALS")
    import decimal

    mask_ok = isinstance(mask, decimal.Decimal) and isinstance(decs, int) and mask == decimal.Decimal("1." + "0" * decs) and decs >= 11
    rep.check(mask_ok, rule, ci.module, "CRYPTO_DECIMAL_MASK", "comparison mask = 10^-CRYPTO_DECIMALS with CRYPTO_DECIMALS >= 11", f"CRYPTO_DECIMAL_MASK folds to {mask!r} (CRYPTO_DECIMALS = {decs!r}): amounts with up to 11 decimals must stay distinguishable in comparisons", loc(ci.node))
    direct = {"__eq__": "__eq__", "__ge__": "__ge__", "__gt__": "__gt__"}
    negated = {"__ne__": "__eq__", "__le__": "__gt__", "__lt__": "__ge__"}
    for name, op in direct.items():
        fi = ci.methods.get(name)
        rets = [_cmp_shape(n.value) for n in ast.walk(fi.node) if isinstance(n, ast.Return) and n.value is not None] if fi else []
        want = ("(self - other).quantize(CRYPTO_DECIMAL_MASK)", op, "ZERO")
        guard = fi is not None and any(isinstance(n, ast.If) and "isinstance(other, Decimal)" in unparse(n.test) and any(isinstance(b, ast.Raise) for b in n.body) for n in ast.walk(fi.node))
        rep.check(rets == [want] and guard, rule, ci.module, f"RP2Decimal.{name}", f"RP2Decimal.{name} = (self - other).quantize(CRYPTO_DECIMAL_MASK).{op}(ZERO)", f"RP2Decimal.{name} returns {rets}; expected exactly {want} after the operand type check: another mask or operator changes every amount comparison (equal fractions, larger lot, negative balance)", loc(fi.node) if fi else loc(ci.node))
    for name, base in negated.items():
        fi = ci.methods.get(name)
        rets = [unparse(n.value) for n in ast.walk(fi.node) if isinstance(n, ast.Return) and n.value is not None] if fi else []
        rep.check(rets == [f"not self.{base}(other)"], rule, ci.module, f"RP2Decimal.{name}", f"RP2Decimal.{name} = not {base}", f"RP2Decimal.{name} returns {rets}; expected 'not self.{base}(other)'", loc(fi.node) if fi else loc(ci.node))
    iw = ci.methods.get("is_equal_within_precision")
    rets = [_cmp_shape(n.value) for n in ast.walk(iw.node) if isinstance(n, ast.Return) and n.value is not None] if iw else []
    rep.check(rets == [("(first - second).quantize(precision_mask)", "__eq__", "ZERO")], rule, ci.module, "RP2Decimal.is_equal_within_precision", "is_equal_within_precision = (first - second).quantize(mask) == ZERO", f"is_equal_within_precision returns {rets}", loc(iw.node) if iw else loc(ci.node))


def _cmp_shape(e: ast.AST):
    """(lhs text, dunder name, rhs text) of 'lhs OP rhs' or 'lhs.__op__(rhs)'; the expression text otherwise."""
    ops = {ast.Eq: "__eq__", ast.NotEq: "__ne__", ast.Gt: "__gt__", ast.GtE: "__ge__", ast.Lt: "__lt__", ast.LtE: "__le__"}
    if isinstance(e, ast.Compare) and len(e.ops) == 1 and type(e.ops[0]) in ops:
        return (unparse(e.left), ops[type(e.ops[0])], unparse(e.comparators[0]))
    if isinstance(e, ast.Call) and isinstance(e.func, ast.Attribute) and e.func.attr in ops.values() and len(e.args) == 1:
        return (unparse(e.func.value), e.func.attr, unparse(e.args[0]))
    return unparse(e)


# ---------------------------------------------------------------------------
# partial-amount table accessors of the candidate structures: plain dictionary semantics
def check_partial_amount_accessors(rep: Report, rule: str) -> None:
    m = model()
    prog, norm = m.prog, m.norm
    ci = prog.cls(AAM, "AbstractAcquiredLotCandidates")
    table = ("fld", ("sym", "c"), "AbstractAcquiredLotCandidates.__acquired_lot_2_partial_amount")
    lot = ("sym", "lot")
    ctx = Ctx(ci.module, ci)
    args = {"acquired_lot": (lot, ("cls", "rp2.in_transaction:InTransaction"))}
    has = ci.methods.get("has_partial_amount")
    t = norm.inline(has, ("sym", "c"), args, ctx) if has else ("unk", "")
    rep.check(tkey(t) == tkey(("cmp", "in", lot, table)), rule, AAM, "AbstractAcquiredLotCandidates.has_partial_amount", "has_partial_amount(lot) = lot in table", f"has_partial_amount normalises to {show(t)[:160]}", loc(has.node) if has else loc(ci.node))
    get = ci.methods.get("get_partial_amount")
    se = SymExec(norm, norm.ctx_for(get, subst_locals=False))
    rets = [p for p in se.run(get.body) if p.exit == "return"]
    ok = bool(rets) and all(p.ret is not None and p.ret[0] == "old" and p.ret[1][0] == "fld" and p.ret[1][2].endswith("__acquired_lot_2_partial_amount") and p.ret[2] == ("sym", "acquired_lot") and not p.stores() and not [e for e in p.events if e[0] in ("del", "call") and "pop" in show(e[1])[:80]] for p in rets)
    rep.check(ok, rule, AAM, get.qualname, "get_partial_amount(lot) reads table[lot] and changes nothing", f"get_partial_amount returns {[show(p.ret)[:120] for p in rets]} (stores: {[len(p.stores()) for p in rets]}): reading a lot's remaining amount must not alter or remove it (a second read would see the full lot again)", loc(get.node))
    st = ci.methods.get("set_partial_amount")
    se = SymExec(norm, norm.ctx_for(st, subst_locals=False))
    paths = [p for p in se.run(st.body) if p.exit in ("fall", "return")]
    ok = len(paths) == 1 and len(paths[0].stores()) == 1 and paths[0].stores()[0][2] == ("sym", "acquired_lot") and paths[0].stores()[0][3] == ("sym", "amount") and not paths[0].conds()
    rep.check(ok, rule, AAM, st.qualname, "set_partial_amount(lot, amount): table[lot] = amount, unconditionally", f"set_partial_amount performs {[(show(e[2]), show(e[3])[:80]) for p in paths for e in p.stores()]} under {[show(c)[:60] for p in paths for c in p.conds()]}; expected table[lot] = amount (the remaining amount put back must replace the previous one)", loc(st.node))
    cl = ci.methods.get("clear_partial_amount")
    t = [unparse(s2) for s2 in cl.body] if cl else []
    rep.check(t == ["self.set_partial_amount(acquired_lot, ZERO)"], rule, AAM, "AbstractAcquiredLotCandidates.clear_partial_amount", "clear_partial_amount(lot) = set_partial_amount(lot, ZERO)", f"clear_partial_amount is {t}", loc(cl.node) if cl else loc(ci.node))


# ---------------------------------------------------------------------------
# every entry of the year -> method schedule gets its own candidate structure
def check_schedule_traversal(rep: Report, rule: str) -> None:
    """AccountingEngine.initialize walks the year->method tree and inserts one candidates object per node under the node's own key:
    both children of every node are scheduled under independent conditions (an 'elif' skips the right subtree of nodes with two
    children: the method of a skipped year then runs over another year's heap, ordered by the other method's key)."""
    m = model()
    prog = m.prog
    init = prog.func(AE, "AccountingEngine.initialize")
    rep.analysed(init)
    loops = [n for n in ast.walk(init.node) if isinstance(n, ast.While) and any(isinstance(c, ast.Call) and isinstance(c.func, ast.Attribute) and c.func.attr == "create_lot_candidates" for c in ast.walk(n))]
    if len(loops) != 1:
        raise AnalysisError("AccountingEngine.initialize: traversal loop that creates the lot candidates not found")
    lp = loops[0]
    where = loc(lp)
    inserts = [n for n in ast.walk(lp) if isinstance(n, ast.Call) and isinstance(n.func, ast.Attribute) and n.func.attr == "insert_node" and "lot_candidates" in unparse(n.func.value)]
    node_var = unparse(lp.test).split(" ")[0] if isinstance(lp.test, ast.Compare) else unparse(lp.test)
    if len(inserts) == 1 and inserts[0].args and isinstance(inserts[0].args[0], ast.Attribute) and inserts[0].args[0].attr == "key" and isinstance(inserts[0].args[0].value, ast.Name):
        node_var = inserts[0].args[0].value.id  # the visited node is whatever the insert reads its key from (`while stack: node = stack.pop()` as well as `while node is not None`)
    ok_ins = len(inserts) == 1 and len(inserts[0].args) == 2 and unparse(inserts[0].args[0]) == f"{node_var}.key" and unparse(inserts[0].args[1]).startswith(f"{node_var}.value.create_lot_candidates(") and inserts[0] in [c for st in lp.body for c in ast.walk(st) if st in lp.body and not isinstance(st, ast.If)]
    rep.check(ok_ins, rule, init.module, init.qualname, "every visited schedule node gets candidates under its own year, unconditionally", f"the traversal inserts {[short(i, 100) for i in inserts]}; expected exactly one unconditional insert_node({node_var}.key, {node_var}.value.create_lot_candidates(...)) per visited node", where)
    pushes = {}
    for st in lp.body:
        if isinstance(st, ast.If):
            for side in ("left", "right"):
                if unparse(st.test) in (f"{node_var}.{side}", f"{node_var}.{side} is not None") and any(isinstance(c, ast.Call) and isinstance(c.func, ast.Attribute) and c.func.attr in ("append", "push", "appendleft") and unparse(c.args[0]) == f"{node_var}.{side}" for b in st.body for c in ast.walk(b)):
                    pushes[side] = st
    rep.check(set(pushes) == {"left", "right"}, rule, init.module, init.qualname, "both children of every schedule node are scheduled, under independent top-level conditions", f"the traversal schedules {sorted(pushes)} children with top-level, independent 'if' statements (found {[short(st.test, 30) for st in lp.body if isinstance(st, ast.If)]}; an elif / nested test skips a subtree): the years in a skipped subtree get no candidate structure, so their disposals are matched over another year's candidates, ordered by the other method's key", where)


# --------------------------------------------------------------------------- shared: the cell sink writes what it is given
def check_cell_sink(rep: Report, rule: str) -> None:
    """Every rule about report cells reads ``_fill_cell(sheet, row, column, value)`` as 'cell (row, column) shows value'. That premise is an obligation on the
    sink itself: on every returning path it writes exactly once, to sheet[row_index, column_index], the value it received, or float(value) for an RP2Decimal."""
    from .symexec import SPath, SymExec

    m = model()
    prog, norm = m.prog, m.norm
    f = prog.func("rp2.plugin.report.abstract_ods_generator", "AbstractODSGenerator._fill_cell")
    rep.analysed(f)
    ctx = norm.ctx_for(f, subst_locals=False)
    paths = [p for p in SymExec(norm, ctx).run(f.node.body, SPath()) if p.exit != "raise"]
    if not paths:
        raise AnalysisError("_fill_cell has no returning path")
    value = ("sym", "value")
    bad = {}
    n = 0
    for p in paths:
        writes = []
        for e in p.events:
            if e[0] == "setattr" and str(e[2]).endswith("formula"):
                writes.append((e[1], e[3], e[-1]))
            elif e[0] == "call" and e[1][0] in ("xcall", "call") and str(e[1][1]).endswith("set_value"):
                t = e[1]
                args = t[3] if t[0] == "xcall" else tuple(v for _, v in t[3]) if t[0] == "call" and t[3] and isinstance(t[3][0], tuple) and len(t[3][0]) == 2 and isinstance(t[3][0][0], str) else t[3]
                writes.append((t[2], args[0] if args else None, e[-1]))
        n += 1
        if len(writes) != 1:
            bad[f"{len(writes)} writes"] = (f"a returning path of _fill_cell writes the cell {len(writes)} times (expected once)", f.node)
            continue
        target, val, node = writes[0]
        if "sheet[(row_index, column_index)]" not in show(target):
            bad["target " + show(target)] = (f"_fill_cell writes {show(target)}; expected sheet[row_index, column_index]", node)
        is_float = val is not None and val[0] == "xcall" and val[1] == "float" and len(val[3]) == 1 and val[3][0] == value
        none_path = any(c == ("cmp", "is", value, ("const", None)) for c in p.conds())
        if none_path:
            continue  # whatever stands in for None alters no figure (no computed value is None)
        if not (val == value or is_float):
            bad["value " + show(val)] = (
                f"on the path {[show(c)[:70] for c in p.conds() if 'style' not in show(c)]} _fill_cell writes {show(val)}, not the value it was given (or float(value) for an RP2Decimal): "
                "cells the generators fill with a computed figure show something else for some values (e.g. an exact zero or None)",
                node,
            )
        elif is_float and not any("isinstance(value, class:rp2.rp2_decimal:RP2Decimal)" in show(c) and c[0] != "not" for c in p.conds()):
            bad["float " + show(val)] = ("_fill_cell converts with float() a value that is not known to be an RP2Decimal", node)
    for k, (msg, node) in bad.items():
        rep.violation(rule, f.module, f.qualname, f"cell sink: {k[:80]}", msg, loc(node))
    if not bad:
        rep.ok(rule, "cell sink: every returning path of _fill_cell writes value / float(value) once to sheet[row_index, column_index]", f"{n} paths")


# --------------------------------------------------------------------------- shared: the per-type counter counts fractions
def check_type_counter(rep: Report, rule: str) -> None:
    """The tax reports size each sheet with get_transaction_type_count(type) and then write one row per fraction of the window: the counter must be
    incremented by exactly one, under the fraction's own event type, on every completed iteration of the numbering loop (after the to-date cut)."""
    from .symexec import SPath, SymExec

    m = model()
    prog, norm = m.prog, m.norm
    f = prog.func("rp2.gain_loss_set", "GainLossSet._sort_entries")
    rep.analysed(f)
    loops = [n for n in f.node.body if isinstance(n, ast.For) and isinstance(n.target, ast.Name) and unparse(n.iter) == "self._entry_list"]
    if len(loops) != 1:
        raise AnalysisError("GainLossSet._sort_entries: expected one numbering loop over self._entry_list")
    loop = loops[0]
    init = SPath()
    init.vars[loop.target.id] = (("sym", "gl"), ("cls", "rp2.gain_loss:GainLoss"))
    paths = SymExec(norm, norm.ctx_for(f, subst_locals=False)).run(loop.body, init)
    want_key = "gl.[GainLoss.__taxable_event].[AbstractTransaction.__transaction_type]"
    done = [p for p in paths if p.exit in ("fall", "continue")]
    if not done:
        raise AnalysisError("GainLossSet._sort_entries: the numbering loop has no completing path")
    bad = None
    for p in done:
        st = [e for e in p.stores() if "__transaction_type_2_count" in show(e[1])]
        ok = len(st) == 1 and show(st[0][2]) == want_key and show(st[0][3]) == f"(1 + old({show(st[0][1])}[{want_key}]))"
        if not ok:
            bad = (p, st)
            break
    g = prog.func("rp2.gain_loss_set", "GainLossSet.get_transaction_type_count")
    rets = [n for n in ast.walk(g.node) if isinstance(n, ast.Return) and n.value is not None]
    getter_ok = len(rets) == 1 and unparse(rets[0].value) == f"self.__transaction_type_2_count[{g.param_names[1]}]" if len(g.param_names) > 1 else False
    rep.check(getter_ok, rule, g.module, g.qualname, "get_transaction_type_count returns the counter of the requested type", f"get_transaction_type_count returns {unparse(rets[0].value) if rets else None}; expected the counter stored under the requested type", loc(g.node))
    if bad is None:
        rep.ok(rule, "per-type counter: +1 under the fraction's own event type on each of the completed iterations", f"{len(done)} completing paths of the numbering loop")
    else:
        p, st = bad
        rep.violation(
            rule,
            f.module,
            f.qualname,
            "per-type counter is not incremented once per fraction",
            f"on a completed iteration ({[show(c)[:60] for c in p.conds()][:4]}) the counter receives {[(show(e[2]), show(e[3])[:80]) for e in st] or 'nothing'}; expected exactly one "
            f"'count[{want_key}] += 1': the tax reports append get_transaction_type_count(type) rows per sheet and then write one row per fraction, so an undercount runs off the sheet (IndexError) for a disposal split over many lots",
            loc(st[0][-1]) if st else loc(loop),
        )


# --------------------------------------------------------------------------- shared: private names are per class
def _private_uses(ci) -> Dict[str, Dict[str, List[ast.AST]]]:
    """bare private name -> {'store': [...], 'load': [...]} for attribute accesses and class-body assignments written inside the class (name mangling is lexical)."""
    out: Dict[str, Dict[str, List[ast.AST]]] = {}

    def rec(name: str, kind: str, node: ast.AST) -> None:
        if name.startswith("__") and not name.endswith("__"):
            out.setdefault(name, {"store": [], "load": []})[kind].append(node)

    for n in ast.walk(ci.node):
        if isinstance(n, ast.ClassDef) and n is not ci.node:
            continue
        if isinstance(n, ast.Attribute):
            rec(n.attr, "store" if isinstance(n.ctx, (ast.Store, ast.Del)) else "load", n)
    for st in ci.node.body:
        tgt = st.targets[0] if isinstance(st, ast.Assign) and len(st.targets) == 1 else st.target if isinstance(st, ast.AnnAssign) else None
        if isinstance(tgt, ast.Name):
            rec(tgt.id, "store", st)
    return out


def check_private_shadowing(rep: Report, rule: str, classes=None) -> int:
    """`self.__x` written inside class Sub is the attribute `_Sub__x`; the same spelling inside a base class is `_Base__x`. A subclass that only (re)binds
    `__x` and never reads it, while a base class of the package reads its own `__x`, resets an attribute nobody looks at: the base's table keeps its contents."""
    m = model()
    prog = m.prog
    n = 0
    for ci in classes if classes is not None else list(prog.classes.values()):
        uses = _private_uses(ci)
        bases = [b for b in prog.mro(ci)[1:] if b.module.startswith("rp2")]
        for name, u in sorted(uses.items()):
            for b in bases:
                bu = _private_uses(b).get(name)
                if not bu:
                    continue
                n += 1
                if u["store"] and not u["load"] and bu["load"]:
                    st = u["store"][-1]
                    rep.violation(
                        rule,
                        ci.module,
                        ci.name,
                        f"{ci.name} rebinds {name}, which only {b.name} reads",
                        f"{short(_stmt_of(st), 90)} inside class {ci.name} binds the attribute _{ci.name.lstrip('_')}{name} (private names are mangled per class) and nothing in {ci.name} reads it, while "
                        f"{b.name} keeps and reads its own _{b.name.lstrip('_')}{name} ({short(_stmt_of(bu['load'][0]), 80)}): the reset never reaches the table that is used, which therefore "
                        "keeps the entries of earlier assets / runs",
                        loc(st),
                        definite=True,
                    )
    return n


def _stmt_of(node: ast.AST) -> ast.AST:
    from .loader import parent

    cur = node
    while cur is not None and not isinstance(cur, ast.stmt):
        cur = parent(cur)
    return cur if cur is not None else node


# --------------------------------------------------------------------------- shared: -m together with [accounting_methods] exits non-zero
def method_conflict_exit(m: Model):
    """(function, sys.exit call) of the run's rejection of '-m given AND the configuration has an [accounting_methods] section', located by its path condition:
    a sys.exit(<non-zero constant>) in rp2.rp2_main guarded by exactly truthy(<args>.method) and truthy(<configuration's years_2_accounting_method_names>),
    the latter read directly or through a local bound once to it. Where the test sits (one `if a and b`, nested ifs, an extracted function) does not matter."""
    prog, norm = m.prog, m.norm
    prop = ("Configuration.__years_2_accounting_method_names",)
    found = []
    for f in prog.iter_functions():
        if f.module != "rp2.rp2_main":
            continue
        ctx = norm.ctx_for(f, subst_locals=False)
        for n in ast.walk(f.node):
            if not (isinstance(n, ast.Call) and unparse(n.func) == "sys.exit" and len(n.args) == 1 and isinstance(n.args[0], ast.Constant) and n.args[0].value not in (0, None, False)):
                continue
            g = m.guard_term(n, ctx, None, False)
            atoms = list(g[1]) if g[0] == "and" else [g]
            if len(atoms) != 2 or any(a[0] != "truthy" for a in atoms):
                continue
            vals = [a[1] for a in atoms]
            is_m = [v[0] == "attr" and v[2] == "method" for v in vals]
            if sum(is_m) != 1:
                continue
            other = vals[1 - is_m.index(True)]
            if other[0] == "sym":  # a local: its single definition before the exit must be the configuration's table
                defs = [d for d in ast.walk(f.node) if isinstance(d, (ast.Assign, ast.AnnAssign)) and getattr(d, "value", None) is not None and d.lineno < n.lineno
                        and any(isinstance(t, ast.Name) and t.id == other[1] for t in (d.targets if isinstance(d, ast.Assign) else [d.target]))]
                if len(defs) != 1:
                    continue
                other = norm.term(defs[0].value, ctx)
            if other[0] == "fld" and other[2] in prop:
                found.append((f, n))
    return found

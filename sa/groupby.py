"""Shared rule: itertools.groupby merges only adjacent items, so its input must be sorted by the grouping key.

Outcomes per call site in the given modules: input is sorted(..., key=<same key>) at the call, through one local assignment, or
sorted in place by the same key -> discharged; input keeps the order of an rp2 collection (a comprehension / list / takewhile /
chain over it, or the collection itself) and the key is not that collection's own sort key -> violation; anything else -> unknown
idiom (deferred ANALYSIS-ERROR), never a guessed verdict.  Entry sets are sorted by instant (timestamp); a key such as
timestamp.year (the LOCAL year) is not monotone in the instant when UTC offsets differ.
"""

from __future__ import annotations

import ast
from typing import Iterable, Optional

from .loader import enclosing_class, enclosing_function, loc, short, unparse

ORDER_PRESERVING = {"list", "iter", "filter", "takewhile", "dropwhile", "islice", "chain", "tuple", "reversed", "map", "cast"}


def check_groupby(rep, rule: str, prog, modules: Iterable[str], consequence: str) -> int:
    n_sites = 0
    for mod in prog.package.modules.values():
        if mod.name not in modules:
            continue
        aliases = {"groupby"} | {a.asname for i in ast.walk(mod.tree) if isinstance(i, ast.ImportFrom) and i.module == "itertools" for a in i.names if a.name == "groupby" and a.asname}
        for n in ast.walk(mod.tree):
            if not (isinstance(n, ast.Call) and ((isinstance(n.func, ast.Name) and n.func.id in aliases) or (isinstance(n.func, ast.Attribute) and n.func.attr == "groupby"))):
                continue
            n_sites += 1
            f, c = enclosing_function(n), enclosing_class(n)
            qual = f"{c.name}.{f.name}" if c and f else (f.name if f else "<module>")
            key = next((k.value for k in n.keywords if k.arg == "key"), n.args[1] if len(n.args) > 1 else None)
            src = n.args[0] if n.args else None
            if isinstance(src, ast.Name) and f is not None:
                defs = [a for a in ast.walk(f) if isinstance(a, (ast.Assign, ast.AnnAssign)) and a.value is not None and any(isinstance(t, ast.Name) and t.id == src.id for t in (a.targets if isinstance(a, ast.Assign) else [a.target]))]
                sorts = [a for a in ast.walk(f) if isinstance(a, ast.Call) and isinstance(a.func, ast.Attribute) and a.func.attr == "sort" and isinstance(a.func.value, ast.Name) and a.func.value.id == src.id]
                if sorts and same_key(next((k.value for k in sorts[-1].keywords if k.arg == "key"), None), key):
                    rep.ok(rule, f"groupby input sorted in place by the grouping key: {short(n, 80)}")
                    continue
                if len(defs) == 1:
                    src = defs[0].value
            # strip order-preserving wrappers: list(x), takewhile(pred, x), chain(x, y), cast(T, x)
            inner = src
            while isinstance(inner, ast.Call) and isinstance(inner.func, (ast.Name, ast.Attribute)) and (inner.func.id if isinstance(inner.func, ast.Name) else inner.func.attr) in ORDER_PRESERVING and inner.args:
                inner = inner.args[-1]
            # ... and module-level generator helpers that hand on (some of) the elements of their first argument in its order:
            #   def h(xs, ...): for x in xs: [if ...: break / continue] yield x
            def _passes_on(call: ast.AST):
                if not (isinstance(call, ast.Call) and isinstance(call.func, ast.Name) and call.args):
                    return None
                hs = [d for d in mod.tree.body if isinstance(d, ast.FunctionDef) and d.name == call.func.id]
                if len(hs) != 1 or not hs[0].args.args:
                    return None
                h, p0 = hs[0], hs[0].args.args[0].arg
                loops = [x for x in ast.walk(h) if isinstance(x, ast.For) and isinstance(x.iter, ast.Name) and x.iter.id == p0 and isinstance(x.target, ast.Name)]
                ys = [x for x in ast.walk(h) if isinstance(x, ast.Yield)]
                if len(loops) != 1 or not ys or any(isinstance(x, ast.Call) and isinstance(x.func, ast.Name) and x.func.id in ("sorted", "reversed") for x in ast.walk(h)):
                    return None
                tgt = loops[0].target.id

                def is_element(v: ast.AST) -> bool:
                    """The loop variable itself, cast(T, it), or a local bound exactly once to one of those."""
                    if isinstance(v, ast.Name) and v.id == tgt:
                        return True
                    if isinstance(v, ast.Call) and isinstance(v.func, ast.Name) and v.func.id == "cast" and v.args and is_element(v.args[-1]):
                        return True
                    if isinstance(v, ast.Name):
                        binds = [a for a in ast.walk(h) if isinstance(a, (ast.Assign, ast.AnnAssign)) and a.value is not None and any(isinstance(t, ast.Name) and t.id == v.id for t in (a.targets if isinstance(a, ast.Assign) else [a.target]))]
                        return len(binds) == 1 and is_element(binds[0].value)
                    return False

                if all(is_element(y.value) for y in ys):
                    return call.args[0]
                return None

            while _passes_on(inner) is not None:
                inner = _passes_on(inner)
                while isinstance(inner, ast.Call) and isinstance(inner.func, (ast.Name, ast.Attribute)) and (inner.func.id if isinstance(inner.func, ast.Name) else inner.func.attr) in ORDER_PRESERVING and inner.args:
                    inner = inner.args[-1]
            # a key given as the name of a one-expression module-level function stands for that expression
            if isinstance(key, ast.Name):
                ks = [d for d in mod.tree.body if isinstance(d, ast.FunctionDef) and d.name == key.id and len(d.args.args) == 1]
                rets = [x for d in ks for x in ast.walk(d) if isinstance(x, ast.Return) and x.value is not None]
                if len(ks) == 1 and len(rets) == 1:
                    key = ast.Lambda(args=ks[0].args, body=rets[0].value)
            if isinstance(src, ast.Call) and isinstance(src.func, ast.Name) and src.func.id == "sorted":
                skey = next((k.value for k in src.keywords if k.arg == "key"), None)
                if same_key(skey, key):
                    rep.ok(rule, f"groupby input is sorted by the grouping key: {short(n, 80)}")
                    continue
                rep.violation(rule, mod.name, qual, f"groupby over input sorted by another key: {short(n, 80)}", f"{short(n, 120)} groups by {unparse(key) if key else 'identity'} an iterable sorted by {unparse(skey) if skey else 'its natural order'}: groupby merges only adjacent items, so a group whose members are not contiguous is split: {consequence}", loc(n), definite=True)
                continue
            if isinstance(inner, (ast.ListComp, ast.GeneratorExp, ast.Attribute, ast.Name)):
                ktxt = unparse(key.body) if isinstance(key, ast.Lambda) else (unparse(key) if key is not None else "")
                if ktxt.endswith(".timestamp") and "year" not in ktxt:
                    rep.ok(rule, f"groupby by the collection's own sort key (timestamp): {short(n, 80)}")
                    continue
                rep.violation(
                    rule,
                    mod.name,
                    qual,
                    f"groupby over a collection in its own order: {short(n, 80)}",
                    f"{short(n, 120)} groups an iterable that keeps the order of the collection it was built from ({short(inner, 70)}: entry sets are ordered by instant, balance sets by exchange then holder), "
                    f"not the order of the grouping key ({ktxt or 'identity'}): groupby merges only adjacent items, so a group whose members are not contiguous is split and the later part overwrites or duplicates the earlier one: {consequence}",
                    loc(n),
                    definite=True,  # the call itself is the wrong construct, wherever it was moved to
                )
                continue
            rep.defer_error(f"{loc(n)}: {qual}: cannot determine the order of the iterable given to {short(n, 80)}")
    return n_sites


def same_key(a: Optional[ast.AST], b: Optional[ast.AST]) -> bool:
    if a is None or b is None:
        return a is None and b is None

    def canon(k: ast.AST) -> str:
        if isinstance(k, ast.Lambda) and len(k.args.args) == 1:
            name = k.args.args[0].arg
            body = ast.parse(unparse(k.body), mode="eval").body
            for x in ast.walk(body):
                if isinstance(x, ast.Name) and x.id == name:
                    x.id = "_x"
            return "lambda:" + unparse(body)
        return unparse(k)

    return canon(a) == canon(b)

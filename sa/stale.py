"""Loop-carried values in row-writing loops: no cell may show a value left over from an earlier iteration.

For a loop that writes one row per entry, every local assigned in the body is given an unknown 'value at the loop head'.
A local is *harmless* when, on every path that reaches the back edge (falling off the end or `continue`), its final value is
  - the constant it had before the loop (inductive invariant: it is that constant at every loop head), or
  - its value at the head (untouched), or
  - its value at the head plus something (a counter or running total).
For such a constant-at-head local the constant is substituted and the analysis is repeated, so that cells are compared with their
real values.  Any other local is 'iteration-specific data that may survive into the next iteration'; if a path hands the
head value of such a local to a cell (value argument of _fill_cell) it is reported: the row would show the previous entry's data.
"""

from __future__ import annotations

import ast
from typing import Any, Dict, List, Optional, Tuple

from .norm import ANY, Norm, show, tkey
from .symexec import SPath, SymExec


def _tuples(t: Any):
    if isinstance(t, tuple):
        yield t
        for x in t:
            if isinstance(x, tuple):
                yield from _tuples(x)


def _pre_loop_constant(fn: ast.AST, loop: ast.AST, name: str) -> Optional[Tuple[Any]]:
    """('const', c) bound to `name` by the last top-level assignment before the loop, when that value is a literal."""
    body = getattr(fn, "body", [])
    if loop not in body:
        return None
    val = None
    for st in body[: body.index(loop)]:
        tgt = st.target if isinstance(st, ast.AnnAssign) else (st.targets[0] if isinstance(st, ast.Assign) and len(st.targets) == 1 else None)
        if isinstance(tgt, ast.Name) and tgt.id == name and getattr(st, "value", None) is not None:
            val = st.value
    if isinstance(val, ast.Constant):
        return ("const", val.value)
    return None


def definitely_not_none(norm: Norm, t: Any) -> bool:
    """The term cannot be None: arithmetic, constructed objects, strings, non-None constants, and fields whose declared type is not Optional."""
    if not isinstance(t, tuple) or not t:
        return False
    k = t[0]
    if k == "const":
        return t[1] is not None
    if k in ("add", "mul", "neg", "div", "new", "fstr", "tuple", "list"):
        return True
    if k == "fld" and isinstance(t[2], str) and "." in t[2]:
        cname, attr = t[2].split(".", 1)
        for ci in norm.prog.classes_named(cname):
            ty = norm.field_type(ci, attr)
            if ty and ty[0] in ("cls", "prim") and ty != ("prim", "None"):
                return True
    return False


def infeasible(norm: Norm, p: SPath) -> bool:
    """A branch condition of the path says that something that cannot be None is None."""
    for c in p.conds():
        if c[0] == "cmp" and c[1] == "is" and c[3] == ("const", None) and definitely_not_none(norm, c[2]):
            return True
    return False


def stale_cell_reads(norm: Norm, fi, loop: ast.For, init: Optional[SPath] = None, sink_suffix: str = "._fill_cell") -> List[Tuple[str, ast.AST, str]]:
    """[(variable, cell call node, rendered value)] for cells that can show a value carried over from an earlier iteration."""
    targets = {n.id for n in ast.walk(loop.target) if isinstance(n, ast.Name)}
    assigned = {n.id for s in loop.body for n in ast.walk(s) if isinstance(n, ast.Name) and isinstance(n.ctx, ast.Store)} - targets
    ctx = norm.ctx_for(fi, subst_locals=False)

    def run(consts: Dict[str, Any]) -> List[SPath]:
        st = SPath()
        if init is not None:
            st.vars.update(init.vars)
        se = SymExec(norm, ctx)
        for v in sorted(assigned):
            if v in st.vars and v not in consts:
                continue  # the caller models this one itself (e.g. row_index)
            ty = se._declared.get(v, ANY)
            st.vars[v] = (consts[v], ty) if v in consts else (("sym", f"{v}@head"), ty)
        return se.run(loop.body, st)

    paths = [p for p in run({}) if not infeasible(norm, p)]
    back = [p for p in paths if p.exit in ("fall", "continue")]
    consts: Dict[str, Any] = {}
    suspicious = set()
    for v in sorted(assigned):
        if init is not None and v in init.vars:
            continue
        head = ("sym", f"{v}@head")
        c = _pre_loop_constant(fi.node, loop, v)
        kinds = set()
        for p in back:
            fv = p.vars.get(v, (head,))[0]
            if fv == head:
                kinds.add("kept")
            elif c is not None and fv == c:
                kinds.add("const")
            elif fv[0] == "add" and any(x == head for x in fv[1]):
                kinds.add("acc")
            else:
                kinds.add("data")
        if "data" not in kinds:
            if c is not None and kinds <= {"kept", "const"}:
                consts[v] = c
            continue
        suspicious.add(v)
    if consts:
        paths = [p for p in run(consts) if not infeasible(norm, p)]
    out: List[Tuple[str, ast.AST, str]] = []
    seen = set()
    for p in paths:
        if p.exit == "raise":
            continue
        for e in p.events:
            if e[0] != "call" or e[1][0] != "call" or not e[1][1].endswith(sink_suffix):
                continue
            val = dict(e[1][2]).get("value")
            if val is None:
                continue
            for s in _tuples(val):
                if len(s) == 2 and s[0] == "sym" and isinstance(s[1], str) and s[1].endswith("@head") and s[1][: -len("@head")] in suspicious:
                    key = (s[1], id(e[2]))
                    if key not in seen:
                        seen.add(key)
                        out.append((s[1][: -len("@head")], e[2], show(val)[:160]))
    return out


def check_rows_fresh(rep, rule: str, norm: Norm, fi, loop: ast.For, what: str, init: Optional[SPath] = None) -> None:
    """Obligation: no cell of the row loop shows a value carried over from an earlier iteration."""
    from .loader import loc, short

    rep.analysed(fi)
    found = stale_cell_reads(norm, fi, loop, init)
    if not found:
        rep.ok(rule, f"{what}: every cell value is computed from the entry of its own iteration", "loop-carried locals are constants at the loop head, untouched, or counters / running totals")
        return
    for var, node, val in found:
        rep.violation(
            rule,
            fi.module,
            fi.qualname,
            f"{what}: cell can show '{var}' left over from an earlier row",
            f"{short(node, 90)} receives {val}, which reads '{var}' as it was left by an EARLIER iteration: '{var}' is set from one entry's data on some path and not reset on every path to the next iteration, "
            "so a later row (of another transaction) shows the earlier transaction's value",
            loc(node),
        )

"""Discovery and parsing of the rp2 package in the working tree under analysis."""

from __future__ import annotations

import ast
import configparser
import hashlib
import os
from dataclasses import dataclass, field
from pathlib import Path
from typing import Dict, Iterator, List, Optional


class AnalysisError(Exception):
    """An anchor vanished or an idiom could not be interpreted: exit 2, never a silent pass."""


def repo_root() -> Path:
    return Path(os.environ.get("VERIF_REPO", "/repo")).resolve()


@dataclass
class Module:
    name: str  # dotted, e.g. rp2.plugin.report.rp2_full_report
    path: Path
    source: str
    tree: ast.Module
    digest: str

    @property
    def rel(self) -> str:
        try:
            return str(self.path.relative_to(repo_root()))
        except ValueError:
            return str(self.path)


def _set_parents(tree: ast.AST) -> None:
    for node in ast.walk(tree):
        for child in ast.iter_child_nodes(node):
            child._parent = node  # type: ignore[attr-defined]
    tree._parent = None  # type: ignore[attr-defined]


def parent(node: ast.AST) -> Optional[ast.AST]:
    return getattr(node, "_parent", None)


def ancestors(node: ast.AST) -> Iterator[ast.AST]:
    cur = parent(node)
    while cur is not None:
        yield cur
        cur = parent(cur)


def enclosing_function(node: ast.AST) -> Optional[ast.AST]:
    for anc in ancestors(node):
        if isinstance(anc, (ast.FunctionDef, ast.AsyncFunctionDef)):
            return anc
    return None


def enclosing_class(node: ast.AST) -> Optional[ast.ClassDef]:
    for anc in ancestors(node):
        if isinstance(anc, ast.ClassDef):
            return anc
        if isinstance(anc, (ast.FunctionDef, ast.AsyncFunctionDef)):
            continue
    return None


def package_source_dir(root: Path) -> Path:
    """src dir from setup.cfg ([options] package_dir '= src'), so the checker covers what the build covers."""
    cfg = root / "setup.cfg"
    src = "src"
    if cfg.exists():
        parser = configparser.ConfigParser()
        try:
            parser.read(cfg, encoding="utf-8")
            raw = parser.get("options", "package_dir", fallback="")
            for line in raw.splitlines():
                line = line.strip()
                if line.startswith("="):
                    src = line[1:].strip() or src
        except configparser.Error:
            pass
    return root / src


@dataclass
class Package:
    root: Path
    src_dir: Path
    modules: Dict[str, Module] = field(default_factory=dict)

    def digest(self, names: Optional[List[str]] = None) -> str:
        h = hashlib.sha256()
        for name in sorted(names if names is not None else self.modules):
            if name in self.modules:
                h.update(name.encode())
                h.update(self.modules[name].digest.encode())
        return h.hexdigest()[:16]

    def get(self, name: str) -> Module:
        if name not in self.modules:
            raise AnalysisError(f"anchor vanished: module {name} not found under {self.src_dir}")
        return self.modules[name]


_CACHE: Dict[str, Package] = {}


def load_package(root: Optional[Path] = None) -> Package:
    root = root or repo_root()
    key = str(root)
    if key in _CACHE:
        return _CACHE[key]
    src_dir = package_source_dir(root)
    pkg_dir = src_dir / "rp2"
    if not pkg_dir.is_dir():
        raise AnalysisError(f"anchor vanished: package directory {pkg_dir} not found")
    package = Package(root=root, src_dir=src_dir)
    parsed = []
    for path in sorted(pkg_dir.rglob("*.py")):
        rel = path.relative_to(src_dir).with_suffix("")
        parts = list(rel.parts)
        if parts[-1] == "__init__":
            parts = parts[:-1]
        name = ".".join(parts)
        source = path.read_text(encoding="utf-8")
        try:
            tree = ast.parse(source, filename=str(path))
        except SyntaxError as exc:
            raise AnalysisError(f"{path}: does not parse: {exc}") from exc
        parsed.append((name, path, source, tree))
    sigs = None
    if not os.environ.get("VERIF_NO_CANON"):
        from . import canon

        sigs = canon.signature_table([t for _, _, _, t in parsed])
    for name, path, source, tree in parsed:
        if sigs is not None:
            # spelling-level canonical forms (sa/canon.py): `x if not c else y`, `not a == b`, dict()/list()/tuple(), chained comparisons, guard clauses, f(a, b=x)
            tree = canon.canonicalise(tree, sigs=sigs)
        _set_parents(tree)
        if not os.environ.get("VERIF_NO_ALPHA"):
            from . import alpha

            alpha.normalise(name, tree)  # pure renamings of locals are undone in memory (see sa/alpha.py)
        for node in ast.walk(tree):
            node._module = name  # type: ignore[attr-defined]
        package.modules[name] = Module(name=name, path=path, source=source, tree=tree, digest=hashlib.sha256(source.encode()).hexdigest())
    _CACHE[key] = package
    return package


def call_args(node: ast.Call, params) -> Dict[str, ast.AST]:
    """Arguments of a call by parameter name, whether they were passed by position or by keyword (``params`` without self/cls)."""
    out: Dict[str, ast.AST] = {}
    for i, a in enumerate(node.args):
        if isinstance(a, ast.Starred):
            break
        if i < len(params):
            out[params[i]] = a
    for k in node.keywords:
        if k.arg:
            out[k.arg] = k.value
    return out


def unparse(node: Optional[ast.AST]) -> str:
    """Normalised statement/expression text (no line numbers, layout-independent)."""
    if node is None:
        return "<none>"
    try:
        return " ".join(ast.unparse(node).split())
    except Exception:  # pragma: no cover
        return ast.dump(node)


def short(node: Optional[ast.AST], limit: int = 160) -> str:
    text = unparse(node)
    return text if len(text) <= limit else text[: limit - 3] + "..."


def loc(node: ast.AST) -> str:
    pkg = load_package()
    mod = pkg.modules.get(getattr(node, "_module", ""), None)
    line = getattr(node, "lineno", 0)
    return f"{mod.rel if mod else '?'}:{line}"

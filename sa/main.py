"""Entry point: python -m sa.main <ID> [--tier quick|thorough] [--replay PATH]"""

from __future__ import annotations

import argparse
import importlib
import json
import os
import sys
import traceback

from .loader import AnalysisError
from .report import Report


def main(argv=None) -> int:
    ap = argparse.ArgumentParser()
    ap.add_argument("pid")
    ap.add_argument("--tier", default=os.environ.get("VERIF_TIER", "quick"))
    ap.add_argument("--replay", default=None)
    args = ap.parse_args(argv)
    pid = args.pid.upper()
    tier = args.tier if args.tier in ("quick", "thorough") else "quick"
    try:
        mod = importlib.import_module(f"sa.checks.{pid.lower()}")
    except ModuleNotFoundError:
        print(f"ANALYSIS-ERROR: no check implemented for {pid}")
        return 2
    report = Report(pid, tier)
    meta = getattr(mod, "META", {})
    report.explanation = meta.get("explanation", "") + (" Premises restated: " + meta["restated"] + "." if meta.get("restated") else "")
    report.not_decided = meta.get("not_decided", "")
    report.assumptions = list(meta.get("assumptions", []))
    try:
        try:
            mod.run(report, tier)
        except AnalysisError as exc:
            if not report.findings:
                raise
            report.defer_error(str(exc))  # a violation was already located: report it (finish() gives it precedence), with the error as a caveat
        from . import guards
        from .rp2model import model

        m = model()
        try:
            guards.check(m.prog, set(m.norm.touched) | set(report.functions))
        except AnalysisError as exc:
            if not report.findings:
                raise
            report.note(f"soundness guard: {exc}")  # a violation was already located: report it, with the caveat
        if tier == "thorough":
            from . import sensitivity

            aud = sensitivity.audit(pid)
            report.extra["sensitivity_audit"] = aud
            if aud.get("available"):
                print(
                    f"  SENSITIVITY: {aud['fired']}/{aud['fire_expected']} single-edit variants of this property's anchors reported, "
                    f"{aud['twins_silent']}/{aud['twins']} behaviour-preserving twins silent, {aud['unmodelled_withheld']}/{aud['unmodelled']} unmodelled constructs withheld, "
                    f"{aud['skipped_anchor_absent']} skipped (anchor text absent from this tree)"
                )
                print(f"  SENSITIVITY: {aud.get('seeded_reported', 0)}/{aud.get('seeded_changes', 0) - aud.get('seeded_skipped', 0)} confirmed sub-agent changes kept for this property reported ({aud.get('seeded_skipped', 0)} skipped: no longer break it / do not apply to this tree)")
                print(f"  SENSITIVITY: {aud.get('benign_silent', 0)} of {aud.get('benign_refactorings', 0)} behaviour-preserving refactorings kept for this property leave the check silent, {aud.get('benign_not_decided', 0)} are not decided (exit 2), {len(aud.get('benign_alarms', []))} alarm {aud.get('benign_alarms', [])}")
                for pr in aud["problems"] + aud.get("seeded_problems", []):
                    print(f"  SENSITIVITY-PROBLEM: {pr}")
        code = report.finish()
    except AnalysisError as exc:
        print(f"ANALYSIS-ERROR: {pid}: {exc}")
        return 2
    except Exception:  # analyser crash is never a pass and never a fake violation
        traceback.print_exc()
        print(f"ANALYSIS-ERROR: {pid}: analyser crashed (see traceback)")
        return 2
    if args.replay:
        try:
            recorded = json.loads(open(args.replay).read())
            want = {(v["rule"], v["module"], v["qualname"], v["construct"]) for v in recorded.get("violations", [])}
            have = {(f.rule, f.module, f.qualname, f.construct) for f in report.findings}
            for w in sorted(want):
                print(f"REPLAY {'still-fires' if w in have else 'no-longer-fires'}: {w}")
        except OSError as exc:
            print(f"ANALYSIS-ERROR: cannot read replay file: {exc}")
            return 2
    return code


if __name__ == "__main__":
    sys.stdout.flush()
    rc = main()
    sys.stdout.flush()
    os._exit(rc)

"""Normal forms of expressions over the resolved program.

``Norm.eval(expr, ctx)`` turns a source expression into a canonical *term*:
attribute chains have their ``@property`` getters (and small pure methods)
inlined down to the backing fields of the classes, abstract members become a
union over the overriding subclasses, commutative operators are flattened and
sorted, comparisons are kept with an explicit operator so that negation can be
pushed in, constants are folded.  Types come from the annotations of this
(fully annotated) code base.  No rp2 code is executed.

Term grammar (nested tuples, hashable):
  ('const', v)                         folded constant (incl. EnumVal)
  ('sym', name)                        parameter / loop variable / opaque local
  ('fld', base, 'Class.attr')          backing-field read
  ('attr', base, name)                 attribute of an external value (datetime.year, ...)
  ('new', class_fq, ((param, term)...))  constructor call with arguments bound to parameter names
  ('call', func_fq, ((param, term)...))  internal call not inlined
  ('xcall', name, recv_or_None, (args...), ((kw, term)...))  external call
  ('add', (t...)) ('mul', (t...)) ('neg', t) ('div', a, b) ('bin', op, a, b)
  ('cmp', op, a, b) ('not', t) ('and', (t...)) ('or', (t...)) ('truthy', t)
  ('ite', c, a, b) ('virt', member, base, ((class, term)...))
  ('fstr', (parts...)) ('tuple', (t...)) ('list', (t...)) ('sub', base, index)
  ('raise',)  ('unk', text)
"""

from __future__ import annotations

import ast
from dataclasses import dataclass, field
from decimal import Decimal
from typing import Any, Dict, List, Optional, Tuple

from .consts import UNKNOWN, EnumVal, Folder
from .loader import enclosing_function, unparse
from .symbols import ClassInfo, FuncInfo, Program

Term = Tuple[Any, ...]
Type = Tuple[Any, ...]

ANY: Type = ("any",)
RAISE: Term = ("raise",)

_CMP = {
    ast.Eq: "==",
    ast.NotEq: "!=",
    ast.Lt: "<",
    ast.LtE: "<=",
    ast.Gt: ">",
    ast.GtE: ">=",
    ast.In: "in",
    ast.NotIn: "not in",
    ast.Is: "is",
    ast.IsNot: "is not",
}
NEGATE = {"==": "!=", "!=": "==", "<": ">=", ">=": "<", ">": "<=", "<=": ">", "in": "not in", "not in": "in", "is": "is not", "is not": "is"}
FLIP = {"==": "==", "!=": "!=", "<": ">", ">": "<", "<=": ">=", ">=": "<=", "is": "is", "is not": "is not"}


def tkey(t: Any) -> str:
    """Canonical, hash-seed independent key of a term."""
    if isinstance(t, tuple):
        return "(" + ",".join(tkey(x) for x in t) + ")"
    if isinstance(t, (frozenset, set)):
        return "{" + ",".join(sorted(tkey(x) for x in t)) + "}"
    if isinstance(t, dict):
        return "{" + ",".join(sorted(f"{tkey(k)}:{tkey(v)}" for k, v in t.items())) + "}"
    if isinstance(t, list):
        return "[" + ",".join(tkey(x) for x in t) + "]"
    return repr(t)


def mk_add(terms: List[Term]) -> Term:
    flat: List[Term] = []
    for t in terms:
        if t[0] == "add":
            flat.extend(t[1])
        else:
            flat.append(t)
    flat = [t for t in flat if not (t[0] == "const" and isinstance(t[1], (int, Decimal)) and not isinstance(t[1], bool) and t[1] == 0)]
    if not flat:
        return ("const", 0)
    if len(flat) == 1:
        return flat[0]
    return ("add", tuple(sorted(flat, key=tkey)))


def mk_neg(t: Term) -> Term:
    if t[0] == "neg":
        return t[1]
    if t[0] == "add":
        return mk_add([mk_neg(x) for x in t[1]])
    if t[0] == "const" and isinstance(t[1], (int, Decimal)) and not isinstance(t[1], bool):
        return ("const", -t[1])
    return ("neg", t)


def mk_mul(terms: List[Term]) -> Term:
    flat: List[Term] = []
    sign = 1
    for t in terms:
        if t[0] == "neg":
            sign = -sign
            t = t[1]
        if t[0] == "mul":
            flat.extend(t[1])
        else:
            flat.append(t)
    out: Term = ("mul", tuple(sorted(flat, key=tkey))) if len(flat) > 1 else flat[0]
    return mk_neg(out) if sign < 0 else out


def mk_not(t: Term) -> Term:
    if t[0] == "not":
        return t[1]
    if t[0] == "cmp":
        return ("cmp", NEGATE[t[1]], t[2], t[3])
    if t[0] == "and":
        return mk_or([mk_not(x) for x in t[1]])
    if t[0] == "or":
        return mk_and([mk_not(x) for x in t[1]])
    if t[0] == "const" and isinstance(t[1], bool):
        return ("const", not t[1])
    return ("not", t)


def mk_and(terms: List[Term]) -> Term:
    flat: List[Term] = []
    for t in terms:
        if t[0] == "and":
            flat.extend(t[1])
        elif t == ("const", True):
            continue
        else:
            flat.append(t)
    uniq = sorted({tkey(t): t for t in flat}.values(), key=tkey)
    if not uniq:
        return ("const", True)
    return uniq[0] if len(uniq) == 1 else ("and", tuple(uniq))


def mk_or(terms: List[Term]) -> Term:
    flat: List[Term] = []
    for t in terms:
        if t[0] == "or":
            flat.extend(t[1])
        elif t == ("const", False):
            continue
        else:
            flat.append(t)
    uniq = sorted({tkey(t): t for t in flat}.values(), key=tkey)
    if not uniq:
        return ("const", False)
    return uniq[0] if len(uniq) == 1 else ("or", tuple(uniq))


def mk_ite(c: Term, a: Term, b: Term) -> Term:
    if a == RAISE:
        return b
    if b == RAISE:
        return a
    if a == b:
        return a
    if c == ("const", True):
        return a
    if c == ("const", False):
        return b
    # canonical polarity: the condition of a conditional value is never a negation (`b if not c else a`, `a if x is not None else b` and
    # `b if x is None else a` are one term)
    if c[0] == "not":
        return mk_ite(c[1], b, a)
    if c[0] == "cmp" and c[1] in _NEG_CMP:
        return mk_ite(("cmp", _NEG_CMP[c[1]], c[2], c[3]), b, a)
    return ("ite", c, a, b)


_NEG_CMP = {"!=": "==", "is not": "is", "not in": "in"}


TAGS = frozenset(
    "const sym fld attr new call xcall add mul neg div bin cmp not and or truthy ite virt fstr tuple list sub raise unk bound star lambda old proj concat".split()
)


def subterms(t: Any):
    """All proper terms nested in ``t`` (argument lists and alternative tables are traversed, not yielded)."""
    if isinstance(t, tuple):
        if t and isinstance(t[0], str) and t[0] in TAGS:
            yield t
            if t[0] == "const":
                return
        for x in t:
            if isinstance(x, tuple):
                yield from subterms(x)


def leaves(t: Any):
    """Maximal access paths / opaque values a term depends on (fld, sym, attr, call, xcall, virt, sub, unk), not descended into."""
    if isinstance(t, tuple):
        if t and isinstance(t[0], str) and t[0] in TAGS:
            if t[0] in ("fld", "sym", "attr", "call", "xcall", "virt", "sub", "unk", "new", "bound", "old", "proj"):
                yield t
                return
            if t[0] == "const":
                return
        for x in t:
            if isinstance(x, tuple):
                yield from leaves(x)


def contains(t: Term, pred) -> bool:
    return any(pred(s) for s in subterms(t) if s and isinstance(s[0], str))


def fields_in(t: Term) -> List[str]:
    return [s[2] for s in subterms(t) if len(s) == 3 and s[0] == "fld"]


def show(t: Any) -> str:
    """Readable rendering of a term for reports."""
    if not isinstance(t, tuple) or not t:
        return repr(t)
    k = t[0]
    if k == "const":
        if isinstance(t[1], (frozenset, set)):
            return "{" + ", ".join(sorted(repr(x) for x in t[1])) + "}"
        return repr(t[1]) if not isinstance(t[1], Decimal) else f"D{t[1]}"
    if k == "sym":
        return t[1]
    if k == "fld":
        return f"{show(t[1])}.[{t[2]}]"
    if k == "attr":
        return f"{show(t[1])}.{t[2]}"
    if k == "add":
        return "(" + " + ".join(show(x) for x in t[1]) + ")"
    if k == "mul":
        return "(" + " * ".join(show(x) for x in t[1]) + ")"
    if k == "neg":
        return f"-{show(t[1])}"
    if k == "div":
        return f"({show(t[1])} / {show(t[2])})"
    if k == "bin":
        return f"({show(t[2])} {t[1]} {show(t[3])})"
    if k == "cmp":
        return f"({show(t[2])} {t[1]} {show(t[3])})"
    if k == "not":
        return f"not {show(t[1])}"
    if k in ("and", "or"):
        return "(" + f" {k} ".join(show(x) for x in t[1]) + ")"
    if k == "truthy":
        return f"bool({show(t[1])})"
    if k == "ite":
        return f"({show(t[2])} if {show(t[1])} else {show(t[3])})"
    if k == "virt":
        return f"{show(t[2])}.<{t[1]}:" + "|".join(f"{c}={show(x)}" for c, x in t[3]) + ">"
    if k in ("new", "call"):
        return f"{t[1].split(':')[-1]}(" + ", ".join(f"{p}={show(x)}" for p, x in t[2]) + ")"
    if k == "xcall":
        recv = f"{show(t[2])}." if t[2] is not None else ""
        args = [show(x) for x in t[3]] + [f"{p}={show(x)}" for p, x in t[4]]
        return f"{recv}{t[1]}(" + ", ".join(args) + ")"
    if k == "fstr":
        return "f'" + "".join(x if isinstance(x, str) else "{" + show(x) + "}" for x in t[1]) + "'"
    if k in ("tuple", "list"):
        return "(" + ", ".join(show(x) for x in t[1]) + ")"
    if k == "sub":
        return f"{show(t[1])}[{show(t[2])}]"
    if k == "concat":
        return "(" + " ++ ".join(show(x) for x in t[1]) + ")"
    if k == "old":
        return f"old{t[3] if len(t) > 3 and t[3] else ''}({show(t[1])}[{show(t[2])}])"
    if k == "proj":
        return f"{show(t[2])}#{t[1]}"
    if k == "raise":
        return "<raise>"
    if k == "slot":
        return show(t[1]) + "".join(f"[{show(x)}]" for x in t[2])
    if k == "fresh":
        return "<new dict>"
    if k == "unk":
        return f"<?{t[1]}>"
    return repr(t)


# ------------------------------------------------------------------ types
def class_of(prog: Program, ty: Type) -> Optional[ClassInfo]:
    if ty and ty[0] == "opt":
        ty = ty[1]
    if ty and ty[0] == "cls":
        return prog.classes.get(ty[1])
    return None


def ann_to_type(prog: Program, module: str, ann: Optional[ast.AST], cls: Optional[ClassInfo] = None) -> Type:
    if ann is None:
        return ANY
    if isinstance(ann, ast.Constant):
        if ann.value is None:
            return ("prim", "None")
        if isinstance(ann.value, str):
            try:
                return ann_to_type(prog, module, ast.parse(ann.value, mode="eval").body, cls)
            except SyntaxError:
                return ANY
        return ANY
    if isinstance(ann, ast.Name):
        if ann.id in ("int", "str", "bool", "float", "bytes", "object"):
            return ("prim", ann.id)
        if ann.id == "Any":
            return ANY
        res = prog.resolve_name(module, ann.id)
        if res is None:
            if cls is not None and ann.id == cls.name:
                return ("cls", cls.fq)
            return ("ext", ann.id)
        if res[0] == "class":
            return ("cls", res[1].fq)
        if res[0] == "external":
            return ("ext", res[1])
        return ANY
    if isinstance(ann, ast.Attribute):
        res = prog.resolve_expr_name(module, ann)
        if res and res[0] == "class":
            return ("cls", res[1].fq)
        return ("ext", unparse(ann))
    if isinstance(ann, ast.Subscript):
        head = unparse(ann.value).split(".")[-1]
        sl = ann.slice
        args = list(sl.elts) if isinstance(sl, ast.Tuple) else [sl]
        sub = [ann_to_type(prog, module, a, cls) for a in args]
        if head == "Optional":
            return ("opt", sub[0])
        if head in ("List", "list", "Sequence"):
            return ("list", sub[0])
        if head in ("Set", "set", "FrozenSet", "frozenset"):
            return ("set", sub[0])
        if head in ("Dict", "dict", "Mapping"):
            return ("dict", sub[0], sub[1] if len(sub) > 1 else ANY)
        if head in ("Iterator", "Iterable"):
            return ("iter", sub[0])
        if head in ("Tuple", "tuple"):
            return ("tuple", tuple(sub))
        if head == "AVLTree":
            return ("avl", sub[0], sub[1] if len(sub) > 1 else ANY)
        return ("ext", head)
    return ANY


@dataclass
class Ctx:
    module: str
    cls: Optional[ClassInfo] = None
    func: Optional[FuncInfo] = None
    vars: Dict[str, Tuple[Term, Type]] = field(default_factory=dict)
    depth: int = 0
    subst_locals: bool = True
    _busy: Tuple[str, ...] = ()

    def child(self, **kw: Any) -> "Ctx":
        c = Ctx(self.module, self.cls, self.func, dict(self.vars), self.depth, self.subst_locals, self._busy)
        for k, v in kw.items():
            setattr(c, k, v)
        return c


MAX_DEPTH = 8


class Norm:
    def __init__(self, prog: Program) -> None:
        self.prog = prog
        self._field_types: Dict[str, Type] = {}
        self.opaque_funcs: set = set()  # fq names never inlined (kept as ('call', fq, args))
        self._local_tables: Dict[int, Dict[str, Any]] = {}
        self.touched: set = set()  # fq names of every function whose body was interpreted (soundness guards look at these)

    # ------------------------------------------------------------ contexts
    def ctx_for(self, fi: FuncInfo, subst_locals: bool = True) -> Ctx:
        ctx = Ctx(fi.module, fi.cls, fi, {}, 0, subst_locals)
        for i, p in enumerate(fi.params):
            if i == 0 and fi.cls is not None and not fi.is_staticmethod:
                if fi.is_classmethod:
                    ctx.vars[p.arg] = (("sym", "cls"), ("type", fi.cls.fq))
                else:
                    ctx.vars[p.arg] = (("sym", "self"), ("cls", fi.cls.fq))
                continue
            ctx.vars[p.arg] = (("sym", p.arg), ann_to_type(self.prog, fi.module, p.annotation, fi.cls))
        return ctx

    # ----------------------------------------------------------- type help
    def field_type(self, ci: ClassInfo, attr: str) -> Type:
        key = f"{ci.fq}.{attr}"
        if key in self._field_types:
            return self._field_types[key]
        ty: Type = ANY
        stmt = ci.class_attrs.get(attr)
        if isinstance(stmt, ast.AnnAssign):
            ty = ann_to_type(self.prog, ci.module, stmt.annotation, ci)
        if ty == ANY:
            for fi in ci.methods.values():
                for node in ast.walk(fi.node):
                    if isinstance(node, ast.AnnAssign) and isinstance(node.target, ast.Attribute) and node.target.attr == attr:
                        if isinstance(node.target.value, ast.Name) and node.target.value.id == "self":
                            ty = ann_to_type(self.prog, ci.module, node.annotation, ci)
                            break
                if ty != ANY:
                    break
        if ty == ANY:
            self._field_types[key] = ANY  # recursion guard
            for fi in ci.methods.values():
                for node in ast.walk(fi.node):
                    if isinstance(node, ast.Assign) and len(node.targets) == 1 and isinstance(node.targets[0], ast.Attribute) and node.targets[0].attr == attr:
                        tgt = node.targets[0]
                        if isinstance(tgt.value, ast.Name) and tgt.value.id == "self":
                            _, ty = self.eval(node.value, self.ctx_for(fi, subst_locals=False))
                            break
                if ty != ANY:
                    break
        self._field_types[key] = ty
        return ty

    def elem_type(self, ty: Type) -> Type:
        if ty[0] in ("list", "set", "iter"):
            return ty[1]
        if ty[0] == "dict":
            return ty[1]
        ci = class_of(self.prog, ty)
        if ci is not None:
            it = self.prog.lookup_method(ci, "__iter__")
            if it is not None:
                rty = ann_to_type(self.prog, it.module, it.node.returns, it.cls)
                rci = class_of(self.prog, rty)
                if rci is not None:
                    nx = self.prog.lookup_method(rci, "__next__")
                    if nx is not None:
                        return ann_to_type(self.prog, nx.module, nx.node.returns, nx.cls)
                if rty[0] == "iter":
                    return rty[1]
            for b in ci.base_exprs:  # class X(Iterable[T])
                if isinstance(b, ast.Subscript) and unparse(b.value).split(".")[-1] in ("Iterable", "Iterator"):
                    return ann_to_type(self.prog, ci.module, b.slice, ci)
        return ANY

    # ---------------------------------------------------------------- eval
    def eval(self, node: ast.AST, ctx: Ctx) -> Tuple[Term, Type]:
        meth = getattr(self, "e_" + type(node).__name__, None)
        if meth is None:
            folded = self._fold(node, ctx)
            if folded is not UNKNOWN and not isinstance(folded, (dict, list)):
                return ("const", folded), ANY
            return ("unk", unparse(node)), ANY
        t, ty = meth(node, ctx)
        if t[0] == "xcall" and t[1] == "str" and t[2] is None and len(t[3]) == 1 and not t[4] and isinstance(node, ast.Call) and isinstance(node.func, ast.Name):
            return ("fstr", (t[3][0],)), ("prim", "str")  # str(x) and f"{x}" are one term
        return t, ty

    def term(self, node: ast.AST, ctx: Ctx) -> Term:
        return self.eval(node, ctx)[0]

    def _fold(self, node: ast.AST, ctx: Ctx) -> Any:
        env = {}
        return Folder(self.prog, ctx.module, env, ctx.cls).fold(node)

    def e_Constant(self, node: ast.Constant, ctx: Ctx) -> Tuple[Term, Type]:
        v = node.value
        ty: Type = ("prim", type(v).__name__) if v is not None else ("prim", "None")
        return ("const", v), ty

    def e_Name(self, node: ast.Name, ctx: Ctx) -> Tuple[Term, Type]:
        name = node.id
        if name in ctx.vars:
            return ctx.vars[name]
        if name in ("True", "False", "None"):
            return ("const", {"True": True, "False": False, "None": None}[name]), ("prim", "bool")
        if ctx.func is not None:
            local = self._local(name, node, ctx)
            if local is not None:
                return local
        res = self.prog.resolve_name(ctx.module, name)
        if res is not None:
            kind, val = res
            if kind == "const":
                mod, stmt = val
                folded = Folder(self.prog, mod.name).fold(getattr(stmt, "value", None))
                ty = ann_to_type(self.prog, mod.name, stmt.annotation) if isinstance(stmt, ast.AnnAssign) else ANY
                if folded is not UNKNOWN and not isinstance(folded, (dict, list)):
                    return ("const", folded), ty
                return ("sym", f"{mod.name}:{name}"), ty
            if kind == "class":
                return ("sym", f"class:{val.fq}"), ("type", val.fq)
            if kind == "func":
                return ("sym", f"func:{val.fq}"), ("func", val.fq)
            if kind == "external":
                return ("sym", f"ext:{val}"), ("extref", val)
            if kind == "module":
                return ("sym", f"module:{val}"), ("module", val)
        return ("sym", name), ANY

    @staticmethod
    def _build_local_table(fn: ast.AST) -> Dict[str, Tuple[List[ast.AST], Optional[ast.AST], Optional[ast.AST]]]:
        """name -> (defining nodes in walk order, first annotation, iterable of a simple for-loop that binds it); one walk per function."""
        table: Dict[str, List[Any]] = {}

        def ent(name: str) -> List[Any]:
            return table.setdefault(name, [[], None, None])

        for n in ast.walk(fn):
            if isinstance(n, ast.AnnAssign) and isinstance(n.target, ast.Name):
                e = ent(n.target.id)
                e[1] = e[1] or n.annotation
                if n.value is not None:
                    e[0].append(n)
            elif isinstance(n, ast.Assign):
                for tgt in n.targets:
                    for nm in ast.walk(tgt):
                        if isinstance(nm, ast.Name) and isinstance(nm.ctx, ast.Store):
                            ent(nm.id)[0].append(n)
            elif isinstance(n, ast.AugAssign) and isinstance(n.target, ast.Name):
                ent(n.target.id)[0].append(n)
            elif isinstance(n, (ast.For, ast.comprehension)):
                for nm in ast.walk(n.target):
                    if isinstance(nm, ast.Name):
                        e = ent(nm.id)
                        e[0].append(n)
                        e[2] = n.iter if isinstance(n.target, ast.Name) else None
            elif isinstance(n, ast.NamedExpr):
                ent(n.target.id)[0].append(n)
            elif isinstance(n, ast.ExceptHandler) and n.name:
                ent(n.name)[0].append(n)
            elif isinstance(n, ast.withitem) and n.optional_vars is not None:
                for nm in ast.walk(n.optional_vars):
                    if isinstance(nm, ast.Name):
                        ent(nm.id)[0].append(n)
        return {k: (v[0], v[1], v[2]) for k, v in table.items()}

    def _local(self, name: str, use: ast.AST, ctx: Ctx) -> Optional[Tuple[Term, Type]]:
        """Local variable: declared type from annotations; single-definition locals are substituted."""
        fn = ctx.func.node if ctx.func else None
        if fn is None:
            return None
        table = self._local_tables.get(id(fn))
        if table is None:
            table = self._build_local_table(fn)
            self._local_tables[id(fn)] = table
        defs, ann, loop_iter = table.get(name, ([], None, None))
        if not defs and ann is None:
            return None
        ty: Type = ann_to_type(self.prog, ctx.module, ann, ctx.cls) if ann is not None else ANY
        if len(defs) == 1 and ctx.subst_locals and ctx.depth < MAX_DEPTH and name not in ctx._busy:
            d = defs[0]
            value = None
            if isinstance(d, ast.AnnAssign):
                value = d.value
            elif isinstance(d, ast.Assign) and len(d.targets) == 1 and isinstance(d.targets[0], ast.Name):
                value = d.value
            if value is not None:
                sub = ctx.child(depth=ctx.depth + 1, _busy=ctx._busy + (name,))
                t, vty = self.eval(value, sub)
                return t, (ty if ty != ANY else vty)
        if ty == ANY and loop_iter is not None and len(defs) == 1:
            _, ity = self.eval(loop_iter, ctx.child(depth=ctx.depth + 1, _busy=ctx._busy + (name,)))
            ty = self.elem_type(ity)
        if ty == ANY and len(defs) == 1 and isinstance(defs[0], ast.Assign) and name not in ctx._busy:
            d = defs[0]
            if len(d.targets) == 1 and isinstance(d.targets[0], ast.Name):
                _, ty = self.eval(d.value, ctx.child(depth=ctx.depth + 1, _busy=ctx._busy + (name,), subst_locals=False))
        return ("sym", name), ty

    def e_Attribute(self, node: ast.Attribute, ctx: Ctx) -> Tuple[Term, Type]:
        # constant-foldable (Enum members, class constants, sys.maxsize, MIN_DATE.year)
        if not (isinstance(node.value, ast.Name) and node.value.id in ctx.vars and node.value.id not in ("self", "cls")):
            folded = self._fold(node, ctx)
            if folded is not UNKNOWN and not isinstance(folded, (dict, list)):
                ty: Type = ANY
                if isinstance(folded, EnumVal):
                    ty = ("cls", folded.cls)
                elif isinstance(folded, (int, str, bool)):
                    ty = ("prim", type(folded).__name__)
                return ("const", folded), ty
        base, bty = self.eval(node.value, ctx)
        return self.attr(base, bty, node.attr, ctx, node)

    def _impls(self, ci: ClassInfo, name: str) -> List[FuncInfo]:
        """All implementations a call on static type ``ci`` may dispatch to."""
        seen: Dict[str, FuncInfo] = {}
        for sub in self.prog.subclasses(ci):
            fi = self.prog.lookup_method(sub, name)
            if fi is not None and not fi.is_abstract:
                seen[fi.fq] = fi
        return [seen[k] for k in sorted(seen)]

    def attr(self, base: Term, bty: Type, name: str, ctx: Ctx, node: Optional[ast.AST] = None) -> Tuple[Term, Type]:
        # class object receiver: Cls.attr
        if bty and bty[0] == "type":
            ci = self.prog.classes.get(bty[1])
            if ci is not None:
                mem = self.prog.lookup_member(ci, name)
                if mem and mem[0] == "func":
                    return ("sym", f"func:{mem[1].fq}"), ("func", mem[1].fq)
                if mem and mem[0] == "classattr":
                    owner, stmt = mem[1]
                    folded = Folder(self.prog, owner.module, {}, owner).fold(getattr(stmt, "value", None))
                    aty = ann_to_type(self.prog, owner.module, stmt.annotation, owner) if isinstance(stmt, ast.AnnAssign) else ANY
                    if folded is not UNKNOWN and not isinstance(folded, (dict, list)):
                        return ("const", folded), aty
                    return ("fld", ("sym", f"class:{owner.fq}"), f"{owner.name}.{name}"), aty
            return ("attr", base, name), ANY
        ci = class_of(self.prog, bty)
        if base[0] == "ite" and ci is not None and (ci.is_dataclass() or ci.is_namedtuple()):
            # field of a conditional value: distribute (equal branches merge)
            a, aty = self.attr(base[2], bty, name, ctx, node)
            b, _ = self.attr(base[3], bty, name, ctx, node)
            return mk_ite(base[1], a, b), aty
        if ci is None:
            return ("attr", base, name), self._ext_attr_type(bty, name)
        if base[0] == "new" and (ci.is_dataclass() or ci.is_namedtuple()) and name in dict(base[2]):
            # field of a value constructed right here: Account(exchange=X, ...).exchange == X
            fty = dict((n, a) for n, a in ci.dataclass_fields()).get(name)
            return dict(base[2])[name], ann_to_type(self.prog, ci.module, fty, ci)
        # private / protected field on self within the defining class (name mangling)
        if name.startswith("__") and not name.endswith("__"):
            owner = ctx.cls if ctx.cls is not None else ci
            if name in owner.methods and not owner.methods[name].is_property:
                return ("bound", base, name), ("method", owner.fq, name)
            if name not in owner.methods:
                return ("fld", base, f"{owner.name}.{name}"), self.field_type(owner, name)
        impls = self._impls(ci, name)
        own = self.prog.lookup_method(ci, name)
        if own is not None or impls:
            ref = own or impls[0]
            if ref.is_property:
                rty = ann_to_type(self.prog, ref.module, ref.node.returns, ref.cls)
                if ctx.depth >= MAX_DEPTH:
                    return ("attr", base, name), rty
                if len(impls) == 1:
                    return self.inline(impls[0], base, {}, ctx), rty
                if len(impls) > 1:
                    alts = tuple((fi.cls.name if fi.cls else "?", self.inline(fi, base, {}, ctx)) for fi in impls)
                    if len({tkey(a[1]) for a in alts}) == 1:
                        return alts[0][1], rty
                    return ("virt", name, base, alts), rty
                return ("attr", base, name), rty
            # bound method reference
            return ("bound", base, name), ("method", ci.fq, name)
        mem = self.prog.lookup_member(ci, name)
        if mem and mem[0] == "classattr":
            owner, stmt = mem[1]
            aty = ann_to_type(self.prog, owner.module, stmt.annotation, owner) if isinstance(stmt, ast.AnnAssign) else ANY
            if owner.is_dataclass() or owner.is_namedtuple():
                return ("fld", base, f"{owner.name}.{name}"), aty
            folded = Folder(self.prog, owner.module, {}, owner).fold(getattr(stmt, "value", None))
            if folded is not UNKNOWN and not isinstance(folded, (dict, list)):
                return ("const", folded), aty
            return ("fld", base, f"{owner.name}.{name}"), aty
        # plain instance field (protected or public) assigned in a method
        for c in self.prog.mro(ci):
            ty = self.field_type(c, name)
            if ty != ANY:
                return ("fld", base, f"{c.name}.{name}"), ty
        return ("fld", base, f"{ci.name}.{name}"), ANY

    @staticmethod
    def _ext_attr_type(bty: Type, name: str) -> Type:
        if bty and bty[0] == "ext":
            last = str(bty[1]).split(".")[-1]
            if last in ("datetime", "date") and name in ("year", "month", "day", "hour", "minute", "second"):
                return ("prim", "int")
            if last == "timedelta" and name in ("days", "seconds"):
                return ("prim", "int")
            if last == "datetime" and name == "tzinfo":
                return ("opt", ("ext", "datetime.tzinfo"))
        return ANY

    # -------------------------------------------------------------- inline
    def inline(self, fi: FuncInfo, recv: Optional[Term], args: Dict[str, Tuple[Term, Type]], ctx: Ctx) -> Term:
        """Symbolic return value of a small pure function; opaque ('call') when the body is not of that shape."""
        if ctx.depth >= MAX_DEPTH or fi.fq in ctx._busy or fi.fq in self.opaque_funcs:
            return self._opaque(fi, recv, args)
        sub = Ctx(fi.module, fi.cls, fi, {}, ctx.depth + 1, True, ctx._busy + (fi.fq,))
        params = fi.params
        defaults = fi.param_defaults()
        for i, p in enumerate(params):
            if i == 0 and fi.cls is not None and not fi.is_staticmethod:
                if fi.is_classmethod:
                    sub.vars[p.arg] = (("sym", f"class:{fi.cls.fq}"), ("type", fi.cls.fq))
                else:
                    sub.vars[p.arg] = (recv if recv is not None else ("sym", "self"), ("cls", fi.cls.fq))
                continue
            pty = ann_to_type(self.prog, fi.module, p.annotation, fi.cls)
            if p.arg in args:
                t, aty = args[p.arg]
                sub.vars[p.arg] = (t, pty if pty != ANY else aty)
            elif p.arg in defaults:
                dt, _ = self.eval(defaults[p.arg], Ctx(fi.module, fi.cls, None, {}, ctx.depth + 1))
                sub.vars[p.arg] = (dt, pty)
            else:
                sub.vars[p.arg] = (("sym", p.arg), pty)
        self.touched.add(fi.fq)
        out = self._exec_block(fi.body, sub)
        if out is None:
            return self._opaque(fi, recv, args)
        return out

    def _opaque(self, fi: FuncInfo, recv: Optional[Term], args: Dict[str, Tuple[Term, Type]]) -> Term:
        items = [(k, v[0]) for k, v in sorted(args.items())]
        if recv is not None and fi.cls is not None and not fi.is_staticmethod and not fi.is_classmethod:
            items = sorted([("self", recv)] + items, key=lambda kv: kv[0])
        return ("call", fi.fq, tuple(items))

    def _is_noise(self, stmt: ast.stmt) -> bool:
        """Statements without effect on the returned value: logging, type_check calls on names, bare declarations."""
        if isinstance(stmt, ast.Expr) and isinstance(stmt.value, ast.Call):
            txt = unparse(stmt.value.func)
            if txt.startswith("LOGGER.") or ".type_check" in txt or txt.endswith("._check_sort") or txt.endswith("._validate_entry"):
                return True
            # a call on self to a private method whose value is discarded (ensure-sorted, check-membership, whatever it is called): it cannot contribute
            # to the value the function returns except through state, which the rules that care (sort order, membership) decide on their own
            f_ = stmt.value.func
            if isinstance(f_, ast.Attribute) and isinstance(f_.value, ast.Name) and f_.value.id in ("self", "cls") and f_.attr.startswith("_") and not f_.attr.endswith("__"):
                return True
        if isinstance(stmt, ast.AnnAssign) and stmt.value is None:
            return True
        if isinstance(stmt, ast.Pass):
            return True
        if isinstance(stmt, ast.Expr) and isinstance(stmt.value, ast.Constant):
            return True
        return False

    def _exec_block(self, stmts: List[ast.stmt], ctx: Ctx) -> Optional[Term]:
        """Return-value term of a statement list, or None when not interpretable / falls through."""
        for i, stmt in enumerate(stmts):
            if self._is_noise(stmt):
                continue
            if isinstance(stmt, ast.Return):
                if stmt.value is None:
                    return ("const", None)
                return self.term(stmt.value, ctx)
            if isinstance(stmt, ast.Raise):
                return RAISE
            if isinstance(stmt, (ast.Assign, ast.AnnAssign)):
                tgt = stmt.targets[0] if isinstance(stmt, ast.Assign) and len(stmt.targets) == 1 else getattr(stmt, "target", None)
                if isinstance(tgt, ast.Name) and stmt.value is not None:
                    t, ty = self.eval(stmt.value, ctx)
                    if isinstance(stmt, ast.AnnAssign):
                        aty = ann_to_type(self.prog, ctx.module, stmt.annotation, ctx.cls)
                        ty = aty if aty != ANY else ty
                    ctx.vars[tgt.id] = (t, ty)
                    continue
                return None
            if isinstance(stmt, ast.If):
                cond = self.cond(stmt.test, ctx)
                rest = stmts[i + 1 :]
                a = self._exec_block(list(stmt.body) + self._tail_if_falls(stmt.body, rest), ctx.child())
                b = self._exec_block(list(stmt.orelse) + self._tail_if_falls(stmt.orelse, rest), ctx.child())
                if a is None or b is None:
                    return None
                return mk_ite(cond, a, b)
            return None
        return None

    @staticmethod
    def _tail_if_falls(block: List[ast.stmt], rest: List[ast.stmt]) -> List[ast.stmt]:
        if block and isinstance(block[-1], (ast.Return, ast.Raise)):
            return []
        return list(rest)

    # ----------------------------------------------------------- operators
    def e_BinOp(self, node: ast.BinOp, ctx: Ctx) -> Tuple[Term, Type]:
        l, lt = self.eval(node.left, ctx)
        r, rt = self.eval(node.right, ctx)
        ty = lt if lt != ANY else rt
        if l[0] == "const" and r[0] == "const":
            folded = self._fold(node, ctx)
            if folded is not UNKNOWN:
                return ("const", folded), ty
        op = type(node.op)
        if op is ast.Add:
            if (lt and lt[0] == "prim" and lt[1] == "str") or l[0] == "fstr" or r[0] == "fstr":
                return ("fstr", (l, r)), ("prim", "str")
            if self._is_seq(l, lt) or self._is_seq(r, rt):
                parts = (list(l[1]) if l[0] == "concat" else [l]) + (list(r[1]) if r[0] == "concat" else [r])
                return ("concat", tuple(parts)), (lt if lt != ANY else rt)
            return mk_add([l, r]), ty
        if op is ast.Sub:
            if self._is_dt(lt) and self._is_dt(rt):
                ty = ("ext", "datetime.timedelta")
            return mk_add([l, mk_neg(r)]), ty
        if op is ast.Mult:
            return mk_mul([l, r]), ty
        if op is ast.Div:
            return ("div", l, r), ty
        return ("bin", type(node.op).__name__, l, r), ty

    @staticmethod
    def _is_seq(t: Term, ty: Type) -> bool:
        """List-valued operand: + is concatenation (order matters), not commutative addition."""
        if ty and ty[0] in ("list", "tuple"):
            return True
        return t[0] in ("list", "concat") or (t[0] == "xcall" and t[1] in ("list", "sorted", "tuple") and t[2] is None)

    @staticmethod
    def _is_dt(ty: Type) -> bool:
        return bool(ty) and ty[0] == "ext" and str(ty[1]).split(".")[-1] == "datetime"

    def e_UnaryOp(self, node: ast.UnaryOp, ctx: Ctx) -> Tuple[Term, Type]:
        if isinstance(node.op, ast.Not):
            return mk_not(self.cond(node.operand, ctx)), ("prim", "bool")
        t, ty = self.eval(node.operand, ctx)
        if isinstance(node.op, ast.USub):
            return mk_neg(t), ty
        return ("bin", type(node.op).__name__, t, ("const", None)), ty

    def cond(self, node: ast.AST, ctx: Ctx) -> Term:
        """Boolean reading of an expression (truthiness made explicit)."""
        t, ty = self.eval(node, ctx)
        return self.truth(t, ty)

    def truth(self, t: Term, ty: Type) -> Term:
        if t[0] in ("cmp", "not", "and", "or", "truthy"):
            return t
        if t[0] == "const":
            return ("const", bool(t[1]))
        if t[0] == "ite":
            return ("ite", t[1], self.truth(t[2], ty), self.truth(t[3], ty))
        if ty == ("prim", "bool"):
            return t
        if ty and ty[0] == "opt":
            ci = class_of(self.prog, ty)
            if ci is not None and not self._has_bool(ci):
                return ("cmp", "is not", t, ("const", None))
        if ty and ty[0] == "cls":
            ci = class_of(self.prog, ty)
            if ci is not None and not self._has_bool(ci):
                return ("const", True)
        return ("truthy", t)

    def _has_bool(self, ci: ClassInfo) -> bool:
        if any(self.prog.lookup_method(ci, m) for m in ("__bool__", "__len__")):
            return True
        return any("Decimal" in c.external_bases or c.name == "RP2Decimal" for c in self.prog.mro(ci))

    def e_BoolOp(self, node: ast.BoolOp, ctx: Ctx) -> Tuple[Term, Type]:
        parts = [self.cond(v, ctx) for v in node.values]
        return (mk_and(parts) if isinstance(node.op, ast.And) else mk_or(parts)), ("prim", "bool")

    def e_Compare(self, node: ast.Compare, ctx: Ctx) -> Tuple[Term, Type]:
        parts: List[Term] = []
        left = self.term(node.left, ctx)
        for op, comp in zip(node.ops, node.comparators):
            right = self.term(comp, ctx)
            o = _CMP[type(op)]
            if left[0] == "const" and right[0] == "const" and o in ("is", "is not", "==", "!=") and (left[1] is None or right[1] is None):
                same = left[1] is right[1] or (left[1] is None) == (right[1] is None) and left[1] == right[1]
                parts.append(("const", same if o in ("is", "==") else not same))
            else:
                parts.append(("cmp", o, left, right))
            left = right
        return mk_and(parts), ("prim", "bool")

    def e_IfExp(self, node: ast.IfExp, ctx: Ctx) -> Tuple[Term, Type]:
        c = self.cond(node.test, ctx)
        a, at = self.eval(node.body, ctx)
        b, bt = self.eval(node.orelse, ctx)
        return mk_ite(c, a, b), (at if at != ANY and at != ("prim", "None") else bt)

    def e_JoinedStr(self, node: ast.JoinedStr, ctx: Ctx) -> Tuple[Term, Type]:
        parts: List[Any] = []
        for v in node.values:
            if isinstance(v, ast.Constant):
                parts.append(str(v.value))
            elif isinstance(v, ast.FormattedValue):
                t = self.term(v.value, ctx)
                if v.format_spec is not None:
                    spec = Folder(self.prog, ctx.module, {}, ctx.cls).fold(v.format_spec)
                    t = ("xcall", "format", None, (t, ("const", spec if spec is not UNKNOWN else unparse(v.format_spec))), ())
                parts.append(t)
        if all(isinstance(p, str) for p in parts):
            return ("const", "".join(parts)), ("prim", "str")
        return ("fstr", tuple(parts)), ("prim", "str")

    def e_Tuple(self, node: ast.Tuple, ctx: Ctx) -> Tuple[Term, Type]:
        if node.elts:
            folded = self._fold(node, ctx)
            if folded is not UNKNOWN and all(isinstance(x, EnumVal) for x in folded):
                return ("const", frozenset(folded)), ANY  # a tuple of Enum members is only ever used as a membership table here
        return ("tuple", tuple(self.term(e, ctx) for e in node.elts)), ANY

    def e_Set(self, node: ast.Set, ctx: Ctx) -> Tuple[Term, Type]:
        folded = self._fold(node, ctx)
        if folded is not UNKNOWN:
            return ("const", folded), ANY
        return ("list", tuple(sorted((self.term(e, ctx) for e in node.elts), key=tkey))), ANY

    def e_List(self, node: ast.List, ctx: Ctx) -> Tuple[Term, Type]:
        return ("list", tuple(self.term(e, ctx) for e in node.elts)), ANY

    def e_Subscript(self, node: ast.Subscript, ctx: Ctx) -> Tuple[Term, Type]:
        base, bty = self.eval(node.value, ctx)
        idx = self.term(node.slice, ctx)
        ety: Type = ANY
        if bty and bty[0] == "dict":
            ety = bty[2]
        elif bty and bty[0] == "list":
            ety = bty[1]
        return ("sub", base, idx), ety

    def e_Starred(self, node: ast.Starred, ctx: Ctx) -> Tuple[Term, Type]:
        return ("star", self.term(node.value, ctx)), ANY

    def e_Lambda(self, node: ast.Lambda, ctx: Ctx) -> Tuple[Term, Type]:
        sub = ctx.child()
        for a in node.args.args:
            sub.vars[a.arg] = (("sym", f"λ{a.arg}"), ANY)
        return ("lambda", tuple(a.arg for a in node.args.args), self.term(node.body, sub)), ANY

    # --------------------------------------------------------------- calls
    def _bind_args(self, fi: FuncInfo, node: ast.Call, ctx: Ctx, skip_first: bool) -> Dict[str, Tuple[Term, Type]]:
        params = fi.param_names[1:] if skip_first else fi.param_names
        out: Dict[str, Tuple[Term, Type]] = {}
        for i, a in enumerate(node.args):
            if isinstance(a, ast.Starred):
                out[f"*{i}"] = self.eval(a.value, ctx)
            elif i < len(params):
                out[params[i]] = self.eval(a, ctx)
            else:
                out[f"#{i}"] = self.eval(a, ctx)
        for kw in node.keywords:
            if kw.arg is None:
                out["**"] = self.eval(kw.value, ctx)
            else:
                out[kw.arg] = self.eval(kw.value, ctx)
        return out

    def e_Call(self, node: ast.Call, ctx: Ctx) -> Tuple[Term, Type]:
        func = node.func
        # cast(T, x)
        if isinstance(func, ast.Name) and func.id == "cast" and len(node.args) == 2:
            t, _ = self.eval(node.args[1], ctx)
            return t, ann_to_type(self.prog, ctx.module, node.args[0], ctx.cls)
        # super().m(...)
        if isinstance(func, ast.Attribute) and isinstance(func.value, ast.Call) and unparse(func.value.func) == "super" and ctx.cls is not None:
            for base in self.prog.mro(ctx.cls)[1:]:
                if func.attr in base.methods:
                    fi = base.methods[func.attr]
                    args = self._bind_args(fi, node, ctx, skip_first=True)
                    recv = ctx.vars.get("self", (("sym", "self"), ANY))[0]
                    return ("call", fi.fq, tuple(sorted([("self", recv)] + [(k, v[0]) for k, v in args.items()], key=lambda kv: kv[0]))), ann_to_type(
                        self.prog, fi.module, fi.node.returns, fi.cls
                    )
            return ("xcall", f"super.{func.attr}", None, tuple(self.term(a, ctx) for a in node.args), ()), ANY
        # gettext marker: _("msgid") is the msgid for table/label comparisons
        if isinstance(func, ast.Name) and func.id == "_" and len(node.args) == 1 and not node.keywords:
            inner, _ty = self.eval(node.args[0], ctx)
            if inner[0] == "const" and isinstance(inner[1], str):
                return inner, ("prim", "str")
        ft, fty = self.eval(func, ctx)
        # internal function / classmethod / staticmethod reference
        if fty and fty[0] == "func":
            fi = self.prog.functions[fty[1]]
            skip = fi.cls is not None and not fi.is_staticmethod
            args = self._bind_args(fi, node, ctx, skip_first=skip)
            rty = ann_to_type(self.prog, fi.module, fi.node.returns, fi.cls)
            return self._call_internal([fi], None, args, ctx), rty
        if fty and fty[0] == "type":
            ci = self.prog.classes[fty[1]]
            return self._construct(ci, node, ctx), ("cls", ci.fq)
        if ft[0] == "bound":
            recv, name = ft[1], ft[2]
            ci = self.prog.classes[fty[1]]
            impls = self._impls(ci, name)
            ref = self.prog.lookup_method(ci, name) or (impls[0] if impls else None)
            if ref is not None:
                args = self._bind_args(ref, node, ctx, skip_first=not ref.is_staticmethod)
                rty = ann_to_type(self.prog, ref.module, ref.node.returns, ref.cls)
                if not impls:
                    return self._opaque(ref, recv, args), rty
                return self._call_internal(impls, recv, args, ctx, name), rty
        # external call
        recv_t: Optional[Term] = None
        name = unparse(func)
        rty: Type = ANY
        if isinstance(func, ast.Attribute):
            recv_t, recv_ty = self.eval(func.value, ctx)
            name = func.attr
            rty = self._ext_call_type(recv_ty, name)
            if recv_t[0] == "sym" and (recv_t[1].startswith("ext:") or recv_t[1].startswith("module:")):
                name = f"{recv_t[1].split(':', 1)[1]}.{func.attr}"
                recv_t = None
        elif ft[0] == "sym" and ft[1].startswith("ext:"):
            name = ft[1][4:]
        args_t = tuple(self.term(a, ctx) for a in node.args)
        kws = tuple(sorted((kw.arg or "**", self.term(kw.value, ctx)) for kw in node.keywords))
        if name in ("RP2Decimal", "rp2.rp2_decimal.RP2Decimal"):
            rty = ("cls", "rp2.rp2_decimal:RP2Decimal")
        return ("xcall", name, recv_t, args_t, kws), rty

    @staticmethod
    def _ext_call_type(recv_ty: Type, name: str) -> Type:
        if recv_ty and recv_ty[0] == "dict" and name in ("get", "setdefault", "pop"):
            return recv_ty[2]
        if recv_ty and recv_ty[0] == "dict" and name == "copy":
            return recv_ty
        if recv_ty and recv_ty[0] == "ext":
            last = str(recv_ty[1]).split(".")[-1]
            if last == "datetime" and name == "date":
                return ("ext", "datetime.date")
            if last == "datetime" and name in ("astimezone", "replace"):
                return ("ext", "datetime.datetime")
            if last == "datetime" and name == "timestamp":
                return ("prim", "float")
            if last in ("datetime", "date") and name == "strftime":
                return ("prim", "str")
        if recv_ty and recv_ty[0] == "prim" and recv_ty[1] == "str":
            return ("prim", "str")
        return ANY

    def _call_internal(self, impls: List[FuncInfo], recv: Optional[Term], args: Dict[str, Tuple[Term, Type]], ctx: Ctx, name: str = "") -> Term:
        if len(impls) == 1:
            return self.inline(impls[0], recv, args, ctx)
        alts = tuple((fi.cls.name if fi.cls else "?", self.inline(fi, recv, args, ctx)) for fi in impls)
        if len({tkey(a[1]) for a in alts}) == 1:
            return alts[0][1]
        return ("virt", name, recv if recv is not None else ("const", None), alts)

    def _construct(self, ci: ClassInfo, node: ast.Call, ctx: Ctx) -> Term:
        params: List[str]
        init = self.prog.lookup_method(ci, "__init__")
        if (ci.is_dataclass() or ci.is_namedtuple()) and (init is None or init.cls is None or not (init.cls == ci)):
            params = [n for n, _ in ci.dataclass_fields()]
        elif init is not None:
            params = init.param_names[1:]
        else:
            params = []
        out: List[Tuple[str, Term]] = []
        for i, a in enumerate(node.args):
            key = params[i] if i < len(params) and not isinstance(a, ast.Starred) else f"#{i}"
            out.append((key, self.term(a.value if isinstance(a, ast.Starred) else a, ctx)))
        for kw in node.keywords:
            out.append((kw.arg or "**", self.term(kw.value, ctx)))
        return ("new", ci.fq, tuple(sorted(out, key=lambda x: x[0])))


VALIDATORS: set = set()  # fq names of the functions the model accepted as validators (filled by rp2model.Model)


def strip_validators(t: Any) -> Any:
    """Replace validator calls (type_check*, which return their value argument) by the validated value."""
    if not isinstance(t, tuple) or not t:
        return t
    if t[0] == "call" and (t[1] in VALIDATORS if VALIDATORS else ".type_check" in t[1]) or (t[0] == "call" and t[1].endswith(":cast")):
        kw = dict(t[2])
        for p in ("value", "instance", "transaction_type", "entry_set_type"):
            if p in kw:
                return strip_validators(kw[p])
    return tuple(strip_validators(x) if isinstance(x, tuple) else x for x in t)

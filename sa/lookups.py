"""R-LOOKUP: classification of every subscript *load* on a Dict-typed value (mypy's type map) in src/rp2."""

from __future__ import annotations

import ast
from typing import Any, Dict, Iterator, List, Optional, Tuple

from . import typed
from .consts import UNKNOWN, EnumVal, Folder, enum_members
from .loader import ancestors, enclosing_class, enclosing_function, parent, unparse
from .paths import path_condition
from .symbols import Program


def _qual(node: ast.AST) -> str:
    f, c = enclosing_function(node), enclosing_class(node)
    return f"{c.name + '.' if c else ''}{f.name if f else '<module>'}"


def dict_loads(prog: Program) -> Iterator[Tuple[Any, ast.Subscript, str]]:
    """(module, subscript node, receiver type) for every d[k] read where mypy types d as a dict / mapping."""
    for mod in prog.package.modules.values():
        for node in ast.walk(mod.tree):
            if not isinstance(node, ast.Subscript) or not isinstance(node.ctx, ast.Load):
                continue
            par = parent(node)
            if isinstance(par, ast.AugAssign) and par.target is node:
                pass  # d[k] += x reads d[k]
            ty = typed.type_of(mod.name, node.value)
            if ty is None:
                continue
            base = ty.split("[")[0].split(".")[-1].lower()
            if base in ("dict", "mapping", "defaultdict", "ordereddict", "mutablemapping", "sectionproxy", "configparser"):
                if base == "defaultdict":
                    continue
                yield mod, node, ty


def classify(prog: Program, mod, node: ast.Subscript) -> Optional[str]:
    """Reason the lookup cannot raise KeyError, or None when it is unguarded."""
    d_txt, k_txt = unparse(node.value), unparse(node.slice)
    fn = enclosing_function(node)
    # 1. dominated by a membership guard on the same container and key
    for test, pol in path_condition(node):
        for cmp_ in [n for n in ast.walk(test) if isinstance(n, ast.Compare) and len(n.ops) == 1]:
            if unparse(cmp_.left) == k_txt and unparse(cmp_.comparators[0]) in (d_txt, f"{d_txt}.keys()"):
                # only sound when the compare is the whole test or a conjunct (pol True) / disjunct (pol False)
                is_in, is_not_in = isinstance(cmp_.ops[0], ast.In), isinstance(cmp_.ops[0], ast.NotIn)
                if (is_in and pol and _is_conjunct(cmp_, test)) or (is_not_in and not pol and _is_disjunct(cmp_, test)):
                    return "dominated by a membership guard"
    # 2. key stored into the same container earlier on the way (same texts), or read through setdefault
    if fn is not None:
        for n in ast.walk(fn):
            if getattr(n, "lineno", 10**9) > node.lineno or (getattr(n, "lineno", 0) == node.lineno and n is not node and not _encloses(n, node) and getattr(n, "col_offset", 0) > node.col_offset):
                continue
            if isinstance(n, (ast.Assign, ast.AnnAssign)) and n is not _enclosing_stmt(node):
                for t in n.targets if isinstance(n, ast.Assign) else [n.target]:
                    if isinstance(t, ast.Subscript) and unparse(t.value) == d_txt and unparse(t.slice) == k_txt and _dominates(n, node):
                        return "key stored just before on every path"
            if isinstance(n, ast.Call) and isinstance(n.func, ast.Attribute) and n.func.attr == "setdefault" and unparse(n.func.value) == d_txt and n.args and unparse(n.args[0]) == k_txt and _dominates(_enclosing_stmt(n), node):
                return "key inserted by setdefault just before"
    # same statement: d[k] = d.setdefault(k, Z) + e   /   x = d.setdefault(k, Z) ... d[k]
    st = _enclosing_stmt(node)
    if st is not None:
        for n in ast.walk(st):
            if isinstance(n, ast.Call) and isinstance(n.func, ast.Attribute) and n.func.attr == "setdefault" and unparse(n.func.value) == d_txt and n.args and unparse(n.args[0]) == k_txt and n.lineno <= node.lineno:
                return "key inserted by setdefault in the same statement"
    # 3. key drawn from the container's own iteration
    for anc in ancestors(node):
        gens = []
        if isinstance(anc, ast.For):
            gens.append((anc.target, anc.iter))
        elif isinstance(anc, (ast.ListComp, ast.SetComp, ast.DictComp, ast.GeneratorExp)):
            gens.extend((g.target, g.iter) for g in anc.generators)
        for tgt, it in gens:
            it_txt = unparse(it)
            names = [unparse(x) for x in ast.walk(tgt) if isinstance(x, ast.Name)]
            if k_txt in names and it_txt in (d_txt, f"{d_txt}.items()", f"{d_txt}.keys()", f"sorted({d_txt})", f"sorted({d_txt}.items())", f"list({d_txt})"):
                return "key comes from iterating the same container"
    if isinstance(node.slice, ast.Call) and unparse(node.slice.func) in ("max", "min") and node.slice.args and unparse(node.slice.args[0]) == d_txt:
        return "key is max/min over the container's own keys"
    # 4. total table over an Enum, key typed as that Enum
    total = _total_enum_table(prog, mod, node)
    if total:
        return total
    # 5. "if K not in D: D[K] = ..." earlier on the way: the key is present afterwards
    if fn is not None:
        for n in ast.walk(fn):
            if isinstance(n, ast.If) and n.lineno < node.lineno and not n.orelse and _dominates(n, node):
                t = n.test
                if isinstance(t, ast.Compare) and len(t.ops) == 1 and isinstance(t.ops[0], ast.NotIn) and unparse(t.left) == k_txt and unparse(t.comparators[0]) == d_txt:
                    if any(isinstance(b, ast.Assign) and any(isinstance(x, ast.Subscript) and unparse(x.value) == d_txt and unparse(x.slice) == k_txt for x in b.targets) for b in n.body):
                        return "inserted when absent by the preceding 'if key not in dict' block"
    # 6. constant key of a local table whose single definition folds to a dict containing it (possibly through .copy())
    const = _constant_key_of_local_table(prog, mod, node)
    if const:
        return const
    return None


def _constant_key_of_local_table(prog: Program, mod, node: ast.Subscript) -> Optional[str]:
    fn = enclosing_function(node)
    cls = enclosing_class(node)
    if fn is None or not isinstance(node.value, ast.Name):
        return None
    ci = prog.classes.get(f"{mod.name}:{cls.name}") if cls is not None else None
    folder = Folder(prog, mod.name, {}, ci)
    key = folder.fold(node.slice)
    if key is UNKNOWN:
        return None
    name = node.value.id
    for _ in range(3):
        defs = [n for n in ast.walk(fn) if isinstance(n, (ast.Assign, ast.AnnAssign)) and any(isinstance(t, ast.Name) and t.id == name for t in (n.targets if isinstance(n, ast.Assign) else [n.target])) and n.value is not None]
        if len(defs) != 1:
            return None
        v = defs[0].value
        if isinstance(v, ast.Call) and isinstance(v.func, ast.Attribute) and v.func.attr == "copy" and isinstance(v.func.value, ast.Name) and not v.args:
            name = v.func.value.id
            continue
        table = folder.fold(v)
        if table is not UNKNOWN and isinstance(table, dict) and key in table:
            return f"constant key {key!r} of a table defined with that key"
        return None
    return None


def _encloses(a: ast.AST, b: ast.AST) -> bool:
    return any(x is b for x in ast.walk(a))


def _enclosing_stmt(node: ast.AST) -> Optional[ast.stmt]:
    cur: Optional[ast.AST] = node
    while cur is not None and not isinstance(cur, ast.stmt):
        cur = parent(cur)
    return cur  # type: ignore[return-value]


def _dominates(stmt: Optional[ast.AST], node: ast.AST) -> bool:
    """stmt is an earlier statement in a block that encloses (or is) the block of node: executes on every path reaching node."""
    if stmt is None:
        return False
    for anc in [node] + list(ancestors(node)):
        par = parent(anc)
        if par is None:
            break
        for fld in ("body", "orelse", "finalbody"):
            block = getattr(par, fld, None)
            if isinstance(block, list) and anc in block and stmt in block and block.index(stmt) < block.index(anc):
                return True
    return False


def _is_conjunct(cmp_: ast.AST, test: ast.AST) -> bool:
    if cmp_ is test:
        return True
    if isinstance(test, ast.BoolOp) and isinstance(test.op, ast.And):
        return any(_is_conjunct(cmp_, v) for v in test.values)
    return False


def _is_disjunct(cmp_: ast.AST, test: ast.AST) -> bool:
    if cmp_ is test:
        return True
    if isinstance(test, ast.BoolOp) and isinstance(test.op, ast.Or):
        return any(_is_disjunct(cmp_, v) for v in test.values)
    return False


def _total_enum_table(prog: Program, mod, node: ast.Subscript) -> Optional[str]:
    kty = typed.type_of(mod.name, node.slice) or ""
    kbase = kty.replace(" | None", "").split(".")[-1]
    enum_ci = next((c for c in prog.classes.values() if c.name == kbase and c.is_enum()), None)
    if enum_ci is None:
        return None
    members = {m.member for m in enum_members(prog, enum_ci)}
    # container expression: module constant, or self.<field> initialised by a comprehension over the whole Enum
    val = node.value
    cls = enclosing_class(node)
    ci = prog.classes.get(f"{mod.name}:{cls.name}") if cls is not None else None
    if isinstance(val, ast.Name):
        folded = Folder(prog, mod.name).fold(val)
        if folded is not UNKNOWN and isinstance(folded, dict) and {getattr(k, "member", None) for k in folded} >= members:
            return f"total table over {kbase} (all {len(members)} members are keys)"
    if isinstance(val, ast.Attribute) and isinstance(val.value, ast.Name) and val.value.id == "self" and ci is not None:
        inits = []
        for fi in ci.methods.values():
            for n in ast.walk(fi.node):
                if isinstance(n, (ast.Assign, ast.AnnAssign)):
                    for t in n.targets if isinstance(n, ast.Assign) else [n.target]:
                        if isinstance(t, ast.Attribute) and t.attr == val.attr and isinstance(t.value, ast.Name) and t.value.id == "self" and n.value is not None:
                            inits.append(n.value)
        if inits and all(isinstance(v, ast.DictComp) and len(v.generators) == 1 and unparse(v.generators[0].iter) == kbase and not v.generators[0].ifs and unparse(v.key) == unparse(v.generators[0].target) for v in inits):
            return f"total table over {kbase} (every (re)initialisation is a comprehension over the whole Enum)"
    return None


def site_key(mod, node: ast.Subscript) -> Tuple[str, str, str]:
    return (mod.name, _qual(node), unparse(node))

"""Rational normal form of arithmetic terms: a sum of monomials with rational coefficients.

``poly(t)`` expands products over sums and turns divisions into negative exponents, so that
``F * (1 - s)`` and ``F - F * s`` or ``(F * A) / C`` and ``F * (A / C)`` get the same form.  It is used
where a property states an *algebraic* relation between figures (C15: realized + unrealized = acquired;
weights add up to 1) and only the relation, not the order of operations, matters.  Where the order of
operations is itself the clause (C04: multiply first, divide last) the checks compare ``norm`` terms instead.

A monomial is a sorted tuple of (atom key, exponent); atoms are all non-arithmetic sub-terms (fields,
symbols, slot reads, calls, conditional expressions), compared by their canonical ``tkey``.
"""

from __future__ import annotations

from decimal import Decimal
from fractions import Fraction
from typing import Any, Dict, Optional, Tuple

from .norm import Term, show, tkey

Mono = Tuple[Tuple[str, int], ...]
Poly = Dict[Mono, Fraction]


def _const_value(t: Term) -> Optional[Fraction]:
    if t[0] == "const" and isinstance(t[1], (int, Decimal, Fraction)) and not isinstance(t[1], bool):
        return Fraction(t[1])
    # RP2Decimal("1") / Decimal("0.5") / RP2Decimal(1): a decimal constructed from a literal
    if t[0] in ("new", "xcall", "call"):
        name = t[1].split(":")[-1].split(".")[-1] if isinstance(t[1], str) else ""
        if name in ("RP2Decimal", "Decimal"):
            args = [a for _, a in t[2]] if t[0] in ("new", "call") else list(t[3])
            if len(args) == 1 and args[0][0] == "const" and isinstance(args[0][1], (str, int)) and not isinstance(args[0][1], bool):
                try:
                    return Fraction(Decimal(str(args[0][1])))
                except Exception:
                    return None
    return None


def _mul(a: Poly, b: Poly) -> Poly:
    out: Poly = {}
    for ma, ca in a.items():
        for mb, cb in b.items():
            exps: Dict[str, int] = {}
            for k, e in ma + mb:
                exps[k] = exps.get(k, 0) + e
            mono = tuple(sorted((k, e) for k, e in exps.items() if e != 0))
            out[mono] = out.get(mono, Fraction(0)) + ca * cb
    return {m: c for m, c in out.items() if c != 0}


def _add(a: Poly, b: Poly) -> Poly:
    out = dict(a)
    for m, c in b.items():
        out[m] = out.get(m, Fraction(0)) + c
    return {m: c for m, c in out.items() if c != 0}


def _inv(p: Poly) -> Poly:
    if len(p) == 1:
        (mono, c), = p.items()
        return {tuple(sorted((k, -e) for k, e in mono)): 1 / c}
    # a sum in the divisor stays an atom (its own normal form is the key)
    return {((pkey(p), -1),): Fraction(1)}


def pkey(p: Poly) -> str:
    return "P[" + ";".join(f"{c}*" + ",".join(f"{k}^{e}" for k, e in m) for m, c in sorted(p.items())) + "]"


def poly(t: Any) -> Poly:
    c = _const_value(t)
    if c is not None:
        return {(): c} if c != 0 else {}
    k = t[0]
    if k == "add":
        out: Poly = {}
        for x in t[1]:
            out = _add(out, poly(x))
        return out
    if k == "neg":
        return {m: -c for m, c in poly(t[1]).items()}
    if k == "mul":
        out = {(): Fraction(1)}
        for x in t[1]:
            out = _mul(out, poly(x))
        return out
    if k == "div":
        return _mul(poly(t[1]), _inv(poly(t[2])))
    if k == "bin" and t[1] == "Div":
        return _mul(poly(t[2]), _inv(poly(t[3])))
    return {((tkey(t), 1),): Fraction(1)}


def same(a: Any, b: Any) -> bool:
    """Algebraic identity of two terms as rational functions (exact arithmetic, no rounding)."""
    return poly(a) == poly(b)


def show_poly(p: Poly, names: Optional[Dict[str, str]] = None) -> str:
    names = names or {}
    parts = []
    for m, c in sorted(p.items()):
        ms = "*".join((names.get(k, k[:40]) + (f"^{e}" if e != 1 else "")) for k, e in m) or "1"
        parts.append(f"{c}*{ms}" if c != 1 else ms)
    return " + ".join(parts) or "0"

"""Path conditions and structured path enumeration over the statement kinds rp2 uses.

The code base is structured (no goto, no generators in the analysed functions),
so paths are enumerated by structural recursion over if/elif/else, for/while
(zero or one iteration), try/except/else/finally, with, and the exits
return / raise / break / continue / sys.exit.  Branches that contain neither an
event of interest nor an exit are collapsed, which keeps the enumeration small
and the reported paths short.
"""

from __future__ import annotations

import ast
from dataclasses import dataclass
from typing import Any, Callable, Iterable, List, Optional, Sequence, Tuple

from .loader import AnalysisError, parent, unparse

EXITS = ("return", "raise", "break", "continue", "exit")


def is_sys_exit(node: ast.AST) -> bool:
    return isinstance(node, ast.Expr) and isinstance(node.value, ast.Call) and unparse(node.value.func) in ("sys.exit", "exit", "quit", "os._exit")


def terminates(block: Sequence[ast.stmt]) -> bool:
    """True when control cannot fall out of the end of ``block``."""
    if not block:
        return False
    last = block[-1]
    if isinstance(last, (ast.Return, ast.Raise, ast.Break, ast.Continue)) or is_sys_exit(last):
        return True
    if isinstance(last, ast.If):
        return bool(last.orelse) and terminates(last.body) and terminates(last.orelse)
    if isinstance(last, ast.With):
        return terminates(last.body)
    if isinstance(last, ast.Try):
        tails = [last.body + last.orelse] + [h.body for h in last.handlers]
        return all(terminates(t) for t in tails) or terminates(last.finalbody)
    return False


def _block_of(node: ast.AST) -> Optional[Tuple[ast.AST, str, List[ast.stmt]]]:
    par = parent(node)
    if par is None:
        return None
    for fld in ("body", "orelse", "finalbody", "handlers"):
        block = getattr(par, fld, None)
        if isinstance(block, list) and node in block:
            return par, fld, block
    return None


def path_condition(node: ast.AST, stop: Optional[ast.AST] = None, early_exits: bool = True) -> List[Tuple[ast.expr, bool]]:
    """Conjunction of (test, polarity) under which ``node`` executes, inside function/loop ``stop``.

    Sources: enclosing if/elif/while tests, IfExp tests, and preceding sibling
    statements of the form ``if c: <block that cannot fall through>`` (early
    exits), in every enclosing block up to ``stop`` (default: the enclosing
    function).
    """
    conds: List[Tuple[ast.expr, bool]] = []
    cur: Optional[ast.AST] = node
    while cur is not None and cur is not stop and not isinstance(cur, (ast.FunctionDef, ast.AsyncFunctionDef, ast.Lambda, ast.ClassDef, ast.Module)):
        par = parent(cur)
        if par is None:
            break
        if isinstance(par, ast.IfExp):
            if cur is par.body:
                conds.append((par.test, True))
            elif cur is par.orelse:
                conds.append((par.test, False))
        if isinstance(par, ast.BoolOp) and isinstance(par.op, ast.And):
            idx = par.values.index(cur) if cur in par.values else 0
            for prev in par.values[:idx]:
                conds.append((prev, True))
        if isinstance(par, ast.BoolOp) and isinstance(par.op, ast.Or):
            idx = par.values.index(cur) if cur in par.values else 0
            for prev in par.values[:idx]:
                conds.append((prev, False))
        if isinstance(cur, ast.stmt):
            info = _block_of(cur)
            if info is not None:
                owner, fld, block = info
                for prev in block[: block.index(cur)] if early_exits else []:
                    if isinstance(prev, ast.If) and terminates(prev.body) and not prev.orelse:
                        conds.append((prev.test, False))
                    elif isinstance(prev, ast.If) and prev.orelse and terminates(prev.orelse) and not terminates(prev.body):
                        conds.append((prev.test, True))
                    elif isinstance(prev, ast.If) and prev.orelse and terminates(prev.body) and not terminates(prev.orelse):
                        conds.append((prev.test, False))
                if isinstance(owner, ast.If):
                    conds.append((owner.test, fld == "body"))
                elif isinstance(owner, ast.While) and fld == "body":
                    conds.append((owner.test, True))
        cur = par
    return conds


@dataclass(frozen=True)
class Path:
    events: Tuple[Any, ...]
    exit: str  # 'fall' or one of EXITS
    exit_node: Optional[ast.AST] = None

    def has(self, pred: Callable[[Any], bool]) -> bool:
        return any(pred(e) for e in self.events)


EventFn = Callable[[ast.AST], Optional[Any]]


class PathEnumerator:
    def __init__(self, event_of: EventFn, max_paths: int = 20000, loops: str = "01", want_conditions: bool = False) -> None:
        self.event_of = event_of
        self.max_paths = max_paths
        self.loops = loops
        self.want_conditions = want_conditions

    def _events_in(self, node: ast.AST) -> List[Any]:
        ev = self.event_of(node)
        if ev is None:
            return []
        return list(ev) if isinstance(ev, list) else [ev]

    def _interesting(self, stmts: Iterable[ast.stmt]) -> bool:
        for s in stmts:
            for n in ast.walk(s):
                if isinstance(n, (ast.Return, ast.Raise, ast.Break, ast.Continue)) or is_sys_exit(n):
                    return True
                if isinstance(n, ast.stmt) and self._events_in(n):
                    return True
                if isinstance(n, (ast.If, ast.While)) and self._events_in(n.test):
                    return True
        return False

    def block(self, stmts: Sequence[ast.stmt]) -> List[Path]:
        paths: List[Path] = [Path((), "fall")]
        for stmt in stmts:
            live = [p for p in paths if p.exit == "fall"]
            done = [p for p in paths if p.exit != "fall"]
            if not live:
                break
            tails = self.stmt(stmt)
            new: List[Path] = []
            for p in live:
                for t in tails:
                    new.append(Path(p.events + t.events, t.exit, t.exit_node))
            paths = done + self._dedup(new)
            if len(paths) > self.max_paths:
                raise AnalysisError(f"path enumeration exceeded {self.max_paths} paths")
        return paths

    @staticmethod
    def _dedup(paths: List[Path]) -> List[Path]:
        seen = {}
        for p in paths:
            key = (tuple(id(e) if not isinstance(e, (str, int, tuple)) else e for e in p.events), p.exit, id(p.exit_node))
            seen.setdefault(key, p)
        return list(seen.values())

    def stmt(self, stmt: ast.stmt) -> List[Path]:
        if isinstance(stmt, ast.Return):
            return [Path(tuple(self._events_in(stmt)), "return", stmt)]
        if isinstance(stmt, ast.Raise):
            return [Path(tuple(self._events_in(stmt)), "raise", stmt)]
        if isinstance(stmt, ast.Break):
            return [Path((), "break", stmt)]
        if isinstance(stmt, ast.Continue):
            return [Path((), "continue", stmt)]
        if is_sys_exit(stmt):
            return [Path(tuple(self._events_in(stmt)), "exit", stmt)]
        if isinstance(stmt, ast.If):
            head = tuple(self._events_in(stmt.test))
            if self.want_conditions:
                yes = (("cond", stmt.test, True),)
                no = (("cond", stmt.test, False),)
            else:
                yes = no = ()
            if not self._interesting(stmt.body) and not self._interesting(stmt.orelse) and not self.want_conditions:
                return [Path(head, "fall")]
            out = [Path(head + yes + p.events, p.exit, p.exit_node) for p in self.block(stmt.body)]
            out += [Path(head + no + p.events, p.exit, p.exit_node) for p in self.block(stmt.orelse)]
            return self._dedup(out)
        if isinstance(stmt, (ast.For, ast.While)):
            head = tuple(self._events_in(stmt.iter if isinstance(stmt, ast.For) else stmt.test))
            out = []
            infinite = isinstance(stmt, ast.While) and isinstance(stmt.test, ast.Constant) and stmt.test.value is True
            if not infinite:
                for p in self.block(stmt.orelse):
                    out.append(Path(head + p.events, p.exit, p.exit_node))
            if self._interesting(stmt.body) or infinite:
                for p in self.block(stmt.body):
                    if p.exit in ("break",):
                        out.append(Path(head + p.events, "fall"))
                    elif p.exit in ("continue", "fall"):
                        if infinite:
                            continue  # next iteration; exits are covered by the other paths
                        for q in self.block(stmt.orelse):
                            out.append(Path(head + p.events + q.events, q.exit, q.exit_node))
                    else:
                        out.append(Path(head + p.events, p.exit, p.exit_node))
            return self._dedup(out) or [Path(head, "fall")]
        if isinstance(stmt, ast.With):
            head = tuple(e for item in stmt.items for e in self._events_in(item.context_expr))
            return [Path(head + p.events, p.exit, p.exit_node) for p in self.block(stmt.body)]
        if isinstance(stmt, ast.Try):
            out = []
            body_paths = self.block(stmt.body)
            for p in body_paths:
                if p.exit == "fall":
                    for q in self.block(stmt.orelse):
                        out.append(Path(p.events + q.events, q.exit, q.exit_node))
                elif p.exit == "raise" and stmt.handlers:
                    # an explicit raise inside the body may be caught by a handler
                    for h in stmt.handlers:
                        for q in self.block(h.body):
                            out.append(Path(p.events + (("handler", h),) + q.events, q.exit, q.exit_node))
                    out.append(p)
                else:
                    out.append(p)
            for h in stmt.handlers:
                # an exception raised by any call inside the body: handler entered with a prefix of the body's events (empty prefix kept)
                for q in self.block(h.body):
                    out.append(Path((("handler", h),) + q.events, q.exit, q.exit_node))
            if stmt.finalbody:
                fin = self.block(stmt.finalbody)
                merged = []
                for p in out:
                    for f in fin:
                        if f.exit == "fall":
                            merged.append(Path(p.events + f.events, p.exit, p.exit_node))
                        else:
                            merged.append(Path(p.events + f.events, f.exit, f.exit_node))
                out = merged
            return self._dedup(out)
        if isinstance(stmt, (ast.FunctionDef, ast.ClassDef, ast.AsyncFunctionDef)):
            return [Path((), "fall")]
        return [Path(tuple(self._events_in(stmt)), "fall")]


def enumerate_paths(stmts: Sequence[ast.stmt], event_of: EventFn, **kw: Any) -> List[Path]:
    return PathEnumerator(event_of, **kw).block(stmts)


def calls_in(node: ast.AST) -> List[ast.Call]:
    return [n for n in ast.walk(node) if isinstance(n, ast.Call)]


def call_name(call: ast.Call) -> str:
    f = call.func
    if isinstance(f, ast.Attribute):
        return f.attr
    if isinstance(f, ast.Name):
        return f.id
    return unparse(f)

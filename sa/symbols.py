"""Symbol tables over the parsed package: classes, members, MRO, imports, constants."""

from __future__ import annotations

import ast
from dataclasses import dataclass, field
from typing import Any, Dict, Iterator, List, Optional, Tuple, Union

from .loader import AnalysisError, Module, Package, load_package, unparse


@dataclass
class FuncInfo:
    name: str
    module: str
    node: ast.FunctionDef
    cls: Optional["ClassInfo"] = None

    @property
    def qualname(self) -> str:
        return f"{self.cls.name}.{self.name}" if self.cls else self.name

    @property
    def fq(self) -> str:
        return f"{self.module}:{self.qualname}"

    def _decorators(self) -> List[str]:
        return [unparse(d) for d in self.node.decorator_list]

    @property
    def is_property(self) -> bool:
        return "property" in self._decorators()

    @property
    def is_classmethod(self) -> bool:
        return "classmethod" in self._decorators()

    @property
    def is_staticmethod(self) -> bool:
        return "staticmethod" in self._decorators()

    @property
    def params(self) -> List[ast.arg]:
        a = self.node.args
        return list(a.posonlyargs) + list(a.args) + list(a.kwonlyargs)

    @property
    def param_names(self) -> List[str]:
        return [p.arg for p in self.params]

    def param_defaults(self) -> Dict[str, ast.expr]:
        a = self.node.args
        pos = list(a.posonlyargs) + list(a.args)
        out: Dict[str, ast.expr] = {}
        for p, d in zip(pos[len(pos) - len(a.defaults) :], a.defaults):
            out[p.arg] = d
        for p, d in zip(a.kwonlyargs, a.kw_defaults):
            if d is not None:
                out[p.arg] = d
        return out

    @property
    def body(self) -> List[ast.stmt]:
        body = list(self.node.body)
        if body and isinstance(body[0], ast.Expr) and isinstance(body[0].value, ast.Constant) and isinstance(body[0].value.value, str):
            body = body[1:]
        return body

    @property
    def is_abstract(self) -> bool:
        body = self.body
        return len(body) == 1 and isinstance(body[0], ast.Raise) and "NotImplementedError" in unparse(body[0])


@dataclass
class ClassInfo:
    name: str
    module: str
    node: ast.ClassDef
    base_exprs: List[ast.expr] = field(default_factory=list)
    bases: List["ClassInfo"] = field(default_factory=list)
    methods: Dict[str, FuncInfo] = field(default_factory=dict)
    class_attrs: Dict[str, ast.AST] = field(default_factory=dict)  # name -> Assign/AnnAssign node
    external_bases: List[str] = field(default_factory=list)

    @property
    def fq(self) -> str:
        return f"{self.module}:{self.name}"

    def mangle(self, attr: str) -> str:
        if attr.startswith("__") and not attr.endswith("__"):
            return f"_{self.name.lstrip('_')}{attr}"
        return attr

    def __hash__(self) -> int:
        return hash(self.fq)

    def __eq__(self, other: object) -> bool:
        return isinstance(other, ClassInfo) and other.fq == self.fq

    def decorator_texts(self) -> List[str]:
        return [unparse(d) for d in self.node.decorator_list]

    def is_dataclass(self) -> bool:
        return any(t.startswith("dataclass") for t in self.decorator_texts())

    def is_enum(self) -> bool:
        return "Enum" in self.external_bases or any(b.is_enum() for b in self.bases)

    def is_namedtuple(self) -> bool:
        return "NamedTuple" in self.external_bases

    def dataclass_fields(self) -> List[Tuple[str, Optional[ast.expr]]]:
        out = []
        for stmt in self.node.body:
            if isinstance(stmt, ast.AnnAssign) and isinstance(stmt.target, ast.Name):
                out.append((stmt.target.id, stmt.annotation))
        return out


    def dataclass_compared_fields(self) -> List[str]:
        """Fields that take part in the generated __eq__/__hash__/ordering: all but those declared with field(compare=False)."""
        out = []
        for stmt in self.node.body:
            if isinstance(stmt, ast.AnnAssign) and isinstance(stmt.target, ast.Name):
                v = stmt.value
                if isinstance(v, ast.Call) and (getattr(v.func, "id", None) == "field" or getattr(v.func, "attr", None) == "field"):
                    if any(k.arg == "compare" and isinstance(k.value, ast.Constant) and k.value.value is False for k in v.keywords):
                        continue
                out.append(stmt.target.id)
        return out


Resolved = Tuple[str, Any]  # ('class', ClassInfo) | ('func', FuncInfo) | ('const', (Module, ast.AST)) | ('module', str) | ('external', dotted)


class Program:
    def __init__(self, package: Optional[Package] = None) -> None:
        self.package = package or load_package()
        self.classes: Dict[str, ClassInfo] = {}  # fq -> ClassInfo
        self.functions: Dict[str, FuncInfo] = {}  # fq -> FuncInfo (module-level + methods)
        self.module_names: Dict[str, Dict[str, Resolved]] = {}  # module -> local name -> resolution
        self.module_assigns: Dict[str, Dict[str, ast.AST]] = {}
        self._build()

    # ------------------------------------------------------------------ build
    def _build(self) -> None:
        for mod in self.package.modules.values():
            assigns: Dict[str, ast.AST] = {}
            for stmt in mod.tree.body:
                if isinstance(stmt, ast.ClassDef):
                    self._add_class(mod, stmt)
                elif isinstance(stmt, ast.FunctionDef):
                    fi = FuncInfo(stmt.name, mod.name, stmt)
                    self.functions[fi.fq] = fi
                elif isinstance(stmt, ast.Assign):
                    for tgt in stmt.targets:
                        if isinstance(tgt, ast.Name):
                            assigns[tgt.id] = stmt
                elif isinstance(stmt, ast.AnnAssign) and isinstance(stmt.target, ast.Name):
                    assigns[stmt.target.id] = stmt
            self.module_assigns[mod.name] = assigns
        for mod in self.package.modules.values():
            self.module_names[mod.name] = self._names_of(mod)
        for ci in self.classes.values():
            for b in ci.base_exprs:
                target = b.value if isinstance(b, ast.Subscript) else b
                res = self.resolve_expr_name(ci.module, target)
                if res and res[0] == "class":
                    ci.bases.append(res[1])
                else:
                    ci.external_bases.append(unparse(target).split(".")[-1])

    def _add_class(self, mod: Module, node: ast.ClassDef) -> None:
        ci = ClassInfo(node.name, mod.name, node, base_exprs=list(node.bases))
        for stmt in node.body:
            if isinstance(stmt, ast.FunctionDef):
                fi = FuncInfo(stmt.name, mod.name, stmt, ci)
                # property setters etc. are not used in this code base; last definition wins
                ci.methods[stmt.name] = fi
                self.functions[fi.fq] = fi
            elif isinstance(stmt, ast.Assign):
                for tgt in stmt.targets:
                    if isinstance(tgt, ast.Name):
                        ci.class_attrs[tgt.id] = stmt
            elif isinstance(stmt, ast.AnnAssign) and isinstance(stmt.target, ast.Name):
                ci.class_attrs[stmt.target.id] = stmt
        self.classes[ci.fq] = ci

    def _names_of(self, mod: Module) -> Dict[str, Resolved]:
        names: Dict[str, Resolved] = {}
        for node in ast.walk(mod.tree):
            if isinstance(node, ast.ImportFrom) and node.module is not None and node.level == 0:
                for alias in node.names:
                    local = alias.asname or alias.name
                    names[local] = self._resolve_import(node.module, alias.name)
            elif isinstance(node, ast.Import):
                for alias in node.names:
                    local = alias.asname or alias.name.split(".")[0]
                    target = alias.name if alias.asname else alias.name.split(".")[0]
                    if target in self.package.modules:
                        names[local] = ("module", target)
                    else:
                        names[local] = ("external", target)
        for fq, ci in self.classes.items():
            if ci.module == mod.name:
                names[ci.name] = ("class", ci)
        for fq, fi in self.functions.items():
            if fi.module == mod.name and fi.cls is None:
                names[fi.name] = ("func", fi)
        for name, stmt in self.module_assigns[mod.name].items():
            names.setdefault(name, ("const", (mod, stmt)))
        return names

    def _resolve_import(self, module: str, name: str, depth: int = 0) -> Resolved:
        if module in self.package.modules:
            fq = f"{module}:{name}"
            if fq in self.classes:
                return ("class", self.classes[fq])
            if fq in self.functions:
                return ("func", self.functions[fq])
            if name in self.module_assigns.get(module, {}):
                return ("const", (self.package.modules[module], self.module_assigns[module][name]))
            sub = f"{module}.{name}"
            if sub in self.package.modules:
                return ("module", sub)
            # re-export through an import in that module
            if depth < 4:
                for node in ast.walk(self.package.modules[module].tree):
                    if isinstance(node, ast.ImportFrom) and node.module:
                        for alias in node.names:
                            if (alias.asname or alias.name) == name:
                                return self._resolve_import(node.module, alias.name, depth + 1)
            return ("external", f"{module}.{name}")
        return ("external", f"{module}.{name}")

    # --------------------------------------------------------------- lookups
    def resolve_name(self, module: str, name: str) -> Optional[Resolved]:
        return self.module_names.get(module, {}).get(name)

    def resolve_expr_name(self, module: str, expr: ast.expr) -> Optional[Resolved]:
        """Resolve Name or dotted Attribute chains rooted at an imported module / class."""
        if isinstance(expr, ast.Name):
            return self.resolve_name(module, expr.id)
        if isinstance(expr, ast.Attribute):
            base = self.resolve_expr_name(module, expr.value)
            if base is None:
                return None
            kind, val = base
            if kind == "module":
                return self._resolve_import(val, expr.attr)
            if kind == "external":
                return ("external", f"{val}.{expr.attr}")
            if kind == "class":
                member = self.lookup_member(val, expr.attr)
                if member is not None:
                    return member
                return None
        return None

    def cls(self, module: str, name: str) -> ClassInfo:
        fq = f"{module}:{name}"
        if fq not in self.classes:
            raise AnalysisError(f"anchor vanished: class {name} not found in module {module}")
        return self.classes[fq]

    def func(self, module: str, qualname: str) -> FuncInfo:
        fq = f"{module}:{qualname}"
        if fq not in self.functions:
            raise AnalysisError(f"anchor vanished: function {qualname} not found in module {module}")
        return self.functions[fq]

    def maybe_func(self, module: str, qualname: str) -> Optional[FuncInfo]:
        return self.functions.get(f"{module}:{qualname}")

    def mro(self, ci: ClassInfo) -> List[ClassInfo]:
        out: List[ClassInfo] = []

        def visit(c: ClassInfo) -> None:
            if c in out:
                return
            out.append(c)
            for b in c.bases:
                visit(b)

        visit(ci)
        return out

    def lookup_member(self, ci: ClassInfo, name: str) -> Optional[Resolved]:
        for c in self.mro(ci):
            if name in c.methods:
                return ("func", c.methods[name])
            if name in c.class_attrs:
                return ("classattr", (c, c.class_attrs[name]))
        return None

    def lookup_method(self, ci: ClassInfo, name: str) -> Optional[FuncInfo]:
        for c in self.mro(ci):
            if name in c.methods:
                return c.methods[name]
        return None

    def subclasses(self, ci: ClassInfo, strict: bool = False) -> List[ClassInfo]:
        out = []
        for c in self.classes.values():
            if ci in self.mro(c) and not (strict and c == ci):
                out.append(c)
        return sorted(out, key=lambda c: c.fq)

    def is_subclass(self, c: ClassInfo, base: ClassInfo) -> bool:
        return base in self.mro(c)

    def classes_named(self, name: str) -> List[ClassInfo]:
        return [c for c in self.classes.values() if c.name == name]

    def modules_under(self, prefix: str) -> List[Module]:
        return [m for n, m in sorted(self.package.modules.items()) if n.startswith(prefix + ".") and not n.endswith("__init__")]

    def iter_functions(self) -> Iterator[FuncInfo]:
        for fq in sorted(self.functions):
            yield self.functions[fq]


_PROGRAM: Dict[str, Program] = {}


def program() -> Program:
    pkg = load_package()
    key = str(pkg.root)
    if key not in _PROGRAM:
        _PROGRAM[key] = Program(pkg)
    return _PROGRAM[key]

"""Static readers for the data artefacts shipped inside the package: ODS templates, locale directories, template links."""

from __future__ import annotations

import xml.etree.ElementTree as ET
import zipfile
from functools import lru_cache
from pathlib import Path
from typing import Dict, List, Optional, Tuple

from .loader import AnalysisError, load_package

T = "urn:oasis:names:tc:opendocument:xmlns:table:1.0"
X = "urn:oasis:names:tc:opendocument:xmlns:text:1.0"


def data_dir() -> Path:
    return load_package().src_dir / "rp2" / "plugin" / "report" / "data"


def locales_dir() -> Path:
    return load_package().src_dir / "rp2" / "locales"


@lru_cache(maxsize=64)
def ods_sheets(path: str, max_rows: int = 60, max_cols: int = 40) -> Dict[str, List[List[str]]]:
    """{sheet name: rows of cell texts} of an ODS file, read from content.xml (repeats expanded up to the given bounds)."""
    p = Path(path)
    if not p.exists():
        raise AnalysisError(f"template {p} does not exist")
    try:
        with zipfile.ZipFile(p) as z:
            root = ET.fromstring(z.read("content.xml"))
    except (zipfile.BadZipFile, KeyError, ET.ParseError) as exc:
        raise AnalysisError(f"template {p} is not a readable ODS file: {exc}") from exc
    out: Dict[str, List[List[str]]] = {}
    for table in root.iter(f"{{{T}}}table"):
        name = table.get(f"{{{T}}}name") or ""
        rows: List[List[str]] = []
        for r in table.iter(f"{{{T}}}table-row"):
            rep = int(r.get(f"{{{T}}}number-rows-repeated", "1"))
            cells: List[str] = []
            for c in r:
                if not (c.tag.endswith("}table-cell") or c.tag.endswith("}covered-table-cell")):
                    continue
                crep = int(c.get(f"{{{T}}}number-columns-repeated", "1"))
                txt = " ".join("".join(par.itertext()) for par in c.iter(f"{{{X}}}p")).strip()
                for _ in range(min(crep, max_cols - len(cells))):
                    cells.append(txt)
                if len(cells) >= max_cols:
                    break
            for _ in range(min(rep, max_rows - len(rows))):
                rows.append(list(cells))
            if len(rows) >= max_rows:
                break
        out[name] = rows
    return out


def sheet_names(path: str) -> List[str]:
    return list(ods_sheets(path).keys())


def first_empty_row(rows: List[List[str]]) -> int:
    """Index of the first row, below the last non-empty row of the leading header block, in which every cell is empty."""
    last = -1
    for i, r in enumerate(rows):
        if any(c for c in r):
            last = i
        elif last >= 0 and i > last + 0:
            # first fully empty row after some content: header block ended unless content resumes within it
            if not any(any(c for c in rr) for rr in rows[i : i + 1]):
                # look ahead: is there more content later (multi-block headers)?
                later = [j for j in range(i, len(rows)) if any(c for c in rows[j])]
                if not later:
                    return i
    return last + 1


def template_path(template_name: str, country_iso: Optional[str], language: str) -> Tuple[Optional[Path], str]:
    """Mirror of AbstractODSGenerator._get_template_path on paths only: (resolved .ods path or None, explanation)."""
    base = data_dir()
    country_part = f"{country_iso}/" if country_iso else ""
    suffix = f"_{language}" if country_iso else ""
    stem = base / f"{country_part}template_{template_name}{suffix}"
    ods = Path(f"{stem}.ods")
    if ods.exists():
        return ods, "direct"
    txt = Path(f"{stem}.txt")
    if txt.exists():
        contents = txt.read_text(encoding="utf-8").strip()
        if not contents or not contents.endswith(".ods"):
            return None, f"link {txt.name} does not contain a path ending in .ods"
        target = base / contents
        if target.exists():
            return target, f"link -> {contents}"
        return None, f"link {txt.name} points to missing {contents}"
    return None, f"{ods.name} (or .txt link) does not exist"


def languages_shipped(country_iso: str) -> List[str]:
    """Languages for which the country's data directory ships any template (.ods or .txt)."""
    d = data_dir() / country_iso
    langs = set()
    if d.is_dir():
        for f in d.iterdir():
            if f.name.startswith("template_") and f.suffix in (".ods", ".txt"):
                stem = f.stem[len("template_") :]
                # template_<name>_<lang>: language = trailing part; names are known generator names
                for gen in ("rp2_full_report", "open_positions", f"tax_report_{country_iso}"):
                    if stem.startswith(gen + "_"):
                        langs.add(stem[len(gen) + 1 :])
    return sorted(langs)


def locale_available(language: str) -> bool:
    return (locales_dir() / language / "LC_MESSAGES" / "messages.mo").exists()

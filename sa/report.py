"""Obligation bookkeeping, known-findings matching, evidence and exit codes."""

from __future__ import annotations

import json
import os
import time
from dataclasses import dataclass, field
from pathlib import Path
from typing import Any, Dict, List, Optional

from .loader import load_package

VERIF = Path(__file__).resolve().parent.parent
KNOWN_FINDINGS = VERIF / "known_findings.json"


@dataclass
class Finding:
    rule: str
    module: str
    qualname: str
    construct: str
    message: str
    where: str = ""
    extra: Dict[str, Any] = field(default_factory=dict)

    def key(self, pid: str) -> tuple:
        return (pid, self.rule, self.module, self.qualname, self.construct)


@dataclass
class RuleStats:
    description: str
    floor: int = 1
    instances: int = 0
    discharged: int = 0
    violated: int = 0
    known: int = 0
    samples: List[str] = field(default_factory=list)


class Report:
    def __init__(self, pid: str, tier: str = "quick") -> None:
        self.pid = pid
        self.tier = tier
        self.t0 = time.time()
        self.rules: Dict[str, RuleStats] = {}
        self.findings: List[Finding] = []
        self.notes: List[str] = []
        self.functions: set = set()
        self.modules: set = set()
        self.assumptions: List[str] = []
        self.explanation: str = ""
        self.not_decided: str = ""
        self.distinct: set = set()
        self.extra: Dict[str, Any] = {}
        self.deferred_errors: List[str] = []
        self.follows: set = set()
        self.definite_rules: set = set()

    # ----------------------------------------------------------- recording
    def rule(self, rule_id: str, description: str, floor: int = 1, follows_calls: bool = False, definite: bool = False) -> str:
        """follows_calls: the rule interprets the functions its anchor calls (norm / symexec inlining), so a helper introduced by a refactoring is looked into;
        for the other rules a finding in a function that newly delegates to a helper is withheld (see sa/delegation.py)."""
        if rule_id not in self.rules:
            self.rules[rule_id] = RuleStats(description, floor)
        if follows_calls:
            self.follows.add(rule_id)
        if definite:
            self.definite_rules.add(rule_id)  # every finding of this rule names a construct that is positively wrong (a forbidden import, a new writer, stored state)
        return rule_id

    def _touch(self, rule: str) -> RuleStats:
        if rule not in self.rules:
            self.rules[rule] = RuleStats(rule)
        return self.rules[rule]

    def ok(self, rule: str, construct: str, detail: str = "") -> None:
        st = self._touch(rule)
        st.instances += 1
        st.discharged += 1
        self.distinct.add((rule, construct))
        if os.environ.get("VERIF_VERBOSE"):
            print(f"    ok {rule}: {construct} :: {detail}")
        if len(st.samples) < 4:
            st.samples.append(f"{construct}{' :: ' + detail if detail else ''}"[:400])

    def violation(self, rule: str, module: str, qualname: str, construct: str, message: str, where: str = "", **extra: Any) -> None:
        st = self._touch(rule)
        st.instances += 1
        st.violated += 1
        self.distinct.add((rule, construct))
        if rule in self.definite_rules:
            extra = dict(extra, definite=True)
        if rule in self.follows and "follows" not in extra:
            extra = dict(extra, follows=True)  # travels with the finding when another report restates (absorbs) it
        self.findings.append(Finding(rule, module, qualname, construct, message, where, extra))

    def check(self, cond: bool, rule: str, module: str, qualname: str, construct: str, message: str, where: str = "", detail: str = "", definite: bool = False, reads_shape: bool = False, also: tuple = ()) -> bool:
        """definite: a failing instance names a construct that is positively wrong (not an expected construct that was not found), see sa/delegation.py.
        also: further (module, qualname) pairs whose statements the instance was derived from (the finding is withheld when any of them changed shape)."""
        if cond:
            self.ok(rule, construct, detail)
        elif also:
            self.violation(rule, module, qualname, construct, message, where, also=[list(a) for a in also], **({"follows": False} if reads_shape else {}))
        elif definite:
            self.violation(rule, module, qualname, construct, message, where, definite=True)
        elif reads_shape:
            self.violation(rule, module, qualname, construct, message, where, follows=False)  # this instance reads the anchor's own statements, whatever the rule's default
        else:
            self.violation(rule, module, qualname, construct, message, where)
        return cond

    def note(self, text: str) -> None:
        self.notes.append(text)

    def absorb(self, sub: "Report", rule: str, only_rules: tuple, what: str) -> None:
        """Re-state, under ``rule`` of this report, the obligations of another property's rules that this property also rests on."""
        n_ok = sum(st.discharged for rid, st in sub.rules.items() if rid in only_rules)
        for f in sub.findings:
            if f.rule in only_rules:
                self.violation(rule, f.module, f.qualname, f"[{f.rule}] {f.construct}", f.message, f.where, **{k: v for k, v in f.extra.items() if k in ("definite", "follows", "also")})
        if n_ok:
            st = self._touch(rule)
            st.instances += n_ok
            st.discharged += n_ok
            self.distinct.add((rule, what))
            if len(st.samples) < 4:
                st.samples.append(f"{what}: {n_ok} obligations of {', '.join(only_rules)} discharged")
        self.functions |= sub.functions
        self.modules |= sub.modules
        self.deferred_errors.extend(sub.deferred_errors)

    def defer_error(self, text: str) -> None:
        """An idiom one rule could not interpret: the run ends as ANALYSIS-ERROR (exit 2) unless another rule located a violation."""
        if text not in self.deferred_errors:
            self.deferred_errors.append(text)

    def analysed(self, *funcs: Any) -> None:
        for f in funcs:
            if f is None:
                continue
            self.functions.add(getattr(f, "fq", str(f)))
            mod = getattr(f, "module", None)
            if mod:
                self.modules.add(mod)

    # -------------------------------------------------------------- finish
    def _known(self) -> Dict[tuple, Dict[str, Any]]:
        if not KNOWN_FINDINGS.exists():
            return {}
        data = json.loads(KNOWN_FINDINGS.read_text())
        out = {}
        for f in data.get("findings", []):
            out[(f["property"], f["rule"], f["module"], f["qualname"], f["construct"])] = f
        return out

    def finish(self) -> int:
        known = self._known()
        new: List[Finding] = []
        matched: List[Dict[str, Any]] = []
        for f in self.findings:
            k = f.key(self.pid)
            if k in known:
                matched.append(known[k])
                self.rules[f.rule].known += 1
            else:
                new.append(f)
        # a finding located in a function that now delegates to a helper no rule looked into is withheld (sa/delegation.py): not decided, never an alarm
        from . import delegation

        withheld: List[Finding] = []
        if new and not os.environ.get("VERIF_NO_DELEGATION"):
            try:
                from .rp2model import model

                touched = set(model().norm.touched)
            except Exception:  # the model could not be built: nothing was interpreted
                touched = set()
            kept = []
            for f in new:
                if f.extra.get("definite"):
                    kept.append(f)  # a positively wrong construct was identified: where other code moved to does not matter
                    continue
                follows = bool(f.extra.get("follows", f.rule in self.follows))
                helpers = delegation.shape_changes(load_package(), f.module, f.qualname, touched if follows else set(), only_helpers=follows)
                for am, aq in f.extra.get("also", []):
                    helpers = helpers + [f"{aq}: {h}" for h in delegation.shape_changes(load_package(), am, aq, touched if follows else set(), only_helpers=follows)]
                if helpers:
                    withheld.append(f)
                    self.defer_error(f"{f.where or f.module}: rule {f.rule} expected its construct in {f.qualname}, which changed shape ({'; '.join(helpers[:3])}): not decided for this shape [{f.message[:160]}]")
                    self.rules[f.rule].violated -= 1
                else:
                    kept.append(f)
            new = kept
        self.extra["withheld_for_delegation"] = [{"rule": f.rule, "module": f.module, "qualname": f.qualname, "construct": f.construct} for f in withheld]
        vacuous = [(rid, st) for rid, st in self.rules.items() if st.instances < st.floor]

        print(f"== {self.pid} ({self.tier}) static obligations on {load_package().root}")
        for rid in sorted(self.rules):
            st = self.rules[rid]
            print(f"  {rid:<10} instances={st.instances:<4} discharged={st.discharged:<4} violated={st.violated:<3} known={st.known:<3} floor={st.floor:<3} {st.description}")
        for n in self.notes:
            print(f"  NOTE: {n}")
        seen_known = set()
        for m in matched:
            ident = (m["rule"], m["module"], m["qualname"], m["construct"])
            if ident in seen_known:
                continue
            seen_known.add(ident)
            print(f"KNOWN-FINDING: property={self.pid} {m.get('id', '')} {m['rule']} {m['module']}:{m['qualname']} — {m.get('what', '')}")

        obligations = sum(st.instances for st in self.rules.values())
        discharged = sum(st.discharged for st in self.rules.values())
        wall = time.time() - self.t0
        replay_path = Path(os.environ.get("VERIF_EVIDENCE_DIR", VERIF / "reports")) / f"{self.pid}.replay.json" if os.environ.get("VERIF_EVIDENCE_DIR") else VERIF / "reports" / f"{self.pid}.json"
        code = 0
        if self.deferred_errors:
            for d in self.deferred_errors:
                print(f"ANALYSIS-ERROR: {self.pid}: {d}")
            code = 2
        if vacuous:
            for rid, st in vacuous:
                print(f"ANALYSIS-ERROR: rule {rid} matched {st.instances} instance(s), below the floor {st.floor} confirmed by hand: {st.description}")
            code = 2
        if new:
            replay_path.parent.mkdir(parents=True, exist_ok=True)
            replay_path.write_text(
                json.dumps(
                    {
                        "property": self.pid,
                        "repo": str(load_package().root),
                        "violations": [
                            {"rule": f.rule, "module": f.module, "qualname": f.qualname, "construct": f.construct, "message": f.message, "where": f.where, **{k: v for k, v in f.extra.items() if k not in ("definite", "follows")}}
                            for f in new
                        ],
                    },
                    indent=1,
                )
            )
            for f in new:
                print(f"  VIOLATED {f.rule} at {f.where or f.module} in {f.qualname}: {f.message}\n           construct: {f.construct}")
            print(f"VIOLATION property={self.pid} replay={replay_path}")
            code = 1
        self._write_evidence(obligations, discharged, len(new), matched, wall)
        if code == 0:
            print(f"OK {self.pid}: {discharged}/{obligations} obligations discharged, {len(matched)} known finding(s), {wall:.2f}s")
        return code

    def _write_evidence(self, obligations: int, discharged: int, violations: int, matched: List[Dict[str, Any]], wall: float) -> None:
        pkg = load_package()
        samples: List[Any] = []
        for rid in sorted(self.rules):
            for s in self.rules[rid].samples[:2]:
                samples.append({"rule": rid, "obligation": s})
        evidence = {
            "property_id": self.pid,
            "tier": self.tier if self.tier in ("quick", "thorough") else "quick",
            "seed": int(os.environ.get("VERIF_SEED", "0") or 0),
            "level": "other",
            "coverage": {
                "explanation": self.explanation,
                "not_decided": self.not_decided,
                "obligations": obligations,
                "discharged": discharged,
                "evaluations": obligations,
                "distinct_nontrivial": len(self.distinct),
                "rule": "one evaluation = one rule instance (obligation) examined on the current source; distinct = distinct (rule, construct) pairs; "
                "a rule that matches fewer instances than its hand-confirmed floor fails the run (exit 2)",
                "rule_instances": {
                    rid: {"description": st.description, "instances": st.instances, "discharged": st.discharged, "violated": st.violated, "known": st.known, "floor": st.floor}
                    for rid, st in sorted(self.rules.items())
                },
                "functions_analysed": sorted(self.functions),
                "modules": sorted(self.modules),
                "modules_parsed": len(pkg.modules),
                "source_digest": pkg.digest(),
                "known_findings_matched": [m.get("id", m["construct"]) for m in matched],
                "notes": self.notes,
                "samples": samples[:40] or [{"rule": "-", "obligation": "none"}],
                "exhaustive": False,
                **self.extra,
            },
            "assumptions": self.assumptions,
            "wall_s": round(wall, 3),
            "violations": violations,
        }
        out = Path(os.environ.get("VERIF_EVIDENCE_DIR", VERIF / "evidence"))
        out.mkdir(parents=True, exist_ok=True)
        (out / f"{self.pid}.json").write_text(json.dumps(evidence, indent=1, default=str))

"""Spelling-level canonical forms applied to every module right after parsing (before any rule looks at it).

Each rewrite replaces a construct by one that Python evaluates to the same value for every operand, so a rule that reads the canonical spelling gives the
same verdict for both spellings (benign-edit robustness; see DESIGN 10.3d):

  X if not C else Y            ->  Y if C else X        (and  X if a != b else Y  ->  Y if a == b else X;  same for `is not`, `not in`:
                                                        the test of a conditional expression is never a negation)
  not (a == b) / (a != b)      ->  a != b / a == b      (also `is`, `in`; single-operator comparisons only; the default __ne__ is the negation of __eq__,
                                                        and no class of the package defines __ne__ -- checked, otherwise the rewrite is skipped for the module set)
  not (A and B) / not (A or B) ->  not A or not B / not A and not B   (De Morgan, only when A and B are such comparisons or negations themselves)
  a < b <= c                   ->  a < b and b <= c     (when the shared operand is a name, attribute chain or constant: evaluated twice = once)
  if c: A else: B              ->  if c: A ; B          (when exactly one branch ends in return/raise/continue/break: guard-clause form, the
                                                        terminating branch first, test negated if needed; elif chains are left alone)
  0 < x ;  "general" == name   ->  x > 0 ;  name == "general"   (single ordering / equality test whose left operand only is constant-like)
  else: (if t: raise) ; B      ->  elif not t: B  else: raise   (a guard clause that opens the else block of an elif arm is the last arm of the chain)
  d[k] if k in d else z        ->  d.get(k, z)          (d a name or attribute chain, k without calls)
  dict.fromkeys(xs, <const>)   ->  {k: <const> for k in xs}
  dict() / list() / tuple()    ->  {} / [] / ()         (no arguments; only when the builtin name is not rebound in the module)

Line numbers of the rewritten nodes are those of the original construct, so reports still point at the source.
"""

from __future__ import annotations

import ast
from typing import Set

_NEG = {ast.Eq: ast.NotEq, ast.NotEq: ast.Eq, ast.Is: ast.IsNot, ast.IsNot: ast.Is, ast.In: ast.NotIn, ast.NotIn: ast.In}
_EMPTY = {"dict": lambda: ast.Dict(keys=[], values=[]), "list": lambda: ast.List(elts=[], ctx=ast.Load()), "tuple": lambda: ast.Tuple(elts=[], ctx=ast.Load())}


def _rebound(tree: ast.AST) -> Set[str]:
    out: Set[str] = set()
    for n in ast.walk(tree):
        if isinstance(n, ast.Name) and isinstance(n.ctx, (ast.Store, ast.Del)):
            out.add(n.id)
        elif isinstance(n, (ast.FunctionDef, ast.AsyncFunctionDef, ast.ClassDef)):
            out.add(n.name)
        elif isinstance(n, ast.arg):
            out.add(n.arg)
        elif isinstance(n, (ast.Import, ast.ImportFrom)):
            for a in n.names:
                out.add((a.asname or a.name).split(".")[0])
    return out


def defines_ne(tree: ast.AST) -> bool:
    return any(isinstance(n, ast.FunctionDef) and n.name == "__ne__" for n in ast.walk(tree))


_MIRROR = {ast.Lt: ast.Gt, ast.Gt: ast.Lt, ast.LtE: ast.GtE, ast.GtE: ast.LtE, ast.Eq: ast.Eq, ast.NotEq: ast.NotEq}


def _constant_like(e: ast.expr) -> bool:
    """A literal, a signed literal, an ALL_CAPS name (ZERO, MAX_DATE) or an attribute chain rooted in a capitalised name (Keyword.GENERAL.value, EntrySetType.IN)."""
    if isinstance(e, ast.Constant):
        return True
    if isinstance(e, ast.UnaryOp) and isinstance(e.op, (ast.USub, ast.UAdd)):
        return isinstance(e.operand, ast.Constant)
    if isinstance(e, ast.Name):
        return e.id.isupper()
    if isinstance(e, ast.Attribute):
        root = e
        while isinstance(root, ast.Attribute):
            root = root.value
        return isinstance(root, ast.Name) and root.id[:1].isupper() and root.id not in ("self", "cls")
    return False


def _simple(e: ast.expr) -> bool:
    """Evaluating it twice is the same as evaluating it once (no call, no subscript)."""
    return isinstance(e, (ast.Name, ast.Constant)) or (isinstance(e, ast.Attribute) and _simple(e.value))


class _Canon(ast.NodeTransformer):
    def __init__(self, rebound: Set[str], negate_cmp: bool) -> None:
        self.rebound = rebound
        self.negate_cmp = negate_cmp

    def visit_IfExp(self, node: ast.IfExp) -> ast.AST:
        self.generic_visit(node)
        while isinstance(node.test, ast.UnaryOp) and isinstance(node.test.op, ast.Not):
            node = ast.copy_location(ast.IfExp(test=node.test.operand, body=node.orelse, orelse=node.body), node)
        t = node.test
        if isinstance(t, ast.Compare) and len(t.ops) == 1 and isinstance(t.ops[0], (ast.NotEq, ast.IsNot, ast.NotIn)) and (self.negate_cmp or not isinstance(t.ops[0], ast.NotEq)):
            pos = ast.copy_location(ast.Compare(left=t.left, ops=[_NEG[type(t.ops[0])]()], comparators=t.comparators), t)
            node = ast.copy_location(ast.IfExp(test=pos, body=node.orelse, orelse=node.body), node)
        # d[k] if k in d else z  ->  d.get(k, z)   (d a name / attribute chain, k without calls: evaluating them twice is evaluating them once)
        t = node.test
        if isinstance(t, ast.Compare) and len(t.ops) == 1 and isinstance(t.ops[0], ast.In) and isinstance(node.body, ast.Subscript) and _simple(t.comparators[0]) and not any(isinstance(x, ast.Call) for x in ast.walk(t.left)):
            if ast.dump(node.body.value) == ast.dump(t.comparators[0]) and ast.dump(node.body.slice) == ast.dump(t.left):
                get = ast.Attribute(value=t.comparators[0], attr="get", ctx=ast.Load())
                return ast.fix_missing_locations(ast.copy_location(ast.Call(func=ast.copy_location(get, node), args=[t.left, node.orelse], keywords=[]), node))
        return node

    def _negatable(self, v: ast.expr) -> bool:
        if isinstance(v, ast.UnaryOp) and isinstance(v.op, ast.Not):
            return True
        return isinstance(v, ast.Compare) and len(v.ops) == 1 and type(v.ops[0]) in _NEG and (self.negate_cmp or not isinstance(v.ops[0], (ast.Eq, ast.NotEq)))

    def _negate(self, v: ast.expr) -> ast.expr:
        if isinstance(v, ast.UnaryOp) and isinstance(v.op, ast.Not):
            return v.operand
        return ast.copy_location(ast.Compare(left=v.left, ops=[_NEG[type(v.ops[0])]()], comparators=v.comparators), v)

    def visit_UnaryOp(self, node: ast.UnaryOp) -> ast.AST:
        self.generic_visit(node)
        if isinstance(node.op, ast.Not):
            inner = node.operand
            if isinstance(inner, ast.UnaryOp) and isinstance(inner.op, ast.Not) and isinstance(inner.operand, ast.Compare):
                return inner.operand  # not not <comparison>: a comparison already yields a bool
            if isinstance(inner, ast.BoolOp) and all(self._negatable(v) for v in inner.values):
                # De Morgan, only when every operand has a direct negation (comparisons with ==, is, in and their opposites; not X): negations sit on the atoms
                flipped = ast.Or() if isinstance(inner.op, ast.And) else ast.And()
                return ast.copy_location(ast.BoolOp(op=flipped, values=[self._negate(v) for v in inner.values]), node)
            if isinstance(inner, ast.Compare) and len(inner.ops) == 1 and type(inner.ops[0]) in _NEG:
                if self.negate_cmp or not isinstance(inner.ops[0], (ast.Eq, ast.NotEq)):
                    return ast.copy_location(ast.Compare(left=inner.left, ops=[_NEG[type(inner.ops[0])]()], comparators=inner.comparators), node)
        return node

    def visit_Compare(self, node: ast.Compare) -> ast.AST:
        self.generic_visit(node)
        if len(node.ops) > 1 and all(_simple(c) for c in node.comparators[:-1]):
            parts, left = [], node.left
            for op, right in zip(node.ops, node.comparators):
                parts.append(ast.copy_location(ast.Compare(left=left, ops=[op], comparators=[right]), node))
                left = right
            return ast.copy_location(ast.BoolOp(op=ast.And(), values=parts), node)
        if len(node.ops) == 1 and type(node.ops[0]) in _MIRROR and _constant_like(node.left) and not _constant_like(node.comparators[0]):
            # the constant operand of an ordering / equality test is written on the right:  0 < x  ->  x > 0,  "general" == name  ->  name == "general"
            return ast.copy_location(ast.Compare(left=node.comparators[0], ops=[_MIRROR[type(node.ops[0])]()], comparators=[node.left]), node)
        return node

    def visit_Call(self, node: ast.Call) -> ast.AST:
        self.generic_visit(node)
        if isinstance(node.func, ast.Name) and node.func.id in _EMPTY and not node.args and not node.keywords and node.func.id not in self.rebound:
            return ast.copy_location(_EMPTY[node.func.id](), node)
        # dict.fromkeys(xs, <constant>)  ->  {k: <constant> for k in xs}
        if isinstance(node.func, ast.Attribute) and node.func.attr == "fromkeys" and isinstance(node.func.value, ast.Name) and node.func.value.id == "dict" and "dict" not in self.rebound and len(node.args) == 2 and not node.keywords and isinstance(node.args[1], ast.Constant):
            k = ast.Name(id="_k", ctx=ast.Store())
            comp = ast.DictComp(key=ast.Name(id="_k", ctx=ast.Load()), value=node.args[1], generators=[ast.comprehension(target=k, iter=node.args[0], ifs=[], is_async=0)])
            return ast.fix_missing_locations(ast.copy_location(comp, node))
        return node


_TERM = (ast.Return, ast.Raise, ast.Continue, ast.Break)


def _terminates(block) -> bool:
    return bool(block) and isinstance(block[-1], _TERM)


def _negated(test: ast.expr) -> ast.expr:
    if isinstance(test, ast.UnaryOp) and isinstance(test.op, ast.Not):
        return test.operand
    if isinstance(test, ast.Compare) and len(test.ops) == 1 and type(test.ops[0]) in _NEG:
        return ast.copy_location(ast.Compare(left=test.left, ops=[_NEG[type(test.ops[0])]()], comparators=test.comparators), test)
    return ast.copy_location(ast.UnaryOp(op=ast.Not(), operand=test), test)


def _guard_clauses(tree: ast.AST) -> None:
    """`if c: A else: B` where exactly one branch ends in return / raise / continue / break is written as the guard clause
    `if <c or not c>: <terminating branch>` followed by the other branch (plain if/else only, no elif chain)."""
    changed = False
    in_chain = {id(p.orelse[0]) for p in ast.walk(tree) if isinstance(p, ast.If) and len(p.orelse) == 1 and isinstance(p.orelse[0], ast.If)}
    for node in list(ast.walk(tree)):
        # the last arm of a chain written as a guard clause inside the else block is the elif/else spelling:
        #   else: (if t: <terminates>) ; B...   ->   elif not t: B...  else: <terminates>
        # (only for an arm of an elif chain: the two branches of a plain if/else may be written in either order, which sa/alpha.py settles later)
        if isinstance(node, ast.If) and id(node) in in_chain and len(node.orelse) >= 2 and isinstance(node.orelse[0], ast.If) and not node.orelse[0].orelse and _terminates(node.orelse[0].body):
            g = node.orelse[0]
            arm = ast.copy_location(ast.If(test=_negated(g.test), body=node.orelse[1:], orelse=g.body), g)
            node.orelse = [arm]
            changed = True
    for node in list(ast.walk(tree)):
        for fname in ("body", "orelse", "finalbody"):
            block = getattr(node, fname, None)
            if not (isinstance(block, list) and block and isinstance(block[0], ast.stmt)):
                continue
            if fname == "orelse" and isinstance(node, ast.If) and len(block) == 1 and isinstance(block[0], ast.If):
                continue  # elif chain: left alone
            out = []
            for st in block:
                if isinstance(st, ast.If) and st.orelse and not (len(st.orelse) == 1 and isinstance(st.orelse[0], ast.If)) and _terminates(st.body) != _terminates(st.orelse):
                    if _terminates(st.orelse):
                        st.test, st.body, st.orelse = _negated(st.test), st.orelse, st.body
                    rest, st.orelse = st.orelse, []
                    out.append(st)
                    out.extend(rest)
                    changed = True
                else:
                    out.append(st)
            setattr(node, fname, out)
    if changed:
        _guard_clauses(tree)  # statements moved out of an else are visited on the next pass


# --------------------------------------------------------------------------- argument passing style
def unparse_name(e: ast.AST) -> str:
    try:
        return ast.unparse(e)
    except Exception:  # pragma: no cover
        return ""


def signature_table(trees) -> dict:
    """What a call can be bound against without type information: {'class': {name: params}, 'func': {name: params}, 'method': {name: params}} where a name is
    listed only when every definition of it in the package has the same parameter names (so the binding does not depend on dispatch)."""
    classes, funcs, methods, own = {}, {}, {}, {}

    def params(fn: ast.FunctionDef, drop_first: bool):
        a = fn.args
        if a.vararg or a.posonlyargs:
            return None
        names = [x.arg for x in a.args]
        return tuple(names[1:] if drop_first and names else names)

    for tree in trees:
        for st in tree.body:
            if isinstance(st, ast.FunctionDef):
                funcs.setdefault(st.name, set()).add(params(st, False))
        for c in ast.walk(tree):
            if isinstance(c, ast.ClassDef):
                init = [f for f in c.body if isinstance(f, ast.FunctionDef) and f.name == "__init__"]
                record = any(unparse_name(b) in ("NamedTuple", "typing.NamedTuple") for b in c.bases) or any(unparse_name(d.func if isinstance(d, ast.Call) else d) in ("dataclass", "dataclasses.dataclass") for d in c.decorator_list)
                if not init and record:
                    # a NamedTuple / dataclass is constructed with its annotated fields, in order
                    classes.setdefault(c.name, set()).add(tuple(st.target.id for st in c.body if isinstance(st, ast.AnnAssign) and isinstance(st.target, ast.Name)))
                    continue_methods = True
                else:
                    classes.setdefault(c.name, set()).add(params(init[0], True) if len(init) == 1 else None)
                for f in c.body:
                    if isinstance(f, ast.FunctionDef) and f.name != "__init__":
                        static = any(isinstance(d, ast.Name) and d.id == "staticmethod" for d in f.decorator_list)
                        methods.setdefault(f.name, set()).add(params(f, not static))
                        own.setdefault((c.name, f.name), set()).add(params(f, not static))
    pick = lambda d: {k: next(iter(v)) for k, v in d.items() if len(v) == 1 and next(iter(v)) is not None}  # noqa: E731
    return {"class": pick(classes), "func": pick(funcs), "method": pick(methods), "own": pick(own)}


class _ArgStyle(ast.NodeVisitor):
    """A keyword argument that names the very next positional parameter is written positionally (f(a, b=x) -> f(a, x) when b is the second parameter)."""

    def __init__(self, sigs: dict, rebound: Set[str]) -> None:
        self.sigs, self.rebound = sigs, rebound
        self.cls: list = []

    def visit_ClassDef(self, node: ast.ClassDef) -> None:
        self.cls.append(node.name)
        self.generic_visit(node)
        self.cls.pop()

    def visit_Call(self, node: ast.Call) -> None:
        self.generic_visit(node)
        if any(isinstance(a, ast.Starred) for a in node.args) or any(k.arg is None for k in node.keywords) or not node.keywords:
            return
        f, ps = node.func, None
        if isinstance(f, ast.Name) and f.id not in self.rebound - set(self.sigs["func"]) - set(self.sigs["class"]):
            ps = self.sigs["class"].get(f.id) or self.sigs["func"].get(f.id)
        elif isinstance(f, ast.Attribute):
            recv = f.value
            on_self = isinstance(recv, ast.Name) and recv.id in ("self", "cls")
            if on_self and self.cls and (self.cls[-1], f.attr) in self.sigs["own"]:
                ps = self.sigs["own"][(self.cls[-1], f.attr)]  # the enclosing class's own method (always the target for a private name)
            elif f.attr in self.sigs["method"] and not f.attr.startswith("__") and (on_self or (isinstance(recv, ast.Name) and recv.id in self.sigs["class"]) or (isinstance(recv, ast.Call) and isinstance(recv.func, ast.Name) and recv.func.id == "super")):
                ps = self.sigs["method"][f.attr]
        if not ps:
            return
        kws = {k.arg: k for k in node.keywords}
        while len(node.args) < len(ps) and ps[len(node.args)] in kws:
            k = kws.pop(ps[len(node.args)])
            node.args.append(k.value)
            node.keywords.remove(k)


def canonicalise(tree: ast.Module, negate_cmp: bool = True, sigs: dict = None) -> ast.Module:
    out = _Canon(_rebound(tree), negate_cmp).visit(tree)
    _guard_clauses(out)
    if sigs is not None:
        _ArgStyle(sigs, _rebound(tree)).visit(out)
    ast.fix_missing_locations(out)
    return out

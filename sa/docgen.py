"""Regenerates the generated appendix of DESIGN.md (rule inventory, seeded-change detection matrix, self-test totals):

    python -m sa.docgen

Reads evidence/*.json (written by the checks), seeded/*/meta.json (written by seeded/collect.py) and selftest/results.json.
"""

from __future__ import annotations

import json
from pathlib import Path

VERIF = Path(__file__).resolve().parent.parent
BEGIN, END = "<!-- BEGIN GENERATED (python -m sa.docgen) -->", "<!-- END GENERATED -->"


def rule_inventory() -> str:
    out = ["### A.1 Rule inventory on the current tree (from evidence/*.json)", "", "| rule | instances | floor | what it decides |", "|---|---|---|---|"]
    total = 0
    for f in sorted((VERIF / "evidence").glob("C*.json")):
        ev = json.loads(f.read_text())
        for rid, r in sorted(ev["coverage"]["rule_instances"].items()):
            out.append(f"| {rid} | {r['instances']} | {r['floor']} | {r['description']} |")
            total += r["instances"]
    out.append("")
    out.append(f"Total obligations examined on the unchanged tree: {total}.")
    return "\n".join(out)


def detection_matrix() -> str:
    out = ["### A.2 Seeded changes (fresh sub-agents, property text only) and what reports them", "",
           "`own` = the check of the property the change was written against exits 1; `others` = further checks that exit 1 on the same change. "
           "Every change below was confirmed by me: patch applies, the 48 stable tests pass with it, its demonstration fails with it and passes without it.", "",
           "| seed | breaks | change (one line) | own check: rules | others |", "|---|---|---|---|---|"]
    n = own = anyc = 0
    for d in sorted((VERIF / "seeded").iterdir()):
        mf = d / "meta.json"
        if not mf.exists():
            continue
        m = json.loads(mf.read_text())
        det = m.get("detection", {})
        pid = m["property"]
        fired = det.get("fired", [])
        rules = ", ".join(det.get("rules", {}).get(pid, [])) if pid in fired else "—"
        others = ", ".join(x for x in fired if x != pid) or "—"
        line = ""
        for l in m.get("needs_to_manifest", []):
            l = l.strip().lstrip("#-* ").strip()
            if l:
                line = l
                break
        still = m.get("on_current_repo", {}).get("still_breaks", True)
        note = "" if still else " *(no longer breaks the property on the repaired tree)*"
        out.append(f"| {d.name} | {pid} | {line[:150].replace('|', '/')}{note} | {rules} | {others} |")
        if still:
            n += 1
            own += pid in fired
            anyc += bool(fired)
    out.append("")
    out.append(f"{n} confirmed changes that break their property on the current tree: {own} reported by the property's own check, {anyc} by at least one check.")
    return "\n".join(out)


def selftest_totals() -> str:
    f = VERIF / "selftest" / "results.json"
    if not f.exists():
        return ""
    res = json.loads(f.read_text())
    by = {}
    for r in res:
        k = (r.get("expect", "fire"), r["status"])
        by[k] = by.get(k, 0) + 1
    out = ["### A.3 Self-test corpus (selftest/run.py, last full run)", ""]
    for (exp, st), c in sorted(by.items()):
        out.append(f"* expect={exp}: {c} × {st}")
    return "\n".join(out)


def benign_matrix() -> str:
    f = VERIF / "benign" / "results.json"
    if not f.exists():
        return ""
    res = json.loads(f.read_text())
    checks = [f"C{i:02d}" for i in range(1, 21)]
    out = ["### A.4 Behaviour-preserving refactorings (benign/, fresh sub-agents) and what the 20 checks say about them", "",
           "Per property: the refactorings written around its anchors (r1-r5 mixed kinds, r6-r10 structural only). `own` = verdict of the property's own check; "
           "`other checks` = how many of the other 19 end silent / not decided (exit 2) / alarm.", "", "| refactoring | own | other checks: silent / not decided / alarm | kind (from the agent's notes) |", "|---|---|---|---|"]
    verdict = {0: "silent", 1: "**ALARM**", 2: "not decided"}
    tot = {0: 0, 1: 0, 2: 0}
    n_alarm = 0
    for name in sorted(res, key=lambda n: (n.split("_r")[0], int(n.split("_r")[1]))):
        r = res[name]
        if "apply" in r:
            continue
        pid = name.split("_")[0]
        others = [r[c]["rc"] for c in checks if c != pid]
        for c in checks:
            tot[r[c]["rc"]] = tot.get(r[c]["rc"], 0) + 1
        n_alarm += any(r[c]["rc"] == 1 for c in checks)
        notes = VERIF / "benign" / name / "notes.md"
        kind = ""
        if notes.exists():
            lines = [l.strip(" -*#") for l in notes.read_text().splitlines() if l.strip()]
            kind = next((l for l in lines if "kind" in l.lower()), lines[0] if lines else "")[:110].replace("|", "/")
        out.append(f"| {name} | {verdict[r[pid]['rc']]} | {others.count(0)} / {others.count(2)} / {others.count(1)} | {kind} |")
    out.append("")
    out.append(f"{len(res)} refactorings x 20 checks = {sum(tot.values())} runs: {tot[0]} silent, {tot[2]} not decided (exit 2), {tot[1]} alarms; {n_alarm} refactoring(s) with at least one alarm.")
    return "\n".join(out)


def main() -> None:
    p = VERIF / "DESIGN.md"
    text = p.read_text()
    block = "\n\n".join(x for x in (rule_inventory(), detection_matrix(), selftest_totals(), benign_matrix()) if x)
    gen = f"{BEGIN}\n\n{block}\n\n{END}"
    if BEGIN in text and END in text:
        text = text[: text.index(BEGIN)] + gen + text[text.index(END) + len(END):]
    else:
        text = text.rstrip() + "\n\n---------------------------------------------------------------------------\n\n## Appendix A (generated)\n\n" + gen + "\n"
    p.write_text(text)
    print("DESIGN.md appendix regenerated")


if __name__ == "__main__":
    main()

"""Regenerates the generated appendix of DESIGN.md (rule inventory, seeded-change detection matrix, self-test totals):

    python -m sa.docgen

Reads evidence/*.json (written by the checks), seeded/*/meta.json (written by seeded/collect.py) and selftest/results.json.
"""

from __future__ import annotations

import json
from pathlib import Path

VERIF = Path(__file__).resolve().parent.parent
BEGIN, END = "<!-- BEGIN GENERATED (python -m sa.docgen) -->", "<!-- END GENERATED -->"


def rule_inventory() -> str:
    out = ["### A.1 Rule inventory on the current tree (from evidence/*.json)", "", "| rule | instances | floor | what it decides |", "|---|---|---|---|"]
    total = 0
    for f in sorted((VERIF / "evidence").glob("C*.json")):
        ev = json.loads(f.read_text())
        for rid, r in sorted(ev["coverage"]["rule_instances"].items()):
            out.append(f"| {rid} | {r['instances']} | {r['floor']} | {r['description']} |")
            total += r["instances"]
    out.append("")
    out.append(f"Total obligations examined on the unchanged tree: {total}.")
    return "\n".join(out)


def detection_matrix() -> str:
    out = ["### A.2 Seeded changes (fresh sub-agents, property text only) and what reports them", "",
           "`own` = the check of the property the change was written against exits 1; `others` = further checks that exit 1 on the same change. "
           "Every change below was confirmed by me: patch applies, the 48 stable tests pass with it, its demonstration fails with it and passes without it.", "",
           "| seed | breaks | change (one line) | own check: rules | others |", "|---|---|---|---|---|"]
    n = own = anyc = 0
    for d in sorted((VERIF / "seeded").iterdir()):
        mf = d / "meta.json"
        if not mf.exists():
            continue
        m = json.loads(mf.read_text())
        det = m.get("detection", {})
        pid = m["property"]
        fired = det.get("fired", [])
        rules = ", ".join(det.get("rules", {}).get(pid, [])) if pid in fired else "—"
        others = ", ".join(x for x in fired if x != pid) or "—"
        line = ""
        for l in m.get("needs_to_manifest", []):
            l = l.strip().lstrip("#-* ").strip()
            if l:
                line = l
                break
        still = m.get("on_current_repo", {}).get("still_breaks", True)
        note = "" if still else " *(no longer breaks the property on the repaired tree)*"
        out.append(f"| {d.name} | {pid} | {line[:150].replace('|', '/')}{note} | {rules} | {others} |")
        if still:
            n += 1
            own += pid in fired
            anyc += bool(fired)
    out.append("")
    out.append(f"{n} confirmed changes that break their property on the current tree: {own} reported by the property's own check, {anyc} by at least one check.")
    return "\n".join(out)


def selftest_totals() -> str:
    f = VERIF / "selftest" / "results.json"
    if not f.exists():
        return ""
    res = json.loads(f.read_text())
    by = {}
    for r in res:
        k = (r.get("expect", "fire"), r["status"])
        by[k] = by.get(k, 0) + 1
    out = ["### A.3 Self-test corpus (selftest/run.py, last full run)", ""]
    for (exp, st), c in sorted(by.items()):
        out.append(f"* expect={exp}: {c} × {st}")
    return "\n".join(out)


def main() -> None:
    p = VERIF / "DESIGN.md"
    text = p.read_text()
    block = "\n\n".join(x for x in (rule_inventory(), detection_matrix(), selftest_totals()) if x)
    gen = f"{BEGIN}\n\n{block}\n\n{END}"
    if BEGIN in text and END in text:
        text = text[: text.index(BEGIN)] + gen + text[text.index(END) + len(END):]
    else:
        text = text.rstrip() + "\n\n---------------------------------------------------------------------------\n\n## Appendix A (generated)\n\n" + gen + "\n"
    p.write_text(text)
    print("DESIGN.md appendix regenerated")


if __name__ == "__main__":
    main()

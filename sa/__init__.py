"""Static obligation checker for eprbell/rp2 (see /verif/DESIGN.md).

Nothing in this package imports, runs or symbolically executes rp2: every
decision is taken from the syntax trees (and, for a few obligations, mypy's
type map) of /repo's current working tree and from the data artefacts shipped
inside the package.
"""

#!/venv/bin/python
"""More benign whole-tree transformations for false-alarm hunting:  benign.py <src root> <kind>
  aug       x += e  ->  x = x + e   (Name targets only)
  invert    if c: A else: B  ->  if not c: B else: A   (plain if/else without elif)
  reorder   methods of every class and top-level functions of every module in reverse order (imports, constants, classes keep their relative places)
  logging   a LOGGER.debug("...") inserted as first statement of every function in modules that define LOGGER
"""
import ast, sys
from pathlib import Path


class Aug(ast.NodeTransformer):
    def visit_AugAssign(self, node):
        self.generic_visit(node)
        if isinstance(node.target, ast.Name) and isinstance(node.op, (ast.Add, ast.Sub, ast.Mult)):
            return ast.copy_location(ast.Assign(targets=[ast.Name(id=node.target.id, ctx=ast.Store())], value=ast.BinOp(left=ast.Name(id=node.target.id, ctx=ast.Load()), op=node.op, right=node.value)), node)
        return node


class Invert(ast.NodeTransformer):
    def visit_If(self, node):
        self.generic_visit(node)
        if node.orelse and not (len(node.orelse) == 1 and isinstance(node.orelse[0], ast.If)):
            return ast.copy_location(ast.If(test=ast.UnaryOp(op=ast.Not(), operand=node.test), body=node.orelse, orelse=node.body), node)
        return node


def reorder(tree):
    for cls in [n for n in ast.walk(tree) if isinstance(n, ast.ClassDef)]:
        idx = [i for i, st in enumerate(cls.body) if isinstance(st, ast.FunctionDef)]
        fns = [cls.body[i] for i in idx][::-1]
        for i, f in zip(idx, fns):
            cls.body[i] = f
    idx = [i for i, st in enumerate(tree.body) if isinstance(st, ast.FunctionDef)]
    fns = [tree.body[i] for i in idx][::-1]
    for i, f in zip(idx, fns):
        tree.body[i] = f
    return tree


def logging_(tree):
    if not any(isinstance(st, (ast.Assign, ast.AnnAssign)) and "LOGGER" in ast.unparse(st.targets[0] if isinstance(st, ast.Assign) else st.target) for st in tree.body):
        return tree
    for fn in [n for n in ast.walk(tree) if isinstance(n, ast.FunctionDef)]:
        call = ast.Expr(value=ast.Call(func=ast.Attribute(value=ast.Name(id="LOGGER", ctx=ast.Load()), attr="debug", ctx=ast.Load()), args=[ast.Constant(value=f"enter {fn.name}")], keywords=[]))
        pos = 1 if fn.body and isinstance(fn.body[0], ast.Expr) and isinstance(fn.body[0].value, ast.Constant) and isinstance(fn.body[0].value.value, str) else 0
        fn.body.insert(pos, call)
    return tree


root, kind = Path(sys.argv[1]), sys.argv[2]
for p in sorted(root.rglob("*.py")):
    tree = ast.parse(p.read_text())
    tree = {"aug": lambda t: Aug().visit(t), "invert": lambda t: Invert().visit(t), "reorder": reorder, "logging": logging_}[kind](tree)
    ast.fix_missing_locations(tree)
    p.write_text(ast.unparse(tree) + "\n")
